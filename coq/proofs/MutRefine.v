(* MutRefine.v — property C01, namespace-mutation half: when the directory
   table of a model state REPRESENTS an abstract tree t (TreeRep) without
   sharing (Unshared), every successful create_storage / create_stream (new) /
   remove_storage / remove_stream / set_clsid / set_state / set_created /
   set_modified of the model is the step the specification Tree.spec_step takes
   on t, and the resulting table represents the resulting tree, again without
   sharing. *)
From Coq Require Import List NArith Lia Bool Sorted Permutation ZifyN ZifyBool Arith.
From Cfb.model Require Import Base Names Time DirEnt State Alloc Dir Mini Store Handle Open Cfb.
From Cfb.gen Require Import Consts.
From Cfb.spec Require Import Tree.
From Cfb.proofs Require Import NamesProofs DirProofs TreeProofs QueryRefine.
Import ListNotations.
Open Scope N_scope.

Local Opaque cmp_names validate_name name_chain_from_path path_join path_from_name_chain.

(* ================================================================== *)
(* 0. lists                                                            *)
(* ================================================================== *)
Inductive Forall3 {A B C} (R : A -> B -> C -> Prop) : list A -> list B -> list C -> Prop :=
| F3_nil : Forall3 R [] [] []
| F3_cons : forall a b c la lb lc, R a b c -> Forall3 R la lb lc ->
    Forall3 R (a :: la) (b :: lb) (c :: lc).

Lemma F3_app : forall A B C (R : A -> B -> C -> Prop) la lb lc la' lb' lc',
  Forall3 R la lb lc -> Forall3 R la' lb' lc' -> Forall3 R (la ++ la') (lb ++ lb') (lc ++ lc').
Proof.
  induction 1 as [|a b c la lb lc H _ IH]; intros H'; cbn [app]; [exact H'|].
  constructor; [exact H|]. apply IH. exact H'.
Qed.

Lemma F3_app_inv_l : forall A B C (R : A -> B -> C -> Prop) la la' lb lc,
  Forall3 R (la ++ la') lb lc ->
  exists lb1 lb2 lc1 lc2, lb = lb1 ++ lb2 /\ lc = lc1 ++ lc2 /\
    Forall3 R la lb1 lc1 /\ Forall3 R la' lb2 lc2.
Proof.
  induction la as [|a la IH]; intros la' lb lc H; cbn [app] in H.
  - exists [], lb, [], lc. repeat split; try reflexivity; [constructor|exact H].
  - inversion H as [|a0 b c la0 lb0 lc0 Hab Hr]; subst.
    destruct (IH _ _ _ Hr) as (lb1 & lb2 & lc1 & lc2 & -> & -> & H1 & H2).
    exists (b :: lb1), lb2, (c :: lc1), lc2. repeat split; try reflexivity; [|exact H2].
    constructor; assumption.
Qed.

Lemma F3_app_inv_m : forall A B C (R : A -> B -> C -> Prop) lb lb' la lc,
  Forall3 R la (lb ++ lb') lc ->
  exists la1 la2 lc1 lc2, la = la1 ++ la2 /\ lc = lc1 ++ lc2 /\
    Forall3 R la1 lb lc1 /\ Forall3 R la2 lb' lc2.
Proof.
  induction lb as [|b lb IH]; intros lb' la lc H; cbn [app] in H.
  - exists [], la, [], lc. repeat split; try reflexivity; [constructor|exact H].
  - inversion H as [|a b0 c la0 lb0 lc0 Hab Hr]; subst.
    destruct (IH _ _ _ Hr) as (la1 & la2 & lc1 & lc2 & -> & -> & H1 & H2).
    exists (a :: la1), la2, (c :: lc1), lc2. repeat split; try reflexivity; [|exact H2].
    constructor; assumption.
Qed.

Lemma F3_impl : forall A B C (R R' : A -> B -> C -> Prop) la lb lc,
  Forall3 R la lb lc ->
  (forall a b c, In a la -> In b lb -> In c lc -> R a b c -> R' a b c) ->
  Forall3 R' la lb lc.
Proof.
  induction 1 as [|a b c la lb lc H _ IH]; intros K; constructor.
  - apply K; try (left; reflexivity). exact H.
  - apply IH. intros a' b' c' Ha Hb Hc. apply K; right; assumption.
Qed.

Lemma concat_app3 : forall A (a : list (list A)) u b,
  concat (a ++ u :: b) = concat a ++ u ++ concat b.
Proof. intros. rewrite concat_app. reflexivity. Qed.

(* replacing one block of a duplicate-free list by a block of old or fresh ids *)
Lemma nodup_replace : forall (a u b u' : list N),
  NoDup (a ++ u ++ b) -> NoDup u' ->
  (forall i, In i u' -> In i u \/ ~ In i (a ++ u ++ b)) ->
  NoDup (a ++ u' ++ b).
Proof.
  intros a u b u' ND ND' K.
  apply nodup_app_iff in ND. destruct ND as (Na & Nub & Dab).
  apply nodup_app_iff in Nub. destruct Nub as (Nu & Nb & Dub).
  apply nodup_app_iff. split; [exact Na|]. split.
  - apply nodup_app_iff. split; [exact ND'|]. split; [exact Nb|].
    intros i Hi Hb. destruct (K i Hi) as [Hu|Hn].
    + exact (Dub i Hu Hb).
    + apply Hn. apply in_or_app. right. apply in_or_app. right. exact Hb.
  - intros i Ha Hub. apply in_app_or in Hub. destruct Hub as [Hu'|Hb].
    + destruct (K i Hu') as [Hu|Hn].
      * apply (Dab i Ha). apply in_or_app. left. exact Hu.
      * apply Hn. apply in_or_app. left. exact Ha.
    + apply (Dab i Ha). apply in_or_app. right. exact Hb.
Qed.

Lemma remove_mid : forall (x : N) l1 l2, NoDup (l1 ++ x :: l2) ->
  remove N.eq_dec x (l1 ++ x :: l2) = l1 ++ l2.
Proof.
  intros x l1 l2 ND. apply nodup_app_iff in ND. destruct ND as (_ & N2 & D).
  rewrite remove_app. cbn [remove]. destruct (N.eq_dec x x) as [_|C]; [|congruence].
  rewrite !notin_remove; [reflexivity| |].
  - apply NoDup_cons_iff in N2. tauto.
  - intros Hc. apply (D x Hc). left. reflexivity.
Qed.

(* ================================================================== *)
(* 1. representation with the list of used table entries               *)
(* ================================================================== *)
Section NRU.
Variable ds : list dirent.
Variable content : N -> list byte -> Prop.

Definition NRU (r : bool) (id : N) (nm : name) (n : node) (U : list N) : Prop :=
  NodeRep ds content r id nm n /\ AllIds ds id n U.

Definition KidU (i : N) (kc : name * node) (u : list N) : Prop :=
  NRU false i (fst kc) (snd kc) u.

Lemma go_F3 : forall ks l Us,
  (fix go (l : list N) (ks : list (name * node)) (Us : list (list N)) {struct ks} : Prop :=
     match ks, l, Us with
     | [], [], [] => True
     | (_, c) :: ks', i :: l', u :: Us' => AllIds ds i c u /\ go l' ks' Us'
     | _, _, _ => False
     end) l ks Us <-> Forall3 (fun i kc u => AllIds ds i (snd kc) u) l ks Us.
Proof.
  induction ks as [|[k c] ks IH]; intros l Us.
  - destruct l; destruct Us; split; intros H; try contradiction; try constructor; inversion H.
  - destruct l as [|i l]; destruct Us as [|u Us]; split; intros H; try contradiction;
      try (inversion H; fail).
    + destruct H as [H1 H2]. constructor; [exact H1|]. apply IH. exact H2.
    + inversion H as [|a b c' la lb lc H1 H2]; subst. split; [exact H1|]. apply IH. exact H2.
Qed.

Lemma AllIds_dir : forall id m ks U,
  AllIds ds id (Dir m ks) U <->
  exists e t, nthN ds id = Some e /\ Rep ds (d_child e) t /\
    exists Us, Forall3 (fun i kc u => AllIds ds i (snd kc) u) (ids t) ks Us /\ U = id :: concat Us.
Proof.
  intros. cbn [AllIds]. split.
  - intros (e & t & He & HR & Us & HK & HU). exists e, t. split; [exact He|]. split; [exact HR|].
    exists Us. split; [apply go_F3; exact HK|exact HU].
  - intros (e & t & He & HR & Us & HK & HU). exists e, t. split; [exact He|]. split; [exact HR|].
    exists Us. split; [apply go_F3; exact HK|exact HU].
Qed.

Lemma F2_F3_zip : forall l ks Us,
  KidsRep ds content l ks -> Forall3 (fun i kc u => AllIds ds i (snd kc) u) l ks Us ->
  Forall3 KidU l ks Us.
Proof.
  intros l ks Us H2 H3. revert H2.
  induction H3 as [|i kc u l ks Us H _ IH]; intros H2; [constructor|].
  inversion H2 as [|a b la lb Hab Hr]; subst.
  constructor; [split; assumption|]. apply IH. exact Hr.
Qed.

Lemma F3_KidsRep : forall l ks Us, Forall3 KidU l ks Us -> KidsRep ds content l ks.
Proof. induction 1 as [|i kc u l ks Us [H _] _ IH]; constructor; assumption. Qed.

Lemma F3_AllIds : forall l ks Us, Forall3 KidU l ks Us ->
  Forall3 (fun i kc u => AllIds ds i (snd kc) u) l ks Us.
Proof. induction 1 as [|i kc u l ks Us [_ H] _ IH]; constructor; assumption. Qed.

Lemma NRU_leaf : forall r id nm st bs U,
  NRU r id nm (Leaf st bs) U <->
  id < NO_STREAM /\ exists e, nthN ds id = Some e /\ d_name e = nm /\
    r = false /\ d_type e = TStream /\ d_child e = NO_STREAM /\
    d_state e = st /\ d_len e = lenN bs /\ content id bs /\
    d_clsid e = 0 /\ d_ctime e = 0 /\ d_mtime e = 0 /\ U = [id].
Proof.
  intros. unfold NRU. rewrite NodeRep_leaf. cbn [AllIds]. split.
  - intros [(Hid & e & He & H) [HU _]]. split; [exact Hid|]. exists e. split; [exact He|].
    intuition.
  - intros (Hid & e & He & Hn & Hr & Ht & Hc & Hs & Hl & Hco & H1 & H2 & H3 & HU).
    split; [|split; [exact HU|eapply nthN_Some_lt; eauto]].
    split; [exact Hid|]. exists e. intuition.
Qed.

Lemma NRU_dir : forall r id nm m ks U,
  NRU r id nm (Dir m ks) U <->
  id < NO_STREAM /\ exists e, nthN ds id = Some e /\ d_name e = nm /\
    d_type e = (if r then TRoot else TStorage) /\ meta_of e = m /\
    (r = false -> d_len e = 0) /\
    exists t Us, Rep ds (d_child e) t /\ bst ds t /\ NoDup (ids t) /\
      Forall3 KidU (ids t) ks Us /\ U = id :: concat Us.
Proof.
  intros. unfold NRU. rewrite NodeRep_dir, AllIds_dir. split.
  - intros [(Hid & e & He & Hn & Ht & Hm & Hl & t & HR & HB & ND & HK)
            (e' & t' & He' & HR' & Us & HA & HU)].
    assert (e' = e) by congruence. subst e'.
    assert (t' = t) by (eapply rep_functional; eauto). subst t'.
    split; [exact Hid|]. exists e. repeat (split; [assumption|]).
    exists t, Us. repeat (split; [assumption|]). split; [|exact HU].
    apply F2_F3_zip; assumption.
  - intros (Hid & e & He & Hn & Ht & Hm & Hl & t & Us & HR & HB & ND & HK & HU). split.
    + split; [exact Hid|]. exists e. repeat (split; [assumption|]).
      exists t. repeat (split; [assumption|]). eapply F3_KidsRep; eauto.
    + exists e, t. split; [exact He|]. split; [exact HR|]. exists Us.
      split; [apply F3_AllIds; exact HK|exact HU].
Qed.

Lemma NRU_head : forall r id nm n U, NRU r id nm n U -> exists U0, U = id :: U0.
Proof.
  intros r id nm [st bs|m ks] U H.
  - apply NRU_leaf in H. destruct H as (_ & e & H). exists []. intuition.
  - apply NRU_dir in H. destruct H as (_ & e & _ & _ & _ & _ & _ & t & Us & _ & _ & _ & _ & HU).
    eauto.
Qed.

Lemma F3_heads : forall l ks Us, Forall3 KidU l ks Us -> forall j, In j l -> In j (concat Us).
Proof.
  induction 1 as [|i kc u l ks Us H _ IH]; intros j Hj; [contradiction|].
  cbn [concat]. apply in_or_app. destruct Hj as [<-|Hj]; [|right; auto].
  left. destruct (NRU_head _ _ _ _ _ H) as [U0 ->]. left. reflexivity.
Qed.

Lemma F3_names : forall l ks Us, Forall3 KidU l ks Us -> map (nm_of ds) l = map fst ks.
Proof. intros l ks Us H. eapply KidsRep_names. eapply F3_KidsRep. exact H. Qed.

(* every used entry is inside the table and allocated *)
Lemma NRU_typed : forall n r id nm U, NRU r id nm n U ->
  forall j, In j U -> exists e, nthN ds j = Some e /\ d_type e <> TUnalloc.
Proof.
  induction n as [st bs|m ks IH] using node_ind'; intros r id nm U H j Hj.
  - apply NRU_leaf in H. destruct H as (_ & e & He & _ & _ & Ht & H). 
    assert (U = [id]) by intuition. subst U. destruct Hj as [<-|[]].
    exists e. split; [exact He|congruence].
  - apply NRU_dir in H.
    destruct H as (_ & e & He & _ & Ht & _ & _ & t & Us & _ & _ & _ & HK & ->).
    destruct Hj as [<-|Hj].
    { exists e. split; [exact He|]. rewrite Ht. destruct r; discriminate. }
    clear He Ht. revert IH Hj. induction HK as [|i kc u l ks Us H _ IHK]; intros IH Hj; [contradiction|].
    cbn [concat] in Hj. apply in_app_or in Hj. inversion IH as [|a b Hc Hr]; subst.
    destruct Hj as [Hj|Hj]; [eapply Hc; eauto|eapply IHK; eauto].
Qed.

End NRU.

(* ---- transfer between tables that agree on the used entries ---- *)
Section Transfer.
Variables ds ds' : list dirent.
Variables c c' : N -> list byte -> Prop.

Lemma NRU_transfer : forall n r id nm U,
  NRU ds c r id nm n U ->
  (forall j, In j U -> nthN ds' j = nthN ds j) ->
  (forall j bs, In j U -> c j bs -> c' j bs) ->
  NRU ds' c' r id nm n U.
Proof.
  induction n as [st bs|m ks IH] using node_ind'; intros r id nm U H A C.
  - apply NRU_leaf in H. apply NRU_leaf.
    destruct H as (Hid & e & He & Hn & Hr & Ht & Hc & Hs & Hl & Hco & H1 & H2 & H3 & HU).
    subst U. split; [exact Hid|]. exists e. rewrite A by (left; reflexivity).
    repeat (split; [assumption|]). split; [apply C; [left; reflexivity|exact Hco]|]. auto.
  - apply NRU_dir in H. apply NRU_dir.
    destruct H as (Hid & e & He & Hn & Ht & Hm & Hl & t & Us & HR & HB & ND & HK & ->).
    split; [exact Hid|]. exists e. rewrite A by (left; reflexivity).
    repeat (split; [assumption|]). exists t, Us.
    assert (forall j, In j (ids t) -> nthN ds' j = nthN ds j) as At.
    { intros j Hj. apply A. right. eapply F3_heads; eauto. }
    split; [eapply rep_frame; eauto|].
    split; [eapply bst_frame; [|exact HB]; intros j Hj; unfold nm_of; rewrite At by exact Hj; reflexivity|].
    split; [exact ND|]. split; [|reflexivity].
    assert (forall j, In j (concat Us) -> nthN ds' j = nthN ds j) as A' by (intros; apply A; right; assumption).
    assert (forall j bs, In j (concat Us) -> c j bs -> c' j bs) as C' by (intros j bs Hj; apply C; right; assumption).
    clear A C At HR HB ND He. revert IH A' C'.
    induction HK as [|i kc u l ks Us H _ IHK]; intros IH A' C'; [constructor|].
    inversion IH as [|a b Hc Hr]; subst. cbn [concat] in A', C'. constructor.
    + apply Hc; [exact H| |]; intros; [apply A'|eapply C'; [|eassumption]]; apply in_or_app; left; assumption.
    + apply IHK; [exact Hr| |]; intros; [apply A'|eapply C'; [|eassumption]]; apply in_or_app; right; assumption.
Qed.

End Transfer.

(* ---- one entry changes its payload (not its name, type, child) ---- *)
Definition renode (n : node) (e' : dirent) : node :=
  match n with
  | Leaf _ bs => Leaf (d_state e') bs
  | Dir _ ks => Dir (meta_of e') ks
  end.

Section EntryChange.
Variables ds ds' : list dirent.
Variables c c' : N -> list byte -> Prop.

Lemma NRU_entry_change : forall n r id nm U e e',
  NRU ds c r id nm n U -> NoDup U ->
  nthN ds id = Some e -> nthN ds' id = Some e' ->
  (forall j, In j U -> j <> id -> nthN ds' j = nthN ds j) ->
  (forall j bs, In j U -> c j bs -> c' j bs) ->
  d_name e' = d_name e -> d_type e' = d_type e -> d_child e' = d_child e ->
  (r = false -> d_len e' = d_len e) ->
  (is_leaf n = true -> d_clsid e' = 0 /\ d_ctime e' = 0 /\ d_mtime e' = 0) ->
  NRU ds' c' r id nm (renode n e') U.
Proof.
  intros [st bs|m ks] r id nm U e e' H ND He He' A C En Et Ec El Ez; cbn [renode].
  - apply NRU_leaf in H. apply NRU_leaf.
    destruct H as (Hid & e0 & He0 & Hn & Hr & Ht & Hc & Hs & Hl & Hco & H1 & H2 & H3 & HU).
    assert (e0 = e) by congruence. subst e0 U.
    split; [exact Hid|]. exists e'. split; [exact He'|].
    destruct (Ez eq_refl) as (Z1 & Z2 & Z3).
    split; [congruence|]. split; [exact Hr|]. split; [congruence|]. split; [congruence|].
    split; [reflexivity|]. split; [rewrite (El Hr); exact Hl|].
    split; [apply C; [left; reflexivity|exact Hco]|]. auto.
  - apply NRU_dir in H. apply NRU_dir.
    destruct H as (Hid & e0 & He0 & Hn & Ht & Hm & Hl & t & Us & HR & HB & NDt & HK & ->).
    assert (e0 = e) by congruence. subst e0.
    apply NoDup_cons_iff in ND. destruct ND as [Hnotin NDc].
    assert (forall j, In j (concat Us) -> nthN ds' j = nthN ds j) as A'.
    { intros j Hj. apply A; [right; exact Hj|]. intros ->. contradiction. }
    assert (forall j, In j (ids t) -> nthN ds' j = nthN ds j) as At.
    { intros j Hj. apply A'. eapply F3_heads; eauto. }
    split; [exact Hid|]. exists e'. split; [exact He'|]. split; [congruence|].
    split; [congruence|]. split; [reflexivity|].
    split; [intros Hr; rewrite (El Hr); auto|].
    exists t, Us. rewrite Ec.
    split; [eapply rep_frame; eauto|].
    split; [eapply bst_frame; [|exact HB]; intros j Hj; unfold nm_of; rewrite At by exact Hj; reflexivity|].
    split; [exact NDt|]. split; [|reflexivity].
    eapply F3_impl; [exact HK|]. intros i kc u Hi Hkc Hu HN.
    assert (incl u (concat Us)) as Iu.
    { intros j Hj. apply in_concat. exists u. split; assumption. }
    eapply NRU_transfer; [exact HN| |].
    + intros j Hj. apply A'. apply Iu. exact Hj.
    + intros j b Hj. apply C. right. apply Iu. exact Hj.
Qed.

(* only links and colour change *)
Lemma NRU_relink : forall n r id nm U e e',
  NRU ds c r id nm n U -> NoDup U ->
  nthN ds id = Some e -> nthN ds' id = Some e' ->
  (forall j, In j U -> j <> id -> nthN ds' j = nthN ds j) ->
  (forall j bs, In j U -> c j bs -> c' j bs) ->
  same_payload e e' -> d_child e' = d_child e ->
  NRU ds' c' r id nm n U.
Proof.
  intros n r id nm U e e' H ND He He' A C P Ec.
  destruct P as (Pn & Pt & Pst & Pl & Pc & Ps & Pct & Pmt).
  assert (renode n e' = n /\ (is_leaf n = true -> d_clsid e' = 0 /\ d_ctime e' = 0 /\ d_mtime e' = 0))
    as [Ern Ez].
  { destruct n as [st bs|m ks]; cbn [renode is_leaf].
    - apply NRU_leaf in H.
      destruct H as (_ & e0 & He0 & _ & _ & _ & _ & Hs & _ & _ & H1 & H2 & H3 & _).
      assert (e0 = e) by congruence. subst e0. split; [congruence|]. intros _.
      repeat split; congruence.
    - apply NRU_dir in H. destruct H as (_ & e0 & He0 & _ & _ & Hm & _).
      assert (e0 = e) by congruence. subst e0. split; [|discriminate].
      f_equal. rewrite <- Hm. unfold meta_of. congruence. }
  rewrite <- Ern. eapply NRU_entry_change; eauto.
Qed.

(* the children of a storage whose sibling tree was relinked: the heads may
   change links and colour, everything below is untouched *)
Lemma F3_transfer : forall l ks Us,
  Forall3 (KidU ds c) l ks Us -> NoDup (concat Us) ->
  (forall i e, In i l -> nthN ds i = Some e ->
     exists e', nthN ds' i = Some e' /\ same_payload e e' /\ d_child e' = d_child e) ->
  (forall i, In i (concat Us) -> ~ In i l -> nthN ds' i = nthN ds i) ->
  (forall j bs, In j (concat Us) -> c j bs -> c' j bs) ->
  Forall3 (KidU ds' c') l ks Us.
Proof.
  induction 1 as [|i kc u l ks Us H HK IH]; intros ND H1 H2 C; [constructor|].
  cbn [concat] in ND, H2, C. apply nodup_app_iff in ND. destruct ND as (Nu & Nc & D).
  destruct (NRU_head _ _ _ _ _ _ _ H) as [u0 Eu].
  assert (In i u) as Hiu by (rewrite Eu; left; reflexivity).
  constructor.
  - destruct (NodeRep_entry _ _ _ _ _ _ (proj1 H)) as (_ & e & He & _).
    destruct (H1 i e (or_introl eq_refl) He) as (e' & He' & P & Ec).
    unfold KidU. eapply NRU_relink; [exact H|exact Nu|exact He|exact He'| | |exact P|exact Ec].
    + intros j Hj Hji. apply H2; [apply in_or_app; left; exact Hj|].
      intros [Hc|Hc]; [congruence|]. apply (D j Hj). eapply F3_heads; eauto.
    + intros j b Hj. apply C. apply in_or_app. left. exact Hj.
  - apply IH; [exact Nc| | |].
    + intros j e Hj. apply H1. right. exact Hj.
    + intros j Hj Hn. apply H2; [apply in_or_app; right; exact Hj|].
      intros [Hc|Hc]; [|contradiction]. subst j. exact (D i Hiu Hj).
    + intros j b Hj. apply C. apply in_or_app. right. exact Hj.
Qed.

End EntryChange.

(* ================================================================== *)
(* 2. the children list around one name                                *)
(* ================================================================== *)
Lemma find_kid_split : forall a ks k cn, find_kid a ks = Some (k, cn) ->
  exists ks1 ks2, ks = ks1 ++ (k, cn) :: ks2 /\ find_kid a ks1 = None /\ cmp_names a k = Eq.
Proof.
  induction ks as [|[k0 c0] ks IH]; intros k cn H; cbn [find_kid] in H; [discriminate|].
  destruct (cmp_names a k0) eqn:E.
  - injection H as <- <-. exists [], ks. auto.
  - destruct (IH _ _ H) as (ks1 & ks2 & -> & F & Ek). exists ((k0, c0) :: ks1), ks2.
    split; [reflexivity|]. split; [cbn [find_kid]; rewrite E; exact F|exact Ek].
  - destruct (IH _ _ H) as (ks1 & ks2 & -> & F & Ek). exists ((k0, c0) :: ks1), ks2.
    split; [reflexivity|]. split; [cbn [find_kid]; rewrite E; exact F|exact Ek].
Qed.

Lemma replace_kid_split : forall a ks1 k cn cn' ks2,
  find_kid a ks1 = None -> cmp_names a k = Eq ->
  replace_kid a cn' (ks1 ++ (k, cn) :: ks2) = ks1 ++ (k, cn') :: ks2.
Proof.
  induction ks1 as [|[k0 c0] ks1 IH]; intros k cn cn' ks2 F E; cbn [app replace_kid].
  - rewrite E. reflexivity.
  - cbn [find_kid] in F. destruct (cmp_names a k0); [discriminate F| |]; rewrite IH by assumption; reflexivity.
Qed.

Lemma remove_kid_split : forall a ks1 k cn ks2,
  find_kid a ks1 = None -> cmp_names a k = Eq ->
  remove_kid a (ks1 ++ (k, cn) :: ks2) = ks1 ++ ks2.
Proof.
  induction ks1 as [|[k0 c0] ks1 IH]; intros k cn ks2 F E; cbn [app remove_kid].
  - rewrite E. reflexivity.
  - cbn [find_kid] in F. destruct (cmp_names a k0); [discriminate F| |]; rewrite IH by assumption; reflexivity.
Qed.

Lemma insert_kid_split : forall a cn ks1 ks2,
  Forall (fun kc => cmp_names a (fst kc) = Gt) ks1 ->
  Forall (fun kc => cmp_names a (fst kc) = Lt) ks2 ->
  insert_kid a cn (ks1 ++ ks2) = ks1 ++ (a, cn) :: ks2.
Proof.
  induction ks1 as [|[k0 c0] ks1 IH]; intros ks2 F1 F2; cbn [app].
  - destruct ks2 as [|[k c] ks2]; [reflexivity|]. cbn [insert_kid].
    inversion F2 as [|x y Hx Hy]; subst. cbn [fst] in Hx. rewrite Hx. reflexivity.
  - inversion F1 as [|x y Hx Hy]; subst. cbn [fst] in Hx. cbn [insert_kid]. rewrite Hx.
    rewrite IH by assumption. reflexivity.
Qed.

Lemma update_const : forall names t f tgt, Tree.get t names = Some tgt ->
  update t names f = update t names (fun _ => f tgt).
Proof.
  induction names as [|a rest IH]; intros t f tgt H; cbn [Tree.get update] in *.
  - injection H as ->. reflexivity.
  - destruct t as [st bs|m ks]; [reflexivity|].
    destruct (find_kid a ks) as [[k cn]|]; [|reflexivity]. rewrite (IH cn f tgt H). reflexivity.
Qed.

(* ================================================================== *)
(* 3. focusing on the node at a path                                   *)
(* ================================================================== *)
Section Path.
Variable ds : list dirent.
Variable c : N -> list byte -> Prop.

Lemma path_focus : forall names n r id nm U tgt,
  NRU ds c r id nm n U -> NoDup U -> Tree.get n names = Some tgt ->
  exists tid tnm Ut,
    lookup_chain ds names id = Ok (Some tid) /\
    NRU ds c (r && is_nil names) tid tnm tgt Ut /\ incl Ut U /\ NoDup Ut /\
    ((names = [] /\ tid = id) \/ ~ In id Ut) /\
    forall ds' c' tgt' Ut',
      NRU ds' c' (r && is_nil names) tid tnm tgt' Ut' ->
      keeps ds ds' tid ->
      (forall i, In i U -> ~ In i Ut -> nthN ds' i = nthN ds i) ->
      (forall i bs, In i U -> ~ In i Ut -> c i bs -> c' i bs) ->
      NoDup Ut' -> (forall i, In i Ut' -> In i Ut \/ ~ In i U) ->
      exists U', NRU ds' c' r id nm (update n names (fun _ => tgt')) U' /\ NoDup U' /\
         (forall i, In i U' -> In i U \/ In i Ut').
Proof.
  induction names as [|a rest IH]; intros n r id nm U tgt H ND G.
  - cbn [Tree.get] in G. injection G as <-. exists id, nm, U. cbn [is_nil]. rewrite andb_true_r.
    split; [reflexivity|]. split; [exact H|]. split; [apply incl_refl|]. split; [exact ND|].
    split; [left; auto|].
    intros ds' c' tgt' Ut' H' _ _ _ ND' _. exists Ut'. cbn [update]. split; [exact H'|].
    split; [exact ND'|]. intros i Hi. right. exact Hi.
  - cbn [Tree.get] in G. destruct n as [st bs|m ks]; [discriminate G|].
    destruct (find_kid a ks) as [[k cn]|] eqn:Fk; [|discriminate G].
    apply NRU_dir in H.
    destruct H as (Hid & e & He & Hn & Ht & Hm & Hl & t & Us & HR & HB & NDt & HK & ->).
    destruct (find_kid_split _ _ _ _ Fk) as (ks1 & ks2 & -> & Fk1 & Eak).
    destruct (F3_app_inv_m _ _ _ _ _ _ _ _ HK) as (l1 & l2' & Us1 & Us2' & El & -> & HK1 & HK2).
    inversion HK2 as [|i kc u l2 ks2' Us2 Hi HK2' E1 E2 E3]; subst l2' Us2' kc ks2'. clear HK2.
    rewrite concat_app3 in ND. apply NoDup_cons_iff in ND. destruct ND as [Hidn ND].
    pose proof ND as ND0.
    apply nodup_app_iff in ND. destruct ND as (N1 & Nu2 & D1).
    apply nodup_app_iff in Nu2. destruct Nu2 as (Nu & N2 & D2).
    assert (forall j, In j (concat Us1) \/ In j (concat Us2) -> ~ In j u) as Hout.
    { intros j [Hj|Hj] Hu; [apply (D1 j Hj); apply in_or_app; left; exact Hu|exact (D2 j Hu Hj)]. }
    unfold KidU in Hi. cbn [fst snd] in Hi.
    destruct (IH cn false i k u tgt Hi Nu G)
      as (tid & tnm & Ut & Hlk & HT & Hincl & NDUt & Hcase & Hcont).
    assert (incl u (concat Us1 ++ u ++ concat Us2)) as Iu.
    { intros j Hj. apply in_or_app. right. apply in_or_app. left. exact Hj. }
    assert (In i (ids t)) as Hit by (rewrite El; apply in_or_app; right; left; reflexivity).
    assert (nm_of ds i = k) as Hnmi by (apply (KidRep_nm ds c i (k, cn)); exact (proj1 Hi)).
    exists tid, tnm, Ut. cbn [is_nil andb] in HT. rewrite andb_false_r.
    split.
    { cbn [lookup_chain]. unfold dir_entry_of. rewrite He. cbn [rbind].
      rewrite (find_in_siblings_total ds a t (d_child e) HR NDt).
      assert (bst_find ds a t = Some i) as ->.
      { apply bst_find_iff; [exact HB|]. split; [exact Hit|]. rewrite Hnmi. exact Eak. }
      cbn [rbind]. exact Hlk. }
    split; [exact HT|].
    split. { intros j Hj. right. rewrite concat_app3. apply Iu. apply Hincl. exact Hj. }
    split; [exact NDUt|].
    split. { right. intros Hc. apply Hidn. apply Iu. apply Hincl. exact Hc. }
    intros ds' c' tgt' Ut' HT' Hkeep Hex Hcf NDUt' Hfresh.
    rewrite concat_app3 in Hex, Hcf, Hfresh.
    destruct (Hcont ds' c' tgt' Ut' HT' Hkeep) as (u' & HN' & NDu' & Hu'); [| |exact NDUt'| |].
    { intros j Hj. apply Hex. right. apply Iu. exact Hj. }
    { intros j b Hj. apply Hcf. right. apply Iu. exact Hj. }
    { intros j Hj. destruct (Hfresh j Hj) as [Hc|Hc]; [left; exact Hc|].
      right. intros Hu. apply Hc. right. apply Iu. exact Hu. }
    assert (forall j, In j (concat Us1) \/ In j (concat Us2) -> nthN ds' j = nthN ds j) as Ao.
    { intros j Hj. apply Hex.
      - right. apply in_or_app. destruct Hj as [Hj|Hj]; [left; exact Hj|].
        right. apply in_or_app. right. exact Hj.
      - intros Hc. apply (Hout j Hj). apply Hincl. exact Hc. }
    assert (forall j b, In j (concat Us1) \/ In j (concat Us2) -> c j b -> c' j b) as Co.
    { intros j b Hj. apply Hcf.
      - right. apply in_or_app. destruct Hj as [Hj|Hj]; [left; exact Hj|].
        right. apply in_or_app. right. exact Hj.
      - intros Hc. apply (Hout j Hj). apply Hincl. exact Hc. }
    assert (forall j, In j (ids t) -> j <> i -> nthN ds' j = nthN ds j) as At.
    { intros j Hj Hji. apply Ao. rewrite El in Hj. apply in_app_or in Hj.
      destruct Hj as [Hj|[Hj|Hj]]; [left; eapply F3_heads; eauto|congruence|right; eapply F3_heads; eauto]. }
    assert (nm_of ds' i = k) as Hnmi'.
    { apply (KidRep_nm ds' c' i (k, update cn rest (fun _ => tgt'))). exact (proj1 HN'). }
    assert (nthN ds' id = Some e) as He'.
    { rewrite Hex; [exact He|left; reflexivity|].
      intros Hc. apply Hidn. apply Iu. apply Hincl. exact Hc. }
    exists (id :: concat (Us1 ++ u' :: Us2)). split; [|split].
    + cbn [update]. rewrite Fk. rewrite (replace_kid_split a ks1 k cn _ ks2 Fk1 Eak).
      apply NRU_dir. split; [exact Hid|]. exists e. repeat (split; [assumption|]).
      exists t, (Us1 ++ u' :: Us2).
      split.
      { eapply rep_frame_links; [exact HR|]. intros j Hj.
        destruct (N.eq_dec j i) as [->|Hji]; [|apply keeps_eq; apply At; assumption].
        destruct Hcase as [[_ ->]|Hni]; [exact Hkeep|].
        apply keeps_eq. apply Hex; [|exact Hni]. right. apply Iu.
        destruct (NRU_head _ _ _ _ _ _ _ Hi) as [u0 ->]. left. reflexivity. }
      split.
      { eapply bst_frame; [|exact HB]. intros j Hj.
        destruct (N.eq_dec j i) as [->|Hji]; [congruence|].
        unfold nm_of. rewrite At by assumption. reflexivity. }
      split; [exact NDt|]. split; [|reflexivity].
      rewrite El. apply F3_app; [|constructor; [exact HN'|]].
      * eapply F3_impl; [exact HK1|]. intros j kc uj Hj Hkc Huj HN.
        assert (incl uj (concat Us1)) as Ij.
        { intros x Hx. apply in_concat. exists uj. split; assumption. }
        eapply NRU_transfer; [exact HN| |].
        -- intros x Hx. apply Ao. left. apply Ij. exact Hx.
        -- intros x b Hx. apply Co. left. apply Ij. exact Hx.
      * eapply F3_impl; [exact HK2'|]. intros j kc uj Hj Hkc Huj HN.
        assert (incl uj (concat Us2)) as Ij.
        { intros x Hx. apply in_concat. exists uj. split; assumption. }
        eapply NRU_transfer; [exact HN| |].
        -- intros x Hx. apply Ao. right. apply Ij. exact Hx.
        -- intros x b Hx. apply Co. right. apply Ij. exact Hx.
    + rewrite concat_app3.
      change (NoDup ((id :: concat Us1) ++ u' ++ concat Us2)).
      apply (nodup_replace (id :: concat Us1) u (concat Us2) u').
      * cbn [app]. constructor; assumption.
      * exact NDu'.
      * intros j Hj. destruct (Hu' j Hj) as [Hc|Hc]; [left; exact Hc|].
        destruct (Hfresh j Hc) as [Hc'|Hc']; [left; apply Hincl; exact Hc'|right; exact Hc'].
    + rewrite !concat_app3. intros j [<-|Hj]; [left; left; reflexivity|].
      apply in_app_or in Hj. destruct Hj as [Hj|Hj].
      * left. right. apply in_or_app. left. exact Hj.
      * apply in_app_or in Hj. destruct Hj as [Hj|Hj].
        -- destruct (Hu' j Hj) as [Hc|Hc]; [left; right; apply Iu; exact Hc|right; exact Hc].
        -- left. right. apply in_or_app. right. apply in_or_app. right. exact Hj.
Qed.

End Path.

(* ================================================================== *)
(* 4. the whole tree                                                   *)
(* ================================================================== *)
Lemma tree_NRU : forall ds c t, TreeRep ds c t -> Unshared ds t ->
  exists U, NRU ds c true ROOT_STREAM_ID ROOT_DIR_NAME t U /\ NoDup U.
Proof. intros ds c t H (U & HA & ND). exists U. split; [split; assumption|exact ND]. Qed.

Lemma NRU_tree : forall ds c t U, NRU ds c true ROOT_STREAM_ID ROOT_DIR_NAME t U -> NoDup U ->
  TreeRep ds c t /\ Unshared ds t.
Proof. intros ds c t U [H1 H2] ND. split; [exact H1|]. exists U. auto. Qed.

(* what an entry says about the node it represents *)
Definition en_ok (e : dirent) (n : node) : Prop :=
  match n with
  | Leaf st _ => d_type e = TStream /\ d_state e = st /\ d_clsid e = 0 /\ d_ctime e = 0 /\ d_mtime e = 0
  | Dir m _ => d_type e <> TStream /\ meta_of e = m
  end.

Lemma NRU_en_ok : forall ds c r id nm n U e,
  NRU ds c r id nm n U -> nthN ds id = Some e -> en_ok e n.
Proof.
  intros ds c r id nm [st bs|m ks] U e H He; cbn [en_ok].
  - apply NRU_leaf in H.
    destruct H as (_ & e0 & He0 & _ & _ & Ht & _ & Hs & _ & _ & H1 & H2 & H3 & _).
    assert (e0 = e) by congruence. subst e0. auto.
  - apply NRU_dir in H. destruct H as (_ & e0 & He0 & _ & Ht & Hm & _).
    assert (e0 = e) by congruence. subst e0. split; [|exact Hm]. rewrite Ht. destruct r; discriminate.
Qed.

(* ---- monad inversion for the common prefix ---- *)
Lemma names_lookup_inv : forall A p (K : list name -> option N -> M A) s s' x,
  (do names <- names_of p; do r <- lookup names; K names r) s = (s', Ok x) ->
  exists names r, name_chain_from_path p = Ok names /\
    lookup_chain (dirs s) names ROOT_STREAM_ID = Ok r /\ K names r s = (s', Ok x).
Proof.
  intros A p K s s' x H. binv H names s1 H1 H2. rewrite q_names_of_run in H1.
  injection H1 as <- H1. binv H2 r s1 H2 H3. rewrite q_lookup_run in H2. injection H2 as <- H2.
  exists names, r. auto.
Qed.

Lemma lookup_inv : forall A names (K : option N -> M A) s s' x,
  (do r <- lookup names; K r) s = (s', Ok x) ->
  exists r, lookup_chain (dirs s) names ROOT_STREAM_ID = Ok r /\ K r s = (s', Ok x).
Proof.
  intros A names K s s' x H. binv H r s1 H2 H3. rewrite q_lookup_run in H2. injection H2 as <- H2.
  exists r. auto.
Qed.

Lemma wdem_inv : forall id f s s' u,
  with_dir_entry_mut id f s = (s', Ok u) ->
  exists e, nthN (dirs s) id = Some e /\ dirs s' = modN (dirs s) id f.
Proof.
  intros id f s s' u H. apply with_dir_entry_mut_ok_inv in H. unfold with_dir_entry_mut_inner in H.
  binv H e s1 H1 H2. binv H2 u1 s2 H2 H3.
  destruct (rmw_inv2 id f _ _ _ _ _ H1 H2) as (-> & He & E).
  apply (frames_run _ _ _ _ _ (frames_write_dir_entry _)) in H3.
  exists e. split; [exact He|congruence].
Qed.

(* the table lookup and the tree lookup agree *)
Lemma lookup_get : forall ds c t names r,
  TreeRep ds c t -> lookup_chain ds names ROOT_STREAM_ID = Ok r ->
  match r, Tree.get t names with
  | Some id, Some n => exists nm, NodeRep ds c (is_nil names) id nm n
  | None, None => True
  | _, _ => False
  end.
Proof.
  intros ds c t names r HT H.
  destruct (lookup_refines_get ds c t HT names) as (res & Hl & Hm).
  assert (res = r) by congruence. subst res.
  destruct r as [id|]; destruct (Tree.get t names) as [n|]; try contradiction; [|exact I].
  destruct Hm as (nm & HN & _). eauto.
Qed.

(* ================================================================== *)
(* U5. metadata                                                        *)
(* ================================================================== *)
Section SetMeta.
Variables c c' : N -> list byte -> Prop.
Hypothesis content_stable : forall i bs, c i bs -> c' i bs.

Lemma set_names_refines : forall s s' t names id (f : dirent -> dirent) (g : node -> node) u,
  TreeRep (dirs s) c t -> Unshared (dirs s) t ->
  lookup_chain (dirs s) names ROOT_STREAM_ID = Ok (Some id) ->
  with_dir_entry_mut id f s = (s', Ok u) ->
  (forall e, d_name (f e) = d_name e /\ d_type (f e) = d_type e /\ d_child (f e) = d_child e /\
             d_left (f e) = d_left e /\ d_right (f e) = d_right e /\ d_len (f e) = d_len e) ->
  (forall e n, nthN (dirs s) id = Some e -> en_ok e n ->
     renode n (f e) = g n /\
     (is_leaf n = true -> d_clsid (f e) = 0 /\ d_ctime (f e) = 0 /\ d_mtime (f e) = 0)) ->
  exists n, Tree.get t names = Some n /\
    TreeRep (dirs s') c' (update t names g) /\ Unshared (dirs s') (update t names g).
Proof.
  intros s s' t names id f g u HT HU Hlk Hw Hf Hfg.
  destruct (tree_NRU _ _ _ HT HU) as (U & HN & ND).
  pose proof (lookup_get _ _ _ _ _ HT Hlk) as Hg.
  destruct (Tree.get t names) as [n|] eqn:G; [|contradiction]. clear Hg.
  exists n. split; [reflexivity|].
  destruct (path_focus _ _ names t true ROOT_STREAM_ID ROOT_DIR_NAME U n HN ND G)
    as (tid & tnm & Ut & Hlk' & HTg & Hincl & NDUt & _ & Hcont).
  assert (tid = id) by congruence. subst tid.
  destruct (wdem_inv _ _ _ _ _ Hw) as (e & He & Hds).
  destruct (Hf e) as (F1 & F2 & F3 & F4 & F5 & F6).
  destruct (Hfg e n He (NRU_en_ok _ _ _ _ _ _ _ _ HTg He)) as [Ern Ez].
  assert (nthN (dirs s') id = Some (f e)) as He' by (rewrite Hds; apply nthN_modN_same; exact He).
  assert (forall j, j <> id -> nthN (dirs s') j = nthN (dirs s) j) as Ao.
  { intros j Hj. rewrite Hds. apply nthN_modN_other. congruence. }
  assert (In id Ut) as Hin.
  { destruct (NRU_head _ _ _ _ _ _ _ HTg) as [U0 ->]. left. reflexivity. }
  assert (NRU (dirs s') c' (true && is_nil names) id tnm (g n) Ut) as HTg'.
  { rewrite <- Ern. eapply NRU_entry_change; eauto. }
  destruct (Hcont (dirs s') c' (g n) Ut HTg') as (U' & HN' & ND' & _).
  - intros e0 He0. assert (e0 = e) by congruence. subst e0. exists (f e). auto.
  - intros j _ Hj. apply Ao. intros ->. contradiction.
  - intros j b _ _. apply content_stable.
  - exact NDUt.
  - intros j Hj. left. exact Hj.
  - rewrite (update_const names t g n G). apply (NRU_tree _ _ _ U'); assumption.
Qed.

Ltac set_field_solve :=
  let e := fresh "e" in
  intros e; repeat split; try reflexivity; destruct (objtype_eqb (d_type e) TStream); reflexivity.

Theorem set_state_refines : forall p bits now s s' t,
  TreeRep (dirs s) c t -> Unshared (dirs s) t ->
  api_set_state p bits s = (s', Ok tt) ->
  exists t', spec_step t now (SSetState p bits) = (t', Ok SVUnit) /\
    TreeRep (dirs s') c' t' /\ Unshared (dirs s') t'.
Proof.
  intros p bits now s s' t HT HU H. unfold api_set_state, set_entry_with_path in H.
  destruct (names_lookup_inv _ _ _ _ _ _ H) as (names & r & En & Hlk & HK).
  destruct r as [id|]; [|discriminate HK].
  destruct (set_names_refines s s' t names id _
    (fun n => match n with
              | Dir m k => Dir (mkMeta (m_clsid m) bits (m_ctime m) (m_mtime m)) k
              | Leaf _ bs => Leaf bits bs end) tt HT HU Hlk HK) as (n & G & HT' & HU').
  - set_field_solve.
  - intros e [st bs|m ks] _ Hok; cbn [en_ok renode is_leaf] in *.
    + split; [reflexivity|]. intros _. tauto.
    + destruct Hok as [_ <-]. split; [reflexivity|discriminate].
  - eexists. split; [|split; eassumption].
    cbn [spec_step]. unfold with_names. rewrite En, G. reflexivity.
Qed.

Theorem set_clsid_refines : forall p g now s s' t,
  TreeRep (dirs s) c t -> Unshared (dirs s) t ->
  api_set_clsid p g s = (s', Ok tt) ->
  exists t', spec_step t now (SSetClsid p g) = (t', Ok SVUnit) /\
    TreeRep (dirs s') c' t' /\ Unshared (dirs s') t'.
Proof.
  intros p g now s s' t HT HU H. unfold api_set_clsid in H.
  destruct (names_lookup_inv _ _ _ _ _ _ H) as (names & r & En & Hlk & HK).
  destruct r as [id|]; [|discriminate HK].
  binv HK e s1 H1 H2. apply dir_entry_inv in H1. destruct H1 as [-> He].
  destruct (objtype_eqb (d_type e) TStream) eqn:Ty; [discriminate H2|].
  destruct (set_names_refines s s' t names id _
    (fun n => match n with
              | Dir m k => Dir (mkMeta g (m_state m) (m_ctime m) (m_mtime m)) k
              | x => x end) tt HT HU Hlk H2) as (n & G & HT' & HU').
  - set_field_solve.
  - intros e0 [st bs|m ks] He0 Hok; cbn [en_ok renode is_leaf] in *.
    + assert (e0 = e) by congruence. subst e0. destruct Hok as [Ht _]. rewrite Ht in Ty. discriminate Ty.
    + destruct Hok as [_ <-]. split; [reflexivity|discriminate].
  - assert (exists m ks, n = Dir m ks) as (m & ks & ->).
    { pose proof (lookup_get _ _ _ _ _ HT Hlk) as Hg. rewrite G in Hg. destruct Hg as (nm & HN).
      destruct n as [st bs|m ks]; [|eauto].
      apply NodeRep_leaf in HN. destruct HN as (_ & e0 & He0 & _ & _ & Ht & _).
      assert (e0 = e) by congruence. subst e0. rewrite Ht in Ty. discriminate Ty. }
    eexists. split; [|split; eassumption].
    cbn [spec_step]. unfold with_names. rewrite En, G. reflexivity.
Qed.

Theorem set_created_refines : forall p before secs nanos now s s' t,
  TreeRep (dirs s) c t -> Unshared (dirs s) t ->
  api_set_created p before secs nanos s = (s', Ok tt) ->
  exists t', spec_step t now (SSetCreated p before secs nanos) = (t', Ok SVUnit) /\
    TreeRep (dirs s') c' t' /\ Unshared (dirs s') t'.
Proof.
  intros p before secs nanos now s s' t HT HU H. unfold api_set_created, set_entry_with_path in H.
  destruct (names_lookup_inv _ _ _ _ _ _ H) as (names & r & En & Hlk & HK).
  destruct r as [id|]; [|discriminate HK].
  destruct (set_names_refines s s' t names id _
    (fun n => match n with
              | Dir m k => Dir (mkMeta (m_clsid m) (m_state m) (from_system_time before secs nanos) (m_mtime m)) k
              | x => x end) tt HT HU Hlk HK) as (n & G & HT' & HU').
  - set_field_solve.
  - intros e [st bs|m ks] _ Hok; cbn [en_ok renode is_leaf] in *.
    + destruct Hok as (Ht & Hs & H1 & H2 & H3). rewrite Ht. cbn [objtype_eqb].
      split; [congruence|]. intros _. tauto.
    + destruct Hok as [Ht <-]. split; [|discriminate].
      destruct (d_type e); try congruence; reflexivity.
  - eexists. split; [|split; eassumption].
    cbn [spec_step]. unfold with_names. rewrite En, G. reflexivity.
Qed.

Theorem set_modified_refines : forall p before secs nanos now s s' t,
  TreeRep (dirs s) c t -> Unshared (dirs s) t ->
  api_set_modified p before secs nanos s = (s', Ok tt) ->
  exists t', spec_step t now (SSetModified p before secs nanos) = (t', Ok SVUnit) /\
    TreeRep (dirs s') c' t' /\ Unshared (dirs s') t'.
Proof.
  intros p before secs nanos now s s' t HT HU H. unfold api_set_modified, set_entry_with_path in H.
  destruct (names_lookup_inv _ _ _ _ _ _ H) as (names & r & En & Hlk & HK).
  destruct r as [id|]; [|discriminate HK].
  destruct (set_names_refines s s' t names id _
    (fun n => match n with
              | Dir m k => Dir (mkMeta (m_clsid m) (m_state m) (m_ctime m) (from_system_time before secs nanos)) k
              | x => x end) tt HT HU Hlk HK) as (n & G & HT' & HU').
  - set_field_solve.
  - intros e [st bs|m ks] _ Hok; cbn [en_ok renode is_leaf] in *.
    + destruct Hok as (Ht & Hs & H1 & H2 & H3). rewrite Ht. cbn [objtype_eqb].
      split; [congruence|]. intros _. tauto.
    + destruct Hok as [Ht <-]. split; [|discriminate].
      destruct (d_type e); try congruence; reflexivity.
  - eexists. split; [|split; eassumption].
    cbn [spec_step]. unfold with_names. rewrite En, G. reflexivity.
Qed.

End SetMeta.

(* ================================================================== *)
(* U1 / U2. insertion of a new entry                                   *)
(* ================================================================== *)
Lemma ids_bst_insert : forall ds nm id t, bst ds t -> bst_find ds nm t = None ->
  exists l1 l2, ids t = l1 ++ l2 /\ ids (bst_insert ds nm id t) = l1 ++ id :: l2 /\
    (forall j, In j l1 -> cmp_names nm (nm_of ds j) = Gt) /\
    (forall j, In j l2 -> cmp_names nm (nm_of ds j) = Lt).
Proof.
  induction t as [|l IHl i r IHr]; intros B HF.
  - exists [], []. cbn. repeat split; try reflexivity; intros j [].
  - destruct B as (Bl & Br & Lo & Hi). cbn [bst_find bst_insert] in *.
    destruct (cmp_names nm (nm_of ds i)) eqn:C; [discriminate HF| |].
    + destruct (IHl Bl HF) as (a & b & E1 & E2 & G1 & G2).
      exists a, (b ++ i :: ids r). cbn [ids]. rewrite E1, E2, <- !app_assoc. cbn [app].
      split; [reflexivity|]. split; [reflexivity|]. split; [exact G1|].
      intros j Hj. apply in_app_or in Hj. destruct Hj as [Hj|[<-|Hj]]; [auto|exact C|].
      eapply cmp_names_trans_lt; [exact C|]. apply TreeProofs.cmp_gt_lt. apply Hi. exact Hj.
    + destruct (IHr Br HF) as (a & b & E1 & E2 & G1 & G2).
      exists (ids l ++ i :: a), b. cbn [ids]. rewrite E1, E2, <- !app_assoc. cbn [app].
      split; [reflexivity|]. split; [reflexivity|]. split; [|exact G2].
      intros j Hj. apply in_app_or in Hj. destruct Hj as [Hj|[<-|Hj]]; [|exact C|auto].
      eapply cmp_names_trans_gt; [exact C|]. apply cmp_lt_gt. apply Lo. exact Hj.
Qed.

Lemma ins_point_in : forall ds nm t prev ord, bst_find ds nm t = None -> t <> BL ->
  In (fst (ins_point ds nm t prev ord)) (ids t).
Proof.
  induction t as [|l IHl i r IHr]; intros prev ord HF Hne; [congruence|].
  cbn [bst_find ins_point] in *. rewrite in_node.
  destruct (cmp_names nm (nm_of ds i)); [discriminate HF| |].
  - destruct (btree_case l) as [->|Hl]; [right; left; reflexivity|left; apply IHl; assumption].
  - destruct (btree_case r) as [->|Hr]; [right; left; reflexivity|right; right; apply IHr; assumption].
Qed.

Lemma names_forall : forall A B (f : A -> name) (g : B -> name) (P : name -> Prop) l ks,
  map f l = map g ks -> (forall j, In j l -> P (f j)) -> Forall (fun kc => P (g kc)) ks.
Proof.
  induction l as [|a l IH]; intros ks E H; destruct ks as [|k ks]; try discriminate E; constructor.
  - cbn [map] in E. injection E as E1 E2. rewrite <- E1. apply H. left. reflexivity.
  - cbn [map] in E. injection E as E1 E2. apply IH; [exact E2|]. intros j Hj. apply H. right. exact Hj.
Qed.

Lemma insert_keeps_parent : forall pid nm ty now s s' id p,
  insert_dir_entry pid nm ty now s = (s', Ok id) ->
  nthN (dirs s) pid = Some p -> d_child p = NO_STREAM -> id <> pid ->
  keeps (dirs s) (dirs s') pid.
Proof.
  intros pid nm ty now s s' id p H Hp Hc Hne.
  destruct (insert_proj _ _ _ _ _ _ _ H) as (ds0 & p1 & prev & ord & Hal & Hid0 & Hrest).
  cbv zeta in Hrest. destruct Hrest as (Hp1 & Hd & Hds).
  assert (pid < lenN (dirs s)) as Hlt by (eapply nthN_Some_lt; eauto).
  assert (p1 = p).
  { rewrite nthN_updN_other in Hp1 by congruence. rewrite (alloc_old _ _ _ Hal pid Hlt) in Hp1. congruence. }
  subst p1. rewrite Hc in Hd. cbn [insert_descend] in Hd. rewrite N.eqb_refl in Hd.
  injection Hd as <- <-. unfold tbl_link in Hds. rewrite Hp1 in Hds.
  intros e He. assert (e = p) by congruence. subst e. exists (set_child p id).
  rewrite Hds. split; [apply nthN_updN_same; eapply nthN_Some_lt; exact Hp1|]. split; reflexivity.
Qed.

Lemma insert_target : forall (c c' : N -> list byte -> Prop) s s' r pid pnm m ks Ut nm ty now id newnode,
  NRU (dirs s) c r pid pnm (Dir m ks) Ut -> NoDup Ut ->
  insert_dir_entry pid nm ty now s = (s', Ok id) ->
  find_kid nm ks = None ->
  ~ In id Ut -> id <> NO_STREAM ->
  (forall i bs, In i Ut -> c i bs -> c' i bs) ->
  (nthN (dirs s') id = Some (dirent_new nm ty (if objtype_eqb ty TStorage then now else 0)) ->
   NRU (dirs s') c' false id nm newnode [id]) ->
  exists Ut', NRU (dirs s') c' r pid pnm (Dir m (insert_kid nm newnode ks)) Ut' /\ NoDup Ut' /\
    (forall i, In i Ut' -> In i Ut \/ i = id) /\ keeps (dirs s) (dirs s') pid /\
    (forall i, i <> id -> ~ In i Ut -> i < lenN (dirs s) -> nthN (dirs s') i = nthN (dirs s) i) /\
    nthN (dirs s') id = Some (dirent_new nm ty (if objtype_eqb ty TStorage then now else 0)).
Proof.
  intros c c' s s' r pid pnm m ks Ut nm ty now id newnode H ND Hins Fk Hfresh Hidne C Hnewrep.
  pose proof H as H0. apply NRU_dir in H.
  destruct H as (Hid & p & Hp & Hn & Ht & Hm & Hl & t & Us & HR & HB & NDt & HK & ->).
  apply NoDup_cons_iff in ND. destruct ND as [Hpn NDc].
  assert (forall j, In j (ids t) -> In j (concat Us)) as Heads by (eapply F3_heads; eauto).
  assert (bst_find (dirs s) nm t = None) as HF.
  { pose proof (find_bridge (dirs s) c nm t ks HB (F3_KidsRep _ _ _ _ _ HK)) as Br. rewrite Fk in Br.
    destruct (bst_find (dirs s) nm t); [contradiction|reflexivity]. }
  assert (~ In id (ids t)) as Hidt by (intros Hc; apply Hfresh; right; apply Heads; exact Hc).
  assert (id <> pid) as Hidp by (intros ->; apply Hfresh; left; reflexivity).
  destruct (insert_rep _ _ _ _ _ _ _ p t Hins Hp HR HB NDt HF Hidt Hidp Hidne)
    as (p' & Hp' & Pp & HR' & HB' & ND' & _ & Hnew & Hst & Hex).
  destruct (ids_bst_insert (dirs s) nm id t HB HF) as (l1 & l2 & El & El' & G1 & G2).
  assert (forall i, i <> id -> ~ In i (ids t) -> i <> pid -> i < lenN (dirs s) ->
            nthN (dirs s') i = nthN (dirs s) i) as Hex'.
  { intros i Hi Hit Hip Hlt. apply Hex; [exact Hi| |exact Hlt].
    destruct (btree_case t) as [->|Hne]; [cbn [ins_point fst]; exact Hip|].
    intros ->. apply Hit. apply ins_point_in; assumption. }
  assert (forall j, In j (concat Us) -> j < lenN (dirs s)) as Hbound.
  { intros j Hj. destruct (NRU_typed _ _ _ _ _ _ _ H0 j (or_intror Hj)) as (e & He & _).
    eapply nthN_Some_lt; eauto. }
  assert (Forall3 (KidU (dirs s') c') (ids t) ks Us) as HK'.
  { eapply F3_transfer; [exact HK|exact NDc| | |].
    - intros i e Hi He.
      assert (i <> id) as Hiid by (intros ->; contradiction).
      destruct (Hst i e Hiid He) as (e' & He' & P & _ & Ch). exists e'. split; [exact He'|].
      split; [exact P|]. apply Ch. intros ->. apply Hpn. apply Heads. exact Hi.
    - intros i Hi Hn'. apply Hex'; [|exact Hn'| |apply Hbound; exact Hi].
      + intros ->. apply Hfresh. right. exact Hi.
      + intros ->. contradiction.
    - intros j b Hj. apply C. right. exact Hj. }
  rewrite El in HK'.
  destruct (F3_app_inv_l _ _ _ _ _ _ _ _ HK') as (ks1 & ks2 & Us1 & Us2 & -> & -> & HK1 & HK2).
  assert (forall j, In j (ids t) -> nm_of (dirs s') j = nm_of (dirs s) j) as NM.
  { intros j Hj. destruct (rep_ids _ _ _ HR j Hj) as [_ Hlt].
    destruct (nthN_lt_Some _ _ _ Hlt) as [e He].
    assert (j <> id) as Hjid by (intros ->; contradiction).
    destruct (Hst j e Hjid He) as (e' & He' & P & _). unfold nm_of. rewrite He, He'. apply P. }
  assert (Forall (fun kc => cmp_names nm (fst kc) = Gt) ks1) as F1.
  { eapply (names_forall _ _ (nm_of (dirs s')) fst (fun k => cmp_names nm k = Gt));
      [eapply F3_names; exact HK1|].
    intros j Hj. rewrite NM by (rewrite El; apply in_or_app; left; exact Hj). apply G1. exact Hj. }
  assert (Forall (fun kc => cmp_names nm (fst kc) = Lt) ks2) as F2.
  { eapply (names_forall _ _ (nm_of (dirs s')) fst (fun k => cmp_names nm k = Lt));
      [eapply F3_names; exact HK2|].
    intros j Hj. rewrite NM by (rewrite El; apply in_or_app; right; exact Hj). apply G2. exact Hj. }
  rewrite (insert_kid_split nm newnode ks1 ks2 F1 F2).
  rewrite concat_app in Hpn, NDc, Hfresh.
  exists (pid :: concat (Us1 ++ [id] :: Us2)). split; [|split; [|split; [|split; [|split; [|exact Hnew]]]]].
  - apply NRU_dir. split; [exact Hid|]. exists p'. split; [exact Hp'|].
    destruct Pp as (Pn & Pt & Pst & Pl & Pc & Ps & Pct & Pmt).
    split; [congruence|]. split; [congruence|].
    split; [rewrite <- Hm; unfold meta_of; congruence|].
    split; [intros Hr; rewrite Pl; auto|].
    exists (bst_insert (dirs s) nm id t), (Us1 ++ [id] :: Us2).
    split; [exact HR'|]. split; [exact HB'|]. split; [exact ND'|]. split; [|reflexivity].
    rewrite El'. apply F3_app; [exact HK1|]. constructor; [|exact HK2].
    unfold KidU. cbn [fst snd]. apply Hnewrep. exact Hnew.
  - rewrite concat_app3.
    change (NoDup ((pid :: concat Us1) ++ [id] ++ concat Us2)).
    apply (nodup_replace (pid :: concat Us1) [] (concat Us2) [id]).
    + cbn [app]. constructor; assumption.
    + constructor; [intros []|constructor].
    + intros i [<-|[]]. right. cbn [app]. exact Hfresh.
  - rewrite concat_app3, concat_app. intros i [<-|Hi]; [left; left; reflexivity|].
    apply in_app_or in Hi. destruct Hi as [Hi|[<-|Hi]]; [|right; reflexivity|].
    + left. right. apply in_or_app. left. exact Hi.
    + left. right. apply in_or_app. right. exact Hi.
  - destruct (btree_case t) as [->|Hne].
    + eapply insert_keeps_parent; [exact Hins|exact Hp| |exact Hidp].
      cbn [Rep] in HR. exact HR.
    + apply keeps_eq. apply Hex; [exact (not_eq_sym Hidp)| |eapply nthN_Some_lt; exact Hp].
      intros Hc. apply Hpn. rewrite <- concat_app. apply Heads. rewrite Hc. apply ins_point_in; assumption.
  - intros i Hi Hn' Hlt. apply Hex'; [exact Hi| | |exact Hlt].
    + intros Hc. apply Hn'. right. apply Heads. exact Hc.
    + intros ->. apply Hn'. left. reflexivity.
Qed.

Lemma new_storage_NRU : forall ds' (c' : N -> list byte -> Prop) id nm now,
  nthN ds' id = Some (dirent_new nm TStorage now) -> id < NO_STREAM ->
  NRU ds' c' false id nm (new_dir now) [id].
Proof.
  intros ds' c' id nm now H Hid. unfold new_dir. apply NRU_dir. split; [exact Hid|].
  exists (dirent_new nm TStorage now). split; [exact H|].
  split; [reflexivity|]. split; [reflexivity|]. split; [reflexivity|]. split; [reflexivity|].
  exists BL, []. split; [reflexivity|]. split; [exact I|]. split; [constructor|].
  split; [constructor|reflexivity].
Qed.

Lemma new_stream_NRU : forall ds' (c' : N -> list byte -> Prop) id nm,
  nthN ds' id = Some (dirent_new nm TStream 0) -> id < NO_STREAM -> c' id [] ->
  NRU ds' c' false id nm (Leaf 0 []) [id].
Proof.
  intros ds' c' id nm H Hid Hc. apply NRU_leaf. split; [exact Hid|].
  exists (dirent_new nm TStream 0). split; [exact H|].
  repeat (split; [reflexivity|]). split; [exact Hc|]. repeat (split; [reflexivity|]). reflexivity.
Qed.

Definition ins_fun' (nm : name) (newnode : node) : node -> node :=
  fun p => match p with Dir m kids => Dir m (insert_kid nm newnode kids) | x => x end.

Lemma create_names_refines : forall (c c' : N -> list byte -> Prop) s s' t names nm pid pe ty now id newnode,
  TreeRep (dirs s) c t -> Unshared (dirs s) t -> lenN (dirs s) < NO_STREAM ->
  (forall i bs, i <> id -> c i bs -> c' i bs) ->
  lookup_chain (dirs s) names ROOT_STREAM_ID = Ok None ->
  lastN names = Some nm ->
  lookup_chain (dirs s) (pop_last names) ROOT_STREAM_ID = Ok (Some pid) ->
  nthN (dirs s) pid = Some pe -> d_type pe <> TStream ->
  insert_dir_entry pid nm ty now s = (s', Ok id) ->
  (forall ds', nthN ds' id = Some (dirent_new nm ty (if objtype_eqb ty TStorage then now else 0)) ->
     id < NO_STREAM -> NRU ds' c' false id nm newnode [id]) ->
  Tree.get t names = None /\
  exists m ks, Tree.get t (parent_of names) = Some (Dir m ks) /\
    find_kid nm ks = None /\
    nthN (dirs s') id = Some (dirent_new nm ty (if objtype_eqb ty TStorage then now else 0)) /\
    TreeRep (dirs s') c' (update t (parent_of names) (ins_fun' nm newnode)) /\
    Unshared (dirs s') (update t (parent_of names) (ins_fun' nm newnode)).
Proof.
  intros c c' s s' t names nm pid pe ty now id newnode HT HU Hlen C Hlk Hlast Hlkp Hpe Hty Hins Hnewrep.
  destruct (tree_NRU _ _ _ HT HU) as (U & HN & ND).
  pose proof (lookup_get _ _ _ _ _ HT Hlk) as Hg.
  destruct (Tree.get t names) as [n0|] eqn:G0; [contradiction|]. clear Hg.
  split; [reflexivity|].
  pose proof (lookup_get _ _ _ _ _ HT Hlkp) as Hg. unfold parent_of.
  destruct (Tree.get t (pop_last names)) as [n|] eqn:G; [|contradiction].
  destruct Hg as (nm' & HNp).
  assert (exists m ks, n = Dir m ks) as (m & ks & ->).
  { destruct n as [st bs|m ks]; [|eauto].
    apply NodeRep_leaf in HNp. destruct HNp as (_ & e0 & He0 & _ & _ & Ht & _).
    assert (e0 = pe) by congruence. subst e0. contradiction. }
  exists m, ks. split; [reflexivity|].
  destruct (path_focus _ _ (pop_last names) t true ROOT_STREAM_ID ROOT_DIR_NAME U _ HN ND G)
    as (tid & tnm & Ut & Hlk' & HTg & Hincl & NDUt & _ & Hcont).
  assert (tid = pid) by congruence. subst tid.
  assert (find_kid nm ks = None) as Fk by (eapply get_last_none; eauto).
  (* the new slot is outside the tree *)
  assert (~ In id U /\ id < NO_STREAM) as [Hfresh Hidlt].
  { destruct (insert_proj _ _ _ _ _ _ _ Hins) as (ds0 & p1 & prev & ord & Hal & _).
    destruct (alloc_fresh _ _ _ Hal) as [(e & He & Te)|Hid].
    - split; [|apply nthN_Some_lt in He; lia].
      intros Hc. destruct (NRU_typed _ _ _ _ _ _ _ HN id Hc) as (e' & He' & Te'). congruence.
    - split; [|lia]. intros Hc. destruct (NRU_typed _ _ _ _ _ _ _ HN id Hc) as (e' & He' & _).
      apply nthN_Some_lt in He'. lia. }
  destruct (insert_target c c' s s' _ pid tnm m ks Ut nm ty now id newnode HTg NDUt Hins Fk)
    as (Ut' & HTg' & NDUt' & Hin' & Hkeep & Hexo & Hnew).
  { intros Hc. apply Hfresh. apply Hincl. exact Hc. }
  { lia. }
  { intros i b Hi. apply C. intros ->. apply Hfresh. apply Hincl. exact Hi. }
  { intros Hnew. apply Hnewrep; assumption. }
  destruct (Hcont (dirs s') c' _ Ut' HTg' Hkeep) as (U' & HN' & ND' & _).
  - intros i Hi Hn. apply Hexo; [intros ->; contradiction|exact Hn|].
    destruct (NRU_typed _ _ _ _ _ _ _ HN i Hi) as (e' & He' & _). eapply nthN_Some_lt; eauto.
  - intros i b Hi _. apply C. intros ->. contradiction.
  - exact NDUt'.
  - intros i Hi. destruct (Hin' i Hi) as [Hc| ->]; [left; exact Hc|right; exact Hfresh].
  - split; [exact Fk|]. split; [exact Hnew|].
    rewrite (update_const (pop_last names) t (ins_fun' nm newnode) (Dir m ks) G). cbn [ins_fun'].
    apply (NRU_tree _ _ _ U'); assumption.
Qed.

Theorem create_storage_refines : forall (c c' : N -> list byte -> Prop) p now s s' t,
  TreeRep (dirs s) c t -> Unshared (dirs s) t -> lenN (dirs s) < NO_STREAM ->
  (forall i bs, c i bs -> c' i bs) ->
  api_create_storage p now s = (s', Ok tt) ->
  exists t', spec_step t now (SCreateStorage p) = (t', Ok SVUnit) /\
    TreeRep (dirs s') c' t' /\ Unshared (dirs s') t'.
Proof.
  intros c c' p now s s' t HT HU Hlen C H. unfold api_create_storage, create_storage_names in H.
  destruct (names_lookup_inv _ _ _ _ _ _ H) as (names & r & En & Hlk & HK).
  destruct r as [id0|].
  { binv HK e0 s1 H1 H2. discriminate H2. }
  destruct (lastN names) as [nm|] eqn:Hlast; [|discriminate HK].
  binv HK u1 s1 H1 H2. apply lift_inv in H1. destruct H1 as [-> Hv].
  destruct (lookup_inv _ _ _ _ _ _ H2) as (pr & Hlkp & H3). clear H2.
  destruct pr as [pid|]; [|discriminate H3].
  binv H3 pe s1 H1 H2. apply dir_entry_inv in H1. destruct H1 as [-> Hpe].
  destruct (objtype_eqb (d_type pe) TStream) eqn:Ty; [discriminate H2|].
  binv H2 nid s1 H1 H2. apply ret_inv in H2. destruct H2 as [-> _].
  destruct (create_names_refines c c' s s1 t names nm pid pe TStorage now nid (new_dir now)
              HT HU Hlen (fun i b _ => C i b) Hlk Hlast Hlkp Hpe) as (G0 & m & ks & G & _ & _ & HT' & HU').
  - intros Hc. rewrite Hc in Ty. discriminate Ty.
  - exact H1.
  - intros ds' Hn Hid. apply new_storage_NRU; assumption.
  - eexists. split; [|split; eassumption].
    cbn [spec_step]. unfold with_names, create_storage_at. rewrite En, G0, Hlast, Hv, G. reflexivity.
Qed.

Theorem create_stream_refines : forall (c c' : N -> list byte -> Prop) p overwrite maxbuf now s s' t h,
  TreeRep (dirs s) c t -> Unshared (dirs s) t -> lenN (dirs s) < NO_STREAM ->
  (forall names, name_chain_from_path p = Ok names -> Tree.get t names = None) ->
  (forall i bs, i <> h_id h -> c i bs -> c' i bs) -> c' (h_id h) [] ->
  api_create_stream p overwrite maxbuf now s = (s', Ok h) ->
  exists t', spec_step t now (SCreateStream p overwrite) = (t', Ok SVUnit) /\
    TreeRep (dirs s') c' t' /\ Unshared (dirs s') t' /\
    exists names, name_chain_from_path p = Ok names /\
      Tree.get t' names = Some (Leaf 0 []) /\
      h = mkHandle (h_id h) 0 (buf_new maxbuf) 0 false.
Proof.
  intros c c' p overwrite maxbuf now s s' t h HT HU Hlen Hnew C C0 H. unfold api_create_stream in H.
  destruct (names_lookup_inv _ _ _ _ _ _ H) as (names & r & En & Hlk & HK).
  specialize (Hnew names En).
  destruct r as [id0|].
  { pose proof (lookup_get _ _ _ _ _ HT Hlk) as Hg. rewrite Hnew in Hg. contradiction. }
  destruct (lastN names) as [nm|] eqn:Hlast; [|discriminate HK].
  binv HK u1 s1 H1 H2. apply lift_inv in H1. destruct H1 as [-> Hv].
  destruct (lookup_inv _ _ _ _ _ _ H2) as (pr & Hlkp & H3). clear H2.
  destruct pr as [pid|]; [|discriminate H3].
  binv H3 pe s1 H1 H2. apply dir_entry_inv in H1. destruct H1 as [-> Hpe].
  destruct (objtype_eqb (d_type pe) TStream) eqn:Ty; [discriminate H2|].
  binv H2 nid s1 H1 H2.
  (* the handle *)
  unfold handle_new', handle_new, stream_len_of in H2. rewrite q_bind_eq, q_dir_entry_run in H2.
  destruct (dir_entry_of (dirs s1) nid) as [e| | |] eqn:Hd; try discriminate H2.
  cbn [ret] in H2. injection H2 as <- <-. cbn [h_id] in C, C0.
  destruct (create_names_refines c c' s s1 t names nm pid pe TStream now nid (Leaf 0 [])
              HT HU Hlen C Hlk Hlast Hlkp Hpe) as (G0 & m & ks & G & Fk & Hnewe & HT' & HU').
  - intros Hc. rewrite Hc in Ty. discriminate Ty.
  - exact H1.
  - intros ds' Hn Hid. apply new_stream_NRU; assumption.
  - eexists. split; [|split; [exact HT'|split; [exact HU'|]]].
    + cbn [spec_step]. unfold with_names. rewrite En, G0, Hlast, Hv, G. reflexivity.
    + exists names. split; [exact En|]. split.
      * rewrite (lastN_some _ _ _ Hlast) at 2. unfold parent_of.
        rewrite (get_update_ext (pop_last names) t (Dir m ks) _ (pop_last names) [nm] G
                   (chain_equiv_refl _)).
        cbn [ins_fun' Tree.get]. rewrite (find_insert_gen nm (Leaf 0 []) nm ks Fk), cmp_names_refl.
        reflexivity.
      * cbn [h_id]. f_equal. unfold dir_entry_of in Hd. rewrite Hnewe in Hd. injection Hd as <-.
        reflexivity.
Qed.

(* ================================================================== *)
(* U3 / U4. removal of an entry without children                       *)
(* ================================================================== *)
Lemma remove_tbl_keeps : forall ds parent sibo x e pp pred j,
  j <> x -> ~ In j (splice_touched ds x e pp pred) -> (forall sib, sibo = Some sib -> j <> sib) ->
  keeps ds (remove_tbl ds parent sibo x e pp pred) j.
Proof.
  intros ds parent sibo x e pp pred j Hjx Hnt Hsib. unfold remove_tbl.
  pose proof (splice_untouched ds x e pp pred j Hnt) as P.
  destruct (splice_tbl ds x e pp pred) as [ds1 repl]. cbn [fst] in P.
  intros ej Hej. rewrite nthN_updN_other by congruence. unfold relink. destruct sibo as [sib|].
  - rewrite nthN_modN_other by (intros Hc; apply (Hsib sib eq_refl); congruence).
    rewrite P. exists ej. auto.
  - rewrite nthN_modN. destruct (parent =? j).
    + rewrite P, Hej. cbn [option_map]. exists (set_child ej repl). auto.
    + rewrite P. exists ej. auto.
Qed.

Lemma lookup_chain_app : forall ds a b id,
  lookup_chain ds (a ++ b) id =
  rbind (lookup_chain ds a id) (fun r => match r with None => Ok None | Some i => lookup_chain ds b i end).
Proof.
  induction a as [|x a IH]; intros b id; cbn [app lookup_chain]; [reflexivity|].
  destruct (dir_entry_of ds id) as [e| | |]; cbn [rbind]; try reflexivity.
  destruct (find_in_siblings (S (length ds)) ds x (d_child e)) as [r| | |]; cbn [rbind]; try reflexivity.
  destruct r as [cid|]; [apply IH|reflexivity].
Qed.

Lemma NRU_single : forall ds (c : N -> list byte -> Prop) r i k cn u,
  NRU ds c r i k cn u ->
  (exists st bs, cn = Leaf st bs) \/ (exists m', cn = Dir m' []) -> u = [i].
Proof.
  intros ds c r i k cn u H [(st & bs & ->)|(m' & ->)].
  - apply NRU_leaf in H. destruct H as (_ & e & H). intuition.
  - apply NRU_dir in H. destruct H as (_ & e & _ & _ & _ & _ & _ & t & Us & _ & _ & _ & HK & ->).
    inversion HK. reflexivity.
Qed.

Lemma remove_target : forall (c c' : N -> list byte -> Prop) s s' r pid pnm m ks Ut nm k cn u0 x,
  NRU (dirs s) c r pid pnm (Dir m ks) Ut -> NoDup Ut ->
  remove_dir_entry pid nm s = (s', Ok u0) ->
  find_kid nm ks = Some (k, cn) ->
  (exists st bs, cn = Leaf st bs) \/ (exists m', cn = Dir m' []) ->
  lookup_chain (dirs s) [nm] pid = Ok (Some x) ->
  (forall i bs, In i Ut -> i <> x -> c i bs -> c' i bs) ->
  exists Ut', NRU (dirs s') c' r pid pnm (Dir m (remove_kid nm ks)) Ut' /\ NoDup Ut' /\
    incl Ut' Ut /\ keeps (dirs s) (dirs s') pid /\
    (forall i, ~ In i Ut -> nthN (dirs s') i = nthN (dirs s) i).
Proof.
  intros c c' s s' r pid pnm m ks Ut nm k cn u0 x H ND Hrem Fk Hcn Hx C.
  apply NRU_dir in H.
  destruct H as (Hid & p & Hp & Hn & Ht & Hm & Hl & t & Us & HR & HB & NDt & HK & ->).
  apply NoDup_cons_iff in ND. destruct ND as [Hpn NDc].
  assert (forall j, In j (ids t) -> In j (concat Us)) as Heads by (eapply F3_heads; eauto).
  destruct (find_kid_split _ _ _ _ Fk) as (ks1 & ks2 & -> & Fk1 & Eak).
  destruct (F3_app_inv_m _ _ _ _ _ _ _ _ HK) as (l1 & l2' & Us1 & Us2' & El & -> & HK1 & HK2).
  inversion HK2 as [|i kc u l2 ks2' Us2 Hi HK2' E1 E2 E3]; subst l2' Us2' kc ks2'. clear HK2.
  unfold KidU in Hi. cbn [fst snd] in Hi.
  assert (u = [i]) by (eapply NRU_single; eauto). subst u.
  assert (In i (ids t)) as Hit by (rewrite El; apply in_or_app; right; left; reflexivity).
  assert (nm_of (dirs s) i = k) as Hnmi by (apply (KidRep_nm (dirs s) c i (k, cn)); exact (proj1 Hi)).
  assert (bst_find (dirs s) nm t = Some i) as HF.
  { apply bst_find_iff; [exact HB|]. split; [exact Hit|]. rewrite Hnmi. exact Eak. }
  assert (x = i).
  { cbn [lookup_chain] in Hx. unfold dir_entry_of in Hx. rewrite Hp in Hx. cbn [rbind] in Hx.
    rewrite (find_in_siblings_total _ nm t (d_child p) HR NDt), HF in Hx. cbn [rbind] in Hx. congruence. }
  subst x.
  destruct (remove_rep _ _ _ _ _ p t i Hrem Hp HR HB NDt HF)
    as (p' & Hp' & Pp & HR' & HB' & ND' & Hids & _ & _).
  destruct (remove_ids_stable _ _ _ _ _ p t i Hrem Hp HR NDt HF) as [ST EX].
  destruct (remove_core _ _ _ _ _ p t i Hrem Hp HR NDt HF)
    as (e & pp & pred & l & rr & He & Hc & Hxp & HKids & KR & KND & KI & Hds & Hfp & Hroot & _).
  assert (~ In pid (ids t)) as Hpt by (intros Hc'; apply Hpn; apply Heads; exact Hc').
  assert (forall j, ~ In j (ids t) -> j <> pid -> nthN (dirs s') j = nthN (dirs s) j) as Hex.
  { intros j Hjt Hjp. apply (EX j l rr HKids).
    - intros ->. contradiction.
    - destruct (lastN (anc (dirs s) nm t)) as [sib|] eqn:Ea; [|exact Hjp].
      intros ->. apply Hjt. eapply anc_in. eapply lastN_in. exact Ea.
    - intros Hc'. apply Hjt. apply KI. apply in_node. apply in_app_or in Hc'. tauto. }
  rewrite concat_app3 in Hpn, NDc.
  assert (NoDup (concat Us1 ++ concat Us2)) as NDc'.
  { apply (nodup_replace (concat Us1) [i] (concat Us2) []); [exact NDc|constructor|intros j []]. }
  assert (~ In i (concat Us1 ++ concat Us2)) as Hi12.
  { intros Hc'. apply nodup_app_iff in NDc. destruct NDc as (_ & N2 & D).
    apply in_app_or in Hc'. destruct Hc' as [Hc'|Hc'].
    - apply (D i Hc'). left. reflexivity.
    - cbn [app] in N2. apply NoDup_cons_iff in N2. tauto. }
  rewrite El in NDt. rewrite (remove_kid_split nm ks1 k cn ks2 Fk1 Eak).
  rewrite El, (remove_mid i l1 l2 NDt) in Hids.
  assert (Forall3 (KidU (dirs s') c') (l1 ++ l2) (ks1 ++ ks2) (Us1 ++ Us2)) as HK'.
  { eapply F3_transfer; [apply F3_app; eassumption|rewrite concat_app; exact NDc'| | |].
    - intros j ej Hj Hej.
      assert (In j (ids t)) as Hjt.
      { rewrite El. apply in_app_or in Hj. apply in_or_app. destruct Hj; [left|right; right]; assumption. }
      assert (j <> i) as Hji.
      { intros ->. apply Hi12. rewrite <- concat_app. eapply F3_heads; [apply F3_app; eassumption|exact Hj]. }
      destruct (ST j ej Hji Hej) as (e' & He' & P & Ch). exists e'. split; [exact He'|].
      split; [exact P|]. apply Ch. left. intros ->. contradiction.
    - intros j Hj Hn'. rewrite concat_app in Hj. apply Hex.
      + rewrite El. intros Hc'. apply in_app_or in Hc'. destruct Hc' as [Hc'|[<-|Hc']].
        * apply Hn'. apply in_or_app. left. exact Hc'.
        * contradiction.
        * apply Hn'. apply in_or_app. right. exact Hc'.
      + intros ->. apply Hpn. apply in_app_or in Hj. apply in_or_app.
        destruct Hj; [left|right; right]; assumption.
    - intros j b Hj. rewrite concat_app in Hj. apply C.
      + right. rewrite concat_app3. apply in_app_or in Hj. apply in_or_app.
        destruct Hj; [left|right; right]; assumption.
      + intros ->. contradiction. }
  exists (pid :: concat (Us1 ++ Us2)). split; [|split; [|split; [|split]]].
  - apply NRU_dir. split; [exact Hid|]. exists p'. split; [exact Hp'|].
    destruct Pp as (Pn & Pt & Pst & Pl & Pc & Ps & Pct & Pmt).
    split; [congruence|]. split; [congruence|].
    split; [rewrite <- Hm; unfold meta_of; congruence|].
    split; [intros Hr; rewrite Pl; auto|].
    exists (bst_remove i t), (Us1 ++ Us2).
    split; [exact HR'|]. split; [exact HB'|]. split; [exact ND'|]. split; [|reflexivity].
    rewrite Hids. exact HK'.
  - rewrite concat_app. constructor; [|exact NDc'].
    intros Hc'. apply Hpn. apply in_app_or in Hc'. apply in_or_app. destruct Hc'; [left|right; right]; assumption.
  - rewrite concat_app, concat_app3. intros j [<-|Hj]; [left; reflexivity|]. right.
    apply in_app_or in Hj. apply in_or_app. destruct Hj; [left|right; right]; assumption.
  - rewrite Hds. apply remove_tbl_keeps.
    + congruence.
    + intros Hc'. apply Hpt. apply KI. apply in_node.
      destruct KR as (_ & _ & e0 & He0 & HLl & HRr). assert (e0 = e) by congruence. subst e0.
      assert (In pid (ids l ++ ids rr)) as Hin.
      { eapply splice_touched_in; [exact He|exact HLl|exact HRr| |exact Hc'].
        intros A B. eexists. apply Hfp; assumption. }
      apply in_app_or in Hin. tauto.
    + intros sib Ea ->. apply Hpt. eapply anc_in. eapply lastN_in. exact Ea.
  - intros j Hj. apply Hex.
    + intros Hc'. apply Hj. right. apply Heads. exact Hc'.
    + intros ->. apply Hj. left. reflexivity.
Qed.

Lemma remove_names_refines : forall (c c' : N -> list byte -> Prop) s s' t names id nm pid n u0,
  TreeRep (dirs s) c t -> Unshared (dirs s) t ->
  (forall i bs, i <> id -> c i bs -> c' i bs) ->
  lookup_chain (dirs s) names ROOT_STREAM_ID = Ok (Some id) ->
  lastN names = Some nm ->
  lookup_chain (dirs s) (pop_last names) ROOT_STREAM_ID = Ok (Some pid) ->
  remove_dir_entry pid nm s = (s', Ok u0) ->
  Tree.get t names = Some n ->
  (exists st bs, n = Leaf st bs) \/ (exists m', n = Dir m' []) ->
  TreeRep (dirs s') c' (remove_at t names) /\ Unshared (dirs s') (remove_at t names).
Proof.
  intros c c' s s' t names id nm pid n u0 HT HU C Hlk Hlast Hlkp Hrem G Hn.
  destruct (tree_NRU _ _ _ HT HU) as (U & HN & ND).
  destruct (get_last_some t names nm n G Hlast) as (m & ks & k & Gp & Fk). unfold parent_of in Gp.
  destruct (path_focus _ _ (pop_last names) t true ROOT_STREAM_ID ROOT_DIR_NAME U _ HN ND Gp)
    as (tid & tnm & Ut & Hlk' & HTg & Hincl & NDUt & _ & Hcont).
  assert (tid = pid) by congruence. subst tid.
  assert (lookup_chain (dirs s) [nm] pid = Ok (Some id)) as Hx.
  { rewrite (lastN_some _ _ _ Hlast), lookup_chain_app, Hlkp in Hlk. exact Hlk. }
  destruct (remove_target c c' s s' _ pid tnm m ks Ut nm k n u0 id HTg NDUt Hrem Fk Hn Hx)
    as (Ut' & HTg' & NDUt' & Hin' & Hkeep & Hexo).
  { intros i b _. apply C. }
  destruct (Hcont (dirs s') c' _ Ut' HTg' Hkeep) as (U' & HN' & ND' & _).
  - intros i _ Hn'. apply Hexo. exact Hn'.
  - intros i b Hi Hn'. apply C. intros ->. apply Hn'.
    (* the removed entry belongs to the parent's subtree *)
    clear - HTg Hx Fk.
    apply NRU_dir in HTg.
    destruct HTg as (_ & p & Hp & _ & _ & _ & _ & t0 & Us & HR & HB & NDt & HK & ->).
    cbn [lookup_chain] in Hx. unfold dir_entry_of in Hx. rewrite Hp in Hx. cbn [rbind] in Hx.
    rewrite (find_in_siblings_total _ nm t0 (d_child p) HR NDt) in Hx. cbn [rbind] in Hx.
    destruct (bst_find (dirs s) nm t0) as [y|] eqn:E; [|discriminate Hx]. injection Hx as ->.
    apply bst_find_sound in E. right. eapply F3_heads; [exact HK|]. tauto.
  - exact NDUt'.
  - intros i Hi. left. apply Hin'. exact Hi.
  - unfold remove_at. rewrite Hlast. unfold parent_of.
    rewrite (update_const (pop_last names) t _ (Dir m ks) Gp).
    apply (NRU_tree _ _ _ U'); assumption.
Qed.

Theorem remove_storage_refines : forall (c c' : N -> list byte -> Prop) p now s s' t,
  TreeRep (dirs s) c t -> Unshared (dirs s) t ->
  (forall i bs, c i bs -> c' i bs) ->
  api_remove_storage p s = (s', Ok tt) ->
  exists t', spec_step t now (SRemoveStorage p) = (t', Ok SVUnit) /\
    TreeRep (dirs s') c' t' /\ Unshared (dirs s') t'.
Proof.
  intros c c' p now s s' t HT HU C H. unfold api_remove_storage, remove_storage_names in H.
  destruct (names_lookup_inv _ _ _ _ _ _ H) as (names & r & En & Hlk & HK).
  destruct r as [id0|]; [|discriminate HK].
  binv HK e s1 H1 H2. apply dir_entry_inv in H1. destruct H1 as [-> He].
  destruct (objtype_eqb (d_type e) TRoot) eqn:T1; [discriminate H2|].
  destruct (objtype_eqb (d_type e) TStream) eqn:T2; [discriminate H2|].
  destruct (objtype_eqb (d_type e) TStorage) eqn:T3; cbn [negb] in H2; [|discriminate H2].
  destruct (d_child e =? NO_STREAM) eqn:Ch; cbn [negb] in H2; [|discriminate H2].
  apply N.eqb_eq in Ch.
  destruct (lastN names) as [nm|] eqn:Hlast; [|discriminate H2].
  destruct (lookup_inv _ _ _ _ _ _ H2) as (pr & Hlkp & H3). clear H2.
  destruct pr as [pid|]; [|discriminate H3].
  pose proof (lookup_get _ _ _ _ _ HT Hlk) as Hg.
  destruct (Tree.get t names) as [n|] eqn:G; [|contradiction]. destruct Hg as (nm' & HNn).
  assert (exists m', n = Dir m' []) as (m' & ->).
  { destruct n as [st bs|m' ks'].
    - apply NodeRep_leaf in HNn. destruct HNn as (_ & e0 & He0 & _ & _ & Ht & _).
      assert (e0 = e) by congruence. subst e0. rewrite Ht in T2. discriminate T2.
    - apply NodeRep_dir in HNn. destruct HNn as (_ & e0 & He0 & _ & _ & _ & _ & t0 & HR & _ & _ & HKr).
      assert (e0 = e) by congruence. subst e0. rewrite Ch in HR. apply rep_nostream in HR. subst t0.
      inversion HKr. eauto. }
  destruct (remove_names_refines c c' s s' t names id0 nm pid _ tt HT HU (fun i b _ => C i b)
              Hlk Hlast Hlkp H3 G) as [HT' HU']; [right; eauto|].
  eexists. split; [|split; eassumption].
  cbn [spec_step]. unfold with_names. rewrite En, G.
  destruct names as [|a rest]; [discriminate Hlast|reflexivity].
Qed.

(* ================================================================== *)
(* U4. stream removal: the chain is freed first                        *)
(* ================================================================== *)
(* the only thing freeing a chain does to the directory table: the recorded
   start / length of the root entry (the mini stream) *)
Definition RootLen (ds ds' : list dirent) : Prop :=
  lenN ds' = lenN ds /\
  (forall i, i <> ROOT_STREAM_ID -> nthN ds' i = nthN ds i) /\
  (forall e, nthN ds ROOT_STREAM_ID = Some e ->
     exists st ln, nthN ds' ROOT_STREAM_ID = Some (set_start_len e st ln)).

Lemma RootLen_refl : forall ds, RootLen ds ds.
Proof.
  intros ds. split; [reflexivity|]. split; [reflexivity|].
  intros e He. exists (d_start e), (d_len e). rewrite He. destruct e; reflexivity.
Qed.

Lemma RootLen_trans : forall a b c, RootLen a b -> RootLen b c -> RootLen a c.
Proof.
  intros a b c (L1 & O1 & R1) (L2 & O2 & R2). split; [congruence|]. split.
  - intros i Hi. rewrite O2, O1 by exact Hi. reflexivity.
  - intros e He. destruct (R1 e He) as (st & ln & He1). destruct (R2 _ He1) as (st2 & ln2 & He2).
    exists st2, ln2. rewrite He2. reflexivity.
Qed.

Lemma RootLen_eq : forall ds ds', ds' = ds -> RootLen ds ds'.
Proof. intros ds ds' ->. apply RootLen_refl. Qed.

Lemma RootLen_modN : forall ds (g1 g2 : dirent -> N),
  RootLen ds (modN ds ROOT_STREAM_ID (fun e => set_start_len e (g1 e) (g2 e))).
Proof.
  intros ds g1 g2. split; [apply lenN_modN|]. split.
  - intros i Hi. apply nthN_modN_other. congruence.
  - intros e He. exists (g1 e), (g2 e).
    exact (nthN_modN_same ds ROOT_STREAM_ID (fun e => set_start_len e (g1 e) (g2 e)) e He).
Qed.

Lemma frames_set_minifat : forall i v, frames (set_minifat i v).
Proof. unfold set_minifat. fr. Qed.
Lemma frames_next_mini : forall ms, frames (next_mini ms).
Proof. unfold next_mini. fr. Qed.
Lemma frames_free_sector : forall sid, frames (free_sector sid).
Proof. unfold free_sector. fr. Qed.
Lemma frames_free_chain_go : forall fuel sid, frames (free_chain_go fuel sid).
Proof.
  induction fuel as [|f IH]; intros sid; cbn [free_chain_go]; [apply frames_oof|].
  destruct (sid =? END_OF_CHAIN); [apply frames_ret|].
  apply frames_bind; [apply frames_next|intros nx].
  apply frames_bind; [apply frames_free_sector|intros _]. apply IH.
Qed.
Lemma frames_free_chain : forall start, frames (free_chain start).
Proof. unfold free_chain. fr. apply frames_free_chain_go. Qed.

Lemma free_mini_sector_rootlen : forall ms s s' u,
  free_mini_sector ms s = (s', Ok u) -> RootLen (dirs s) (dirs s').
Proof.
  intros ms s s' u H. unfold free_mini_sector in H.
  binv H s0 s1 H1 H2. apply get_inv in H1. destruct H1 as [-> ->].
  destruct (nthN (minifat s) ms) as [v|]; [|discriminate H2].
  destruct (v =? FREE_SECTOR); [discriminate H2|].
  binv H2 u1 s1 H1 H2. apply (frames_run _ _ _ _ _ (frames_set_minifat _ _)) in H1.
  binv H2 u2 s2 H2 H3. unfold modify in H2. injection H2 as <-.
  binv H3 r s3 H3 H4. unfold root_entry in H3. apply dir_entry_inv in H3. destruct H3 as [-> Hr].
  binv H4 u3 s3 H4 H5.
  assert (dirs s3 = dirs s) as E3.
  { destruct (negb (d_len r mod MINI_SECTOR_LEN =? 0)); [discriminate H4|].
    apply ret_inv in H4. destruct H4 as [-> _]. cbn [dirs w_mfree]. exact H1. }
  binv H5 s0 s4 H5 H6. apply get_inv in H5. destruct H5 as [-> ->].
  destruct (strip_free (minifat s3) 0) as [mf' k].
  rename H6 into H7.
  cbv zeta in H7. binv H7 u5 s5 H7 H8. unfold put in H7. injection H7 as <-.
  match type of H8 with (if ?b then _ else _) _ = _ => destruct b end.
  - destruct (wdem_inv _ _ _ _ _ H8) as (e & He & Hds). rewrite Hds. cbn [dirs w_mfree w_minifat].
    rewrite E3. apply (RootLen_modN (dirs s) (fun e => d_start e) (fun _ => d_len r - k * MINI_SECTOR_LEN)).
  - apply ret_inv in H8. destruct H8 as [-> _]. cbn [dirs w_mfree w_minifat]. apply RootLen_eq. exact E3.
Qed.

Lemma free_mini_chain_go_rootlen : forall fuel ms s s' u,
  free_mini_chain_go fuel ms s = (s', Ok u) -> RootLen (dirs s) (dirs s').
Proof.
  induction fuel as [|f IH]; intros ms s s' u H; cbn [free_mini_chain_go] in H; [discriminate H|].
  destruct (ms =? END_OF_CHAIN).
  - apply ret_inv in H. destruct H as [-> _]. apply RootLen_refl.
  - binv H nx s1 H1 H2. apply (frames_run _ _ _ _ _ (frames_next_mini _)) in H1.
    binv H2 u1 s2 H2 H3. apply free_mini_sector_rootlen in H2. apply IH in H3.
    rewrite H1 in H2. eapply RootLen_trans; eassumption.
Qed.

Lemma free_mini_chain_rootlen : forall start s s' u,
  free_mini_chain start s = (s', Ok u) -> RootLen (dirs s) (dirs s').
Proof.
  intros start s s' u H. unfold free_mini_chain in H.
  binv H s0 s1 H1 H2. apply get_inv in H1. destruct H1 as [-> ->].
  eapply free_mini_chain_go_rootlen. exact H2.
Qed.

(* the lookup only reads names and links *)
Lemma rootlen_find : forall ds ds', RootLen ds ds' ->
  forall fuel nm id, find_in_siblings fuel ds' nm id = find_in_siblings fuel ds nm id.
Proof.
  intros ds ds' (L & O & R). induction fuel as [|f IH]; intros nm id; cbn [find_in_siblings]; [reflexivity|].
  destruct (id =? NO_STREAM); [reflexivity|]. unfold dir_entry_of.
  destruct (N.eq_dec id ROOT_STREAM_ID) as [->|Hne].
  - destruct (nthN ds ROOT_STREAM_ID) as [e|] eqn:He.
    + destruct (R e eq_refl) as (st & ln & ->). cbn [rbind d_name d_left d_right set_start_len].
      destruct (cmp_names nm (d_name e)); [reflexivity|apply IH|apply IH].
    + apply nthN_None_ge in He. destruct (nthN ds' ROOT_STREAM_ID) eqn:He'; [|reflexivity].
      apply nthN_Some_lt in He'. lia.
  - rewrite (O id Hne). destruct (nthN ds id) as [e|]; [|reflexivity]. cbn [rbind].
    destruct (cmp_names nm (d_name e)); [reflexivity|apply IH|apply IH].
Qed.

Lemma rootlen_lookup : forall ds ds', RootLen ds ds' ->
  forall names id, lookup_chain ds' names id = lookup_chain ds names id.
Proof.
  intros ds ds' HRL. pose proof HRL as (L & O & R).
  assert (length ds' = length ds) as Len by (rewrite !lenN_length in L; lia).
  induction names as [|a rest IH]; intros id; cbn [lookup_chain]; [reflexivity|].
  unfold dir_entry_of. rewrite Len.
  destruct (N.eq_dec id ROOT_STREAM_ID) as [->|Hne].
  - destruct (nthN ds ROOT_STREAM_ID) as [e|] eqn:He.
    + destruct (R e eq_refl) as (st & ln & ->). cbn [rbind d_child set_start_len].
      rewrite (rootlen_find ds ds' HRL).
      destruct (find_in_siblings (S (length ds)) ds a (d_child e)) as [r| | |]; cbn [rbind]; try reflexivity.
      destruct r as [cid|]; [apply IH|reflexivity].
    + apply nthN_None_ge in He. destruct (nthN ds' ROOT_STREAM_ID) eqn:He'; [|reflexivity].
      apply nthN_Some_lt in He'. lia.
  - rewrite (O id Hne). destruct (nthN ds id) as [e|]; [|reflexivity]. cbn [rbind].
    rewrite (rootlen_find ds ds' HRL).
    destruct (find_in_siblings (S (length ds)) ds a (d_child e)) as [r| | |]; cbn [rbind]; try reflexivity.
    destruct r as [cid|]; [apply IH|reflexivity].
Qed.

(* the tree does not see the root's recorded length *)
Lemma rootlen_tree : forall (c : N -> list byte -> Prop) ds ds' t,
  RootLen ds ds' -> TreeRep ds c t -> Unshared ds t -> TreeRep ds' c t /\ Unshared ds' t.
Proof.
  intros c ds ds' t (L & O & R) HT HU.
  destruct (tree_NRU _ _ _ HT HU) as (U & HN & ND).
  destruct (NodeRep_entry _ _ _ _ _ _ (proj1 HN)) as (_ & e & He & _).
  destruct (R e He) as (st & ln & He').
  pose proof (NRU_entry_change ds ds' c c t true ROOT_STREAM_ID ROOT_DIR_NAME U e _ HN ND He He') as X.
  assert (renode t (set_start_len e st ln) = t) as Ern.
  { destruct (NodeRep_root_dir _ _ _ _ _ (proj1 HN)) as (m & ks & ->). cbn [renode].
    apply NRU_dir in HN. destruct HN as (_ & e0 & He0 & _ & _ & Hm & _).
    assert (e0 = e) by congruence. subst e0. rewrite <- Hm. reflexivity. }
  rewrite Ern in X. apply (NRU_tree _ _ _ U); [|exact ND]. apply X.
  - intros j _ Hj. apply O. exact Hj.
  - auto.
  - reflexivity.
  - reflexivity.
  - reflexivity.
  - discriminate.
  - destruct (NodeRep_root_dir _ _ _ _ _ (proj1 HN)) as (m & ks & ->). discriminate.
Qed.

(* the entry a path designates *)
Definition id_of_path (s : cstate) (p : list N) : option N :=
  match name_chain_from_path p with
  | Ok names => match lookup_chain (dirs s) names ROOT_STREAM_ID with Ok r => r | _ => None end
  | _ => None
  end.

Theorem remove_stream_refines : forall (c c' : N -> list byte -> Prop) p now s s' t,
  TreeRep (dirs s) c t -> Unshared (dirs s) t ->
  (forall i bs, id_of_path s p <> Some i -> c i bs -> c' i bs) ->
  api_remove_stream p s = (s', Ok tt) ->
  exists t', spec_step t now (SRemoveStream p) = (t', Ok SVUnit) /\
    TreeRep (dirs s') c' t' /\ Unshared (dirs s') t'.
Proof.
  intros c c' p now s s' t HT HU C H. unfold api_remove_stream, remove_stream_names in H.
  destruct (names_lookup_inv _ _ _ _ _ _ H) as (names & r & En & Hlk & HK).
  destruct r as [id0|]; [|discriminate HK].
  assert (id_of_path s p = Some id0) as Hidp by (unfold id_of_path; rewrite En, Hlk; reflexivity).
  rewrite Hidp in C.
  binv HK e s1 H1 H2. apply dir_entry_inv in H1. destruct H1 as [-> He].
  destruct (objtype_eqb (d_type e) TStream) eqn:T2; cbn [negb] in H2; [|discriminate H2].
  destruct (d_child e =? NO_STREAM) eqn:Ch; cbn [negb] in H2; [|discriminate H2].
  binv H2 u1 s1 H1 H2.
  assert (RootLen (dirs s) (dirs s1)) as HRL.
  { destruct (d_len e <? MINI_STREAM_CUTOFF).
    - eapply free_mini_chain_rootlen. exact H1.
    - apply RootLen_eq. eapply frames_run; [apply frames_free_chain|exact H1]. }
  destruct (lastN names) as [nm|] eqn:Hlast; [|discriminate H2].
  destruct (lookup_inv _ _ _ _ _ _ H2) as (pr & Hlkp & H3). clear H2.
  destruct pr as [pid|]; [|discriminate H3].
  pose proof (lookup_get _ _ _ _ _ HT Hlk) as Hg.
  destruct (Tree.get t names) as [n|] eqn:G; [|contradiction]. destruct Hg as (nm' & HNn).
  assert (exists st bs, n = Leaf st bs) as (st & bs & ->).
  { destruct n as [st bs|m' ks']; [eauto|].
    apply NodeRep_dir in HNn. destruct HNn as (_ & e0 & He0 & _ & Ht & _).
    assert (e0 = e) by congruence. subst e0. rewrite Ht in T2. destruct (is_nil names); discriminate T2. }
  destruct (rootlen_tree c _ _ t HRL HT HU) as [HT1 HU1].
  rewrite <- (rootlen_lookup _ _ HRL) in Hlk.
  destruct (remove_names_refines c c' s1 s' t names id0 nm pid (Leaf st bs) tt HT1 HU1) as [HT' HU'];
    try eassumption.
  - intros i b Hi. apply C. congruence.
  - left. eauto.
  - eexists. split; [|split; eassumption].
    cbn [spec_step]. unfold with_names. rewrite En, G. reflexivity.
Qed.

(* ================================================================== *)
(* the same at the level of [step] / [spec_step]                       *)
(* ================================================================== *)
Definition ns_spec (o : op) : option sop :=
  match o with
  | OCreateStorage p => Some (SCreateStorage p)
  | ORemoveStorage p => Some (SRemoveStorage p)
  | ORemoveStream p => Some (SRemoveStream p)
  | OSetClsid p g => Some (SSetClsid p g)
  | OSetState p b => Some (SSetState p b)
  | OSetCreated p b s n => Some (SSetCreated p b s n)
  | OSetModified p b s n => Some (SSetModified p b s n)
  | _ => None
  end.

(* the stream whose bytes are given up by the operation *)
Definition removed_of (f : fstate) (o : op) : option N :=
  match o with ORemoveStream p => id_of_path (cs f) p | _ => None end.

Lemma with_cs_inv : forall A (f f' : fstate) (m : M A) (k : A -> value) v,
  with_cs f m k = (f', Ok v) ->
  exists s' a, m (cs f) = (s', Ok a) /\ f' = mkF s' (hs f) (maxbuf f) /\ v = k a.
Proof.
  intros A f f' m k v H. unfold with_cs in H. destruct (m (cs f)) as [s' r].
  destruct r as [a| | |]; cbn [rmap rbind] in H; try discriminate H.
  injection H as <- <-. eauto.
Qed.

Theorem namespace_step_refines : forall (c c' : N -> list byte -> Prop) f f' t now o so v,
  ns_spec o = Some so ->
  TreeRep (dirs (cs f)) c t -> Unshared (dirs (cs f)) t -> lenN (dirs (cs f)) < NO_STREAM ->
  (forall i bs, removed_of f o <> Some i -> c i bs -> c' i bs) ->
  step f now o = (f', Ok v) ->
  exists t', spec_step t now so = (t', Ok SVUnit) /\
    TreeRep (dirs (cs f')) c' t' /\ Unshared (dirs (cs f')) t' /\
    v = VUnit /\ hs f' = hs f /\ maxbuf f' = maxbuf f.
Proof.
  intros c c' f f' t now o so v Hs HT HU Hlen C H.
  destruct o; cbn [ns_spec] in Hs; try discriminate Hs; injection Hs as <-; cbn [step] in H;
    destruct (with_cs_inv _ _ _ _ _ _ H) as (s' & a & Hm & -> & ->); destruct a; cbn [cs hs maxbuf];
    cbn [removed_of] in C.
  - destruct (create_storage_refines c c' p now _ s' t HT HU Hlen) as (t' & H1 & H2 & H3); [|exact Hm|].
    { intros i b. apply C. discriminate. }
    exists t'. repeat (split; [assumption|]). auto.
  - destruct (remove_storage_refines c c' p now _ s' t HT HU) as (t' & H1 & H2 & H3); [|exact Hm|].
    { intros i b. apply C. discriminate. }
    exists t'. repeat (split; [assumption|]). auto.
  - destruct (remove_stream_refines c c' p now _ s' t HT HU C Hm) as (t' & H1 & H2 & H3).
    exists t'. repeat (split; [assumption|]). auto.
  - assert (forall i b, c i b -> c' i b) as Cst by (intros i b; apply C; discriminate).
    destruct (set_clsid_refines c c' Cst p g now _ s' t HT HU Hm) as (t' & H1 & H2 & H3).
    exists t'. repeat (split; [assumption|]). auto.
  - assert (forall i b, c i b -> c' i b) as Cst by (intros i b; apply C; discriminate).
    destruct (set_state_refines c c' Cst p bits now _ s' t HT HU Hm) as (t' & H1 & H2 & H3).
    exists t'. repeat (split; [assumption|]). auto.
  - assert (forall i b, c i b -> c' i b) as Cst by (intros i b; apply C; discriminate).
    destruct (set_created_refines c c' Cst p before secs nanos now _ s' t HT HU Hm) as (t' & H1 & H2 & H3).
    exists t'. repeat (split; [assumption|]). auto.
  - assert (forall i b, c i b -> c' i b) as Cst by (intros i b; apply C; discriminate).
    destruct (set_modified_refines c c' Cst p before secs nanos now _ s' t HT HU Hm) as (t' & H1 & H2 & H3).
    exists t'. repeat (split; [assumption|]). auto.
Qed.

(* ================================================================== *)
(* Non-vacuity: the state and tree of QueryRefine.Example, one more step *)
(* ================================================================== *)
Module Example.
Import QueryRefine.Example.

(* "/a/c" *)
Definition p_ac : list N := [47; 97; 47; 99].
(* "/a/s" *)
Definition p_as : list N := [47; 97; 47; 115].

Definition mk_run := Eval vm_compute in step fin 2000 (OCreateStorage p_ac).
Definition rm_run := Eval vm_compute in step fin 2000 (ORemoveStream p_as).
Definition st_run := Eval vm_compute in step fin 2000 (OSetState p_as 5).

Example mk_ok : snd mk_run = Ok VUnit. Proof. reflexivity. Qed.
Example rm_ok : snd rm_run = Ok VUnit. Proof. reflexivity. Qed.
Example st_ok : snd st_run = Ok VUnit. Proof. reflexivity. Qed.

Example fin_small : lenN (dirs (cs fin)) < NO_STREAM.
Proof. vm_compute. reflexivity. Qed.

Definition tree_mk : node :=
  Dir (mkMeta 0 0 0 0)
    [([97], Dir (mkMeta 0 0 1000 1000) [([99], Dir (mkMeta 0 0 2000 2000) []);
                                        ([115], Leaf 0 [1; 2; 3; 4; 5])]);
     ([98], Dir (mkMeta 0 0 1000 1000) [])].

Definition tree_rm : node :=
  Dir (mkMeta 0 0 0 0)
    [([97], Dir (mkMeta 0 0 1000 1000) []);
     ([98], Dir (mkMeta 0 0 1000 1000) [])].

Definition tree_st : node :=
  Dir (mkMeta 0 0 0 0)
    [([97], Dir (mkMeta 0 0 1000 1000) [([115], Leaf 5 [1; 2; 3; 4; 5])]);
     ([98], Dir (mkMeta 0 0 1000 1000) [])].

Example spec_mk : spec_step ex_tree 2000 (SCreateStorage p_ac) = (tree_mk, Ok SVUnit).
Proof. vm_compute. reflexivity. Qed.
Example spec_rm : spec_step ex_tree 2000 (SRemoveStream p_as) = (tree_rm, Ok SVUnit).
Proof. vm_compute. reflexivity. Qed.
Example spec_st : spec_step ex_tree 2000 (SSetState p_as 5) = (tree_st, Ok SVUnit).
Proof. vm_compute. reflexivity. Qed.

(* the theorems apply: the table after the model's step represents the tree
   after the specification's step *)
Example ex_create_storage :
  TreeRep (dirs (cs (fst mk_run))) ex_content tree_mk /\ Unshared (dirs (cs (fst mk_run))) tree_mk.
Proof.
  destruct (namespace_step_refines ex_content ex_content fin (fst mk_run) ex_tree 2000
              (OCreateStorage p_ac) _ VUnit eq_refl ex_tree_rep ex_unshared fin_small)
    as (t' & H1 & H2 & H3 & _).
  - intros i bs _ H. exact H.
  - vm_compute. reflexivity.
  - rewrite spec_mk in H1. injection H1 as <-. split; assumption.
Qed.

Example ex_remove_stream :
  TreeRep (dirs (cs (fst rm_run))) ex_content tree_rm /\ Unshared (dirs (cs (fst rm_run))) tree_rm.
Proof.
  destruct (namespace_step_refines ex_content ex_content fin (fst rm_run) ex_tree 2000
              (ORemoveStream p_as) _ VUnit eq_refl ex_tree_rep ex_unshared fin_small)
    as (t' & H1 & H2 & H3 & _).
  - intros i bs _ H. exact H.
  - vm_compute. reflexivity.
  - rewrite spec_rm in H1. injection H1 as <-. split; assumption.
Qed.

Example ex_set_state :
  TreeRep (dirs (cs (fst st_run))) ex_content tree_st /\ Unshared (dirs (cs (fst st_run))) tree_st.
Proof.
  destruct (namespace_step_refines ex_content ex_content fin (fst st_run) ex_tree 2000
              (OSetState p_as 5) _ VUnit eq_refl ex_tree_rep ex_unshared fin_small)
    as (t' & H1 & H2 & H3 & _).
  - intros i bs _ H. exact H.
  - vm_compute. reflexivity.
  - rewrite spec_st in H1. injection H1 as <-. split; assumption.
Qed.

End Example.

(* ================================================================== *)
(* U6. create_stream over an existing stream: truncation               *)
(* ================================================================== *)
(* What h_set_len 0 -> resize does to the table is taken from the chain-level
   proofs as hypotheses: the entry of the stream gets a new start and length 0,
   the root entry may get a new start / length (mini stream), nothing else
   changes; afterwards the stream holds no bytes. *)
Theorem create_stream_overwrite_refines :
  forall (c c' : N -> list byte -> Prop) p maxbuf now s s' t h names id e,
  TreeRep (dirs s) c t -> Unshared (dirs s) t ->
  name_chain_from_path p = Ok names ->
  lookup_chain (dirs s) names ROOT_STREAM_ID = Ok (Some id) ->
  nthN (dirs s) id = Some e -> d_type e = TStream ->
  api_create_stream p true maxbuf now s = (s', Ok h) ->
  lenN (dirs s') = lenN (dirs s) ->
  (forall i, i <> id -> i <> ROOT_STREAM_ID -> nthN (dirs s') i = nthN (dirs s) i) ->
  (forall er, nthN (dirs s) ROOT_STREAM_ID = Some er ->
     exists st ln, nthN (dirs s') ROOT_STREAM_ID = Some (set_start_len er st ln)) ->
  (exists st, nthN (dirs s') id = Some (set_start_len e st 0)) ->
  (forall i bs, i <> id -> c i bs -> c' i bs) -> c' id [] ->
  exists t', spec_step t now (SCreateStream p true) = (t', Ok SVUnit) /\
    TreeRep (dirs s') c' t' /\ Unshared (dirs s') t'.
Proof.
  intros c c' p maxbuf now s s' t h names id e HT HU En Hlk He Hty _ Hlen Hoth Hroot [st' Hid'] C C0.
  pose proof (lookup_get _ _ _ _ _ HT Hlk) as Hg.
  destruct (Tree.get t names) as [n|] eqn:G; [|contradiction]. destruct Hg as (nm' & HNn).
  assert (exists st bs, n = Leaf st bs /\ is_nil names = false) as (st & bs & -> & Hnil).
  { destruct n as [st bs|m' ks'].
    - apply NodeRep_leaf in HNn. destruct HNn as (_ & _ & _ & _ & Hr & _). eauto.
    - apply NodeRep_dir in HNn. destruct HNn as (_ & e0 & He0 & _ & Ht & _).
      assert (e0 = e) by congruence. subst e0. rewrite Hty in Ht. destruct (is_nil names); discriminate Ht. }
  assert (id <> ROOT_STREAM_ID) as Hidr.
  { intros ->. destruct (NodeRep_entry _ _ _ _ _ _ HT) as (_ & er & Her & _ & Hter).
    destruct (NodeRep_root_dir _ _ _ _ _ HT) as (m & ks & ->).
    assert (er = e) by congruence. subst er. rewrite Hty in Hter. discriminate Hter. }
  (* first the root entry, then the stream's entry *)
  set (ds1 := modN (dirs s') id (fun _ => e)).
  assert (RootLen (dirs s) ds1) as HRL.
  { unfold ds1. split; [rewrite lenN_modN; exact Hlen|]. split.
    - intros i Hi. destruct (N.eq_dec i id) as [->|Hne].
      + rewrite (nthN_modN_same _ _ _ _ Hid'). symmetry. exact He.
      + rewrite nthN_modN_other by congruence. apply Hoth; assumption.
    - intros er Her. destruct (Hroot er Her) as (st0 & ln0 & Hr'). exists st0, ln0.
      rewrite nthN_modN_other by exact Hidr. exact Hr'. }
  destruct (rootlen_tree c _ _ t HRL HT HU) as [HT1 HU1].
  rewrite <- (rootlen_lookup _ _ HRL) in Hlk.
  destruct (tree_NRU _ _ _ HT1 HU1) as (U & HN & ND).
  destruct (path_focus _ _ names t true ROOT_STREAM_ID ROOT_DIR_NAME U _ HN ND G)
    as (tid & tnm & Ut & Hlk' & HTg & Hincl & NDUt & _ & Hcont).
  assert (tid = id) by congruence. subst tid.
  assert (nthN ds1 id = Some e) as He1 by (unfold ds1; rewrite (nthN_modN_same _ _ _ _ Hid'); reflexivity).
  assert (forall j, j <> id -> nthN (dirs s') j = nthN ds1 j) as Ao.
  { intros j Hj. unfold ds1. rewrite nthN_modN_other by congruence. reflexivity. }
  pose proof HTg as HTg0. apply NRU_leaf in HTg.
  destruct HTg as (Hidlt & e0 & He0 & Hn & Hr & Ht & Hc & Hs & Hl & Hco & H1 & H2 & H3 & ->).
  assert (e0 = e) by congruence. subst e0.
  assert (NRU (dirs s') c' (true && is_nil names) id tnm (Leaf st []) [id]) as HTg'.
  { apply NRU_leaf. split; [exact Hidlt|]. exists (set_start_len e st' 0). split; [exact Hid'|].
    cbn [d_name d_type d_child d_state d_len d_clsid d_ctime d_mtime set_start_len].
    repeat (split; [assumption|]). split; [reflexivity|]. split; [exact C0|]. auto. }
  destruct (Hcont (dirs s') c' _ [id] HTg') as (U' & HN' & ND' & _).
  - intros e0 He0'. assert (e0 = e) by congruence. subst e0. exists (set_start_len e st' 0). auto.
  - intros j _ Hj. apply Ao. intros ->. apply Hj. left. reflexivity.
  - intros j b _ Hj. apply C. intros ->. apply Hj. left. reflexivity.
  - exact NDUt.
  - intros j Hj. left. exact Hj.
  - exists (update t names (fun _ => Leaf st [])). split; [|apply (NRU_tree _ _ _ U'); assumption].
    cbn [spec_step]. unfold with_names. rewrite En, G. reflexivity.
Qed.

(* ================================================================== *)
(* refusals: where the specification refuses, the model refuses with   *)
(* the same kind and leaves the state alone                            *)
(* ================================================================== *)
Lemma prefix_run : forall A p (K : list name -> option N -> M A) s,
  (do names <- names_of p; do r <- lookup names; K names r) s =
  match name_chain_from_path p with
  | Ok names =>
    match lookup_chain (dirs s) names ROOT_STREAM_ID with
    | Ok r => K names r s
    | Err k => (s, Err k) | Panic n => (s, Panic n) | OutOfFuel => (s, OutOfFuel)
    end
  | Err k => (s, Err k) | Panic n => (s, Panic n) | OutOfFuel => (s, OutOfFuel)
  end.
Proof.
  intros A p K s. rewrite q_bind_eq, q_names_of_run.
  destruct (name_chain_from_path p) as [names| | |]; try reflexivity;
    rewrite q_bind_eq, q_lookup_run; destruct (lookup_chain (dirs s) names ROOT_STREAM_ID); reflexivity.
Qed.

Lemma lookup_run' : forall A names (K : option N -> M A) s,
  (do r <- lookup names; K r) s =
  match lookup_chain (dirs s) names ROOT_STREAM_ID with
  | Ok r => K r s
  | Err k => (s, Err k) | Panic n => (s, Panic n) | OutOfFuel => (s, OutOfFuel)
  end.
Proof.
  intros. rewrite q_bind_eq, q_lookup_run. destruct (lookup_chain (dirs s) names ROOT_STREAM_ID); reflexivity.
Qed.

Lemma dir_entry_run' : forall A id (K : dirent -> M A) s e,
  nthN (dirs s) id = Some e -> (do x <- dir_entry id; K x) s = K e s.
Proof.
  intros A id K s e He. rewrite q_bind_eq, q_dir_entry_run. unfold dir_entry_of. rewrite He. reflexivity.
Qed.

Lemma validate_cases : forall nm,
  (exists u, validate_name nm = Ok u) \/ validate_name nm = Err EInvalidInput.
Proof.
  intros nm. rewrite validate_name_spec.
  destruct ((lenN (utf16 nm) <=? MAX_NAME_LEN) && negb (existsb (fun f => memN f nm) FORBIDDEN_CHARS));
    [left; eauto|right; reflexivity].
Qed.

Section Refusals.
Variable c : N -> list byte -> Prop.
Variable s : cstate.
Variable t : node.
Hypothesis HT : TreeRep (dirs s) c t.
Variable now : N.

(* the lookup of a name chain, on both sides *)
Lemma look : forall names,
  (exists id e n, lookup_chain (dirs s) names ROOT_STREAM_ID = Ok (Some id) /\
     Tree.get t names = Some n /\ nthN (dirs s) id = Some e /\
     exists nm, NodeRep (dirs s) c (is_nil names) id nm n) \/
  (lookup_chain (dirs s) names ROOT_STREAM_ID = Ok None /\ Tree.get t names = None).
Proof.
  intros names. destruct (lookup_refines_get (dirs s) c t HT names) as (res & Hl & Hm). rewrite Hl.
  destruct res as [id|]; destruct (Tree.get t names) as [n|]; try contradiction; [left|right; auto].
  destruct Hm as (nm & HN & _). destruct (NodeRep_entry _ _ _ _ _ _ HN) as (_ & e & He & _).
  exists id, e, n. eauto 8.
Qed.

Lemma leaf_type : forall r id nm st bs e, NodeRep (dirs s) c r id nm (Leaf st bs) ->
  nthN (dirs s) id = Some e -> d_type e = TStream.
Proof.
  intros r id nm st bs e H He. apply NodeRep_leaf in H. destruct H as (_ & e0 & He0 & _ & _ & Ht & _).
  congruence.
Qed.

Lemma dir_type : forall r id nm m ks e, NodeRep (dirs s) c r id nm (Dir m ks) ->
  nthN (dirs s) id = Some e -> d_type e = (if r then TRoot else TStorage).
Proof.
  intros r id nm m ks e H He. apply NodeRep_dir in H. destruct H as (_ & e0 & He0 & _ & Ht & _).
  congruence.
Qed.

Lemma absent_last : forall names, Tree.get t names = None -> exists nm, lastN names = Some nm.
Proof.
  intros [|a l] H; [discriminate H|]. rewrite DirProofs.lastN_cons. destruct (lastN l); eauto.
Qed.

(* the shared tail of create_storage / create_stream on an absent path *)
Lemma create_absent_refusal : forall A names nm (INS : N -> name -> M A) nd k t',
  match validate_name nm with
  | Ok _ =>
    match Tree.get t (parent_of names) with
    | None => (t, Err ENotFound)
    | Some (Leaf _ _) => (t, Err EInvalidInput)
    | Some (Dir _ _) => (nd, Ok SVUnit)
    end
  | _ => (t, Err EInvalidInput)
  end = (t', Err k) ->
  (do _ <- lift (validate_name nm);
   do pr <- lookup (pop_last names);
   match pr with
   | None => fail ENotFound
   | Some pid =>
     do pe <- dir_entry pid;
     if objtype_eqb (d_type pe) TStream then fail EInvalidInput else INS pid nm
   end) s = (s, Err k).
Proof.
  intros A names nm INS nd k t' H.
  rewrite q_bind_eq. unfold lift at 1.
  destruct (validate_cases nm) as [(u & Ev)|Ev]; rewrite Ev in *; cbv beta iota.
  2: { injection H as _ <-. reflexivity. }
  rewrite lookup_run'. unfold parent_of in H.
  destruct (look (pop_last names)) as [(pid & pe & n & Hl & G & Hpe & nm' & HN)|[Hl G]];
    rewrite Hl; rewrite G in H.
  - rewrite (dir_entry_run' _ _ _ _ _ Hpe).
    destruct n as [st bs|m ks]; [|discriminate H].
    rewrite (leaf_type _ _ _ _ _ _ HN Hpe). cbn [objtype_eqb]. unfold fail.
    injection H as _ <-. reflexivity.
  - unfold fail. injection H as _ <-. reflexivity.
Qed.

Theorem create_storage_refusal : forall p k t',
  spec_step t now (SCreateStorage p) = (t', Err k) -> api_create_storage p now s = (s, Err k).
Proof.
  intros p k t' H. cbn [spec_step] in H. unfold with_names in H.
  unfold api_create_storage, create_storage_names. rewrite prefix_run.
  destruct (name_chain_cases p) as [(names & En)|En]; rewrite En in *.
  2: { injection H as _ <-. reflexivity. }
  unfold create_storage_at in H.
  destruct (look names) as [(id & e & n & Hl & G & He & _)|[Hl G]]; rewrite Hl; rewrite G in H.
  - rewrite (dir_entry_run' _ _ _ _ _ He). unfold fail. injection H as _ <-. reflexivity.
  - destruct (absent_last names G) as [nm Hlast]. rewrite Hlast in *.
    eapply (create_absent_refusal unit names nm
              (fun pid nm0 => do _ <- insert_dir_entry pid nm0 TStorage now; ret tt)). exact H.
Qed.

Theorem create_stream_refusal : forall p overwrite mb k t',
  spec_step t now (SCreateStream p overwrite) = (t', Err k) ->
  api_create_stream p overwrite mb now s = (s, Err k).
Proof.
  intros p overwrite mb k t' H. cbn [spec_step] in H. unfold with_names in H.
  unfold api_create_stream. rewrite prefix_run.
  destruct (name_chain_cases p) as [(names & En)|En]; rewrite En in *.
  2: { injection H as _ <-. reflexivity. }
  destruct (look names) as [(id & e & n & Hl & G & He & nm' & HN)|[Hl G]]; rewrite Hl; rewrite G in H.
  - rewrite (dir_entry_run' _ _ _ _ _ He). destruct n as [st bs|m ks].
    + rewrite (leaf_type _ _ _ _ _ _ HN He). cbn [objtype_eqb negb].
      destruct overwrite; [discriminate H|]. cbn [negb]. unfold fail. injection H as _ <-. reflexivity.
    + rewrite (dir_type _ _ _ _ _ _ HN He). unfold fail. injection H as _ <-.
      destruct (is_nil names); reflexivity.
  - destruct (absent_last names G) as [nm Hlast]. rewrite Hlast in *.
    eapply (create_absent_refusal handle names nm
              (fun pid nm0 => do id <- insert_dir_entry pid nm0 TStream now; handle_new' id mb)). exact H.
Qed.

Theorem remove_storage_refusal : forall p k t',
  spec_step t now (SRemoveStorage p) = (t', Err k) -> api_remove_storage p s = (s, Err k).
Proof.
  intros p k t' H. cbn [spec_step] in H. unfold with_names in H.
  unfold api_remove_storage, remove_storage_names. rewrite prefix_run.
  destruct (name_chain_cases p) as [(names & En)|En]; rewrite En in *.
  2: { injection H as _ <-. reflexivity. }
  destruct (look names) as [(id & e & n & Hl & G & He & nm' & HN)|[Hl G]]; rewrite Hl; rewrite G in H.
  2: { unfold fail. injection H as _ <-. reflexivity. }
  rewrite (dir_entry_run' _ _ _ _ _ He). destruct n as [st bs|m ks].
  - rewrite (leaf_type _ _ _ _ _ _ HN He). cbn [objtype_eqb]. unfold fail. injection H as _ <-. reflexivity.
  - rewrite (dir_type _ _ _ _ _ _ HN He).
    destruct names as [|a l]; cbn [is_nil] in *.
    + cbn [objtype_eqb]. unfold fail. injection H as _ <-. reflexivity.
    + cbn [objtype_eqb negb]. destruct ks as [|kc ks]; [discriminate H|].
      apply NodeRep_dir in HN. destruct HN as (_ & e0 & He0 & _ & _ & _ & _ & t0 & HR & _ & _ & HK).
      assert (e0 = e) by congruence. subst e0.
      assert (d_child e <> NO_STREAM) as Hc.
      { destruct t0 as [|l0 i0 r0]; [inversion HK|]. destruct HR as (-> & Hne & _). exact Hne. }
      apply N.eqb_neq in Hc. rewrite Hc. cbn [negb]. unfold fail. injection H as _ <-. reflexivity.
Qed.

Theorem remove_stream_refusal : forall p k t',
  spec_step t now (SRemoveStream p) = (t', Err k) -> api_remove_stream p s = (s, Err k).
Proof.
  intros p k t' H. cbn [spec_step] in H. unfold with_names in H.
  unfold api_remove_stream, remove_stream_names. rewrite prefix_run.
  destruct (name_chain_cases p) as [(names & En)|En]; rewrite En in *.
  2: { injection H as _ <-. reflexivity. }
  destruct (look names) as [(id & e & n & Hl & G & He & nm' & HN)|[Hl G]]; rewrite Hl; rewrite G in H.
  2: { unfold fail. injection H as _ <-. reflexivity. }
  rewrite (dir_entry_run' _ _ _ _ _ He). destruct n as [st bs|m ks]; [discriminate H|].
  rewrite (dir_type _ _ _ _ _ _ HN He). unfold fail. injection H as _ <-.
  destruct (is_nil names); reflexivity.
Qed.

Theorem set_clsid_refusal : forall p g k t',
  spec_step t now (SSetClsid p g) = (t', Err k) -> api_set_clsid p g s = (s, Err k).
Proof.
  intros p g k t' H. cbn [spec_step] in H. unfold with_names in H.
  unfold api_set_clsid. rewrite prefix_run.
  destruct (name_chain_cases p) as [(names & En)|En]; rewrite En in *.
  2: { injection H as _ <-. reflexivity. }
  destruct (look names) as [(id & e & n & Hl & G & He & nm' & HN)|[Hl G]]; rewrite Hl; rewrite G in H.
  2: { unfold fail. injection H as _ <-. reflexivity. }
  rewrite (dir_entry_run' _ _ _ _ _ He). destruct n as [st bs|m ks]; [|discriminate H].
  rewrite (leaf_type _ _ _ _ _ _ HN He). cbn [objtype_eqb]. unfold fail. injection H as _ <-. reflexivity.
Qed.

Lemma set_entry_refusal : forall p f k,
  match name_chain_from_path p with
  | Ok names => match Tree.get t names with None => Some ENotFound | Some _ => None end
  | _ => Some EInvalidInput
  end = Some k ->
  set_entry_with_path p f s = (s, Err k).
Proof.
  intros p f k H. unfold set_entry_with_path. rewrite prefix_run.
  destruct (name_chain_cases p) as [(names & En)|En]; rewrite En in *.
  2: { injection H as <-. reflexivity. }
  destruct (look names) as [(id & e & n & Hl & G & He & nm' & HN)|[Hl G]]; rewrite Hl; rewrite G in H.
  - discriminate H.
  - unfold fail. injection H as <-. reflexivity.
Qed.

Theorem set_state_refusal : forall p bits k t',
  spec_step t now (SSetState p bits) = (t', Err k) -> api_set_state p bits s = (s, Err k).
Proof.
  intros p bits k t' H. cbn [spec_step] in H. unfold with_names in H. apply set_entry_refusal.
  destruct (name_chain_from_path p) as [names| | |]; try (injection H as _ <-; reflexivity).
  destruct (Tree.get t names); [discriminate H|injection H as _ <-; reflexivity].
Qed.

Theorem set_created_refusal : forall p b secs nanos k t',
  spec_step t now (SSetCreated p b secs nanos) = (t', Err k) ->
  api_set_created p b secs nanos s = (s, Err k).
Proof.
  intros p b secs nanos k t' H. cbn [spec_step] in H. unfold with_names in H. apply set_entry_refusal.
  destruct (name_chain_from_path p) as [names| | |]; try (injection H as _ <-; reflexivity).
  destruct (Tree.get t names); [discriminate H|injection H as _ <-; reflexivity].
Qed.

Theorem set_modified_refusal : forall p b secs nanos k t',
  spec_step t now (SSetModified p b secs nanos) = (t', Err k) ->
  api_set_modified p b secs nanos s = (s, Err k).
Proof.
  intros p b secs nanos k t' H. cbn [spec_step] in H. unfold with_names in H. apply set_entry_refusal.
  destruct (name_chain_from_path p) as [names| | |]; try (injection H as _ <-; reflexivity).
  destruct (Tree.get t names); [discriminate H|injection H as _ <-; reflexivity].
Qed.

End Refusals.

(* ================================================================== *)
(* create_stream (new stream) at the level of [step]                   *)
(* ================================================================== *)
(* the slot a creation takes: the first unallocated one, else a new one *)
Definition next_slot (s : cstate) : N := snd (alloc_tbl (dirs s)).

Lemma create_stream_new_id : forall p overwrite mb now s s' h,
  (forall names, name_chain_from_path p = Ok names ->
     lookup_chain (dirs s) names ROOT_STREAM_ID = Ok None) ->
  api_create_stream p overwrite mb now s = (s', Ok h) -> h_id h = next_slot s.
Proof.
  intros p overwrite mb now s s' h Hnew H. unfold api_create_stream in H.
  destruct (names_lookup_inv _ _ _ _ _ _ H) as (names & r & En & Hlk & HK).
  rewrite (Hnew names En) in Hlk. injection Hlk as <-.
  destruct (lastN names) as [nm|]; [|discriminate HK].
  binv HK u1 s1 H1 H2. apply lift_inv in H1. destruct H1 as [-> Hv].
  destruct (lookup_inv _ _ _ _ _ _ H2) as (pr & Hlkp & H3). clear H2.
  destruct pr as [pid|]; [|discriminate H3].
  binv H3 pe s1 H1 H2. apply dir_entry_inv in H1. destruct H1 as [-> Hpe].
  destruct (objtype_eqb (d_type pe) TStream); [discriminate H2|].
  binv H2 nid s1 H1 H2.
  unfold handle_new', handle_new, stream_len_of in H2. rewrite q_bind_eq, q_dir_entry_run in H2.
  destruct (dir_entry_of (dirs s1) nid) as [e| | |]; try discriminate H2.
  cbn [ret] in H2. injection H2 as _ <-. cbn [h_id].
  destruct (insert_proj _ _ _ _ _ _ _ H1) as (ds0 & p1 & prev & ord & Hal & _).
  unfold next_slot. rewrite <- Hal. reflexivity.
Qed.

Theorem create_stream_step_refines :
  forall (c c' : N -> list byte -> Prop) f f' t now i p (fresh_only : bool) v,
  TreeRep (dirs (cs f)) c t -> Unshared (dirs (cs f)) t -> lenN (dirs (cs f)) < NO_STREAM ->
  (forall names, name_chain_from_path p = Ok names -> Tree.get t names = None) ->
  (forall j bs, j <> next_slot (cs f) -> c j bs -> c' j bs) -> c' (next_slot (cs f)) [] ->
  step f now (if fresh_only then OCreateNewStream i p else OCreateStream i p) = (f', Ok v) ->
  exists t' h, spec_step t now (SCreateStream p (negb fresh_only)) = (t', Ok SVUnit) /\
    TreeRep (dirs (cs f')) c' t' /\ Unshared (dirs (cs f')) t' /\
    v = VUnit /\ hs f' = updN (hs f) i (Some h) /\ maxbuf f' = maxbuf f /\
    h = mkHandle (next_slot (cs f)) 0 (buf_new (maxbuf f)) 0 false /\
    exists names, name_chain_from_path p = Ok names /\ Tree.get t' names = Some (Leaf 0 []).
Proof.
  intros c c' f f' t now i p fresh_only v HT HU Hlen Hnew C C0 H.
  assert (exists s' h, api_create_stream p (negb fresh_only) (maxbuf f) now (cs f) = (s', Ok h) /\
            f' = mkF s' (updN (hs f) i (Some h)) (maxbuf f) /\ v = VUnit) as (s' & h & Hm & -> & ->).
  { destruct fresh_only; cbn [step negb] in H; unfold with_new_handle in H; cbn [cs hs maxbuf] in H.
    - destruct (api_create_stream p false (maxbuf f) now (cs f)) as [s' [h| | |]] eqn:E; try discriminate H.
      injection H as <- <-. exists s', h. repeat split. exact E.
    - destruct (api_create_stream p true (maxbuf f) now (cs f)) as [s' [h| | |]] eqn:E; try discriminate H.
      injection H as <- <-. exists s', h. repeat split. exact E. }
  assert (h_id h = next_slot (cs f)) as Hh.
  { eapply create_stream_new_id; [|exact Hm]. intros names En.
    destruct (lookup_refines_get _ _ _ HT names) as (res & Hl & Hmm). rewrite (Hnew names En) in Hmm.
    destruct res; [contradiction|exact Hl]. }
  rewrite <- Hh in C, C0.
  destruct (create_stream_refines c c' p _ _ now _ s' t h HT HU Hlen Hnew C C0 Hm)
    as (t' & H1 & H2 & H3 & names & En & G' & Eh).
  exists t', h. cbn [cs hs maxbuf]. rewrite Hh in Eh. repeat (split; [assumption || reflexivity|]). eauto.
Qed.

Module Example2.
Import QueryRefine.Example.
Import Example.

(* "/b/x" through handle slot 1 *)
Definition p_bx : list N := [47; 98; 47; 120].
Definition ns_run := Eval vm_compute in step fin 2000 (OCreateNewStream 1 p_bx).
Example ns_ok : snd ns_run = Ok VUnit. Proof. reflexivity. Qed.

Definition content2 (id : N) (bs : list byte) : Prop :=
  ex_content id bs \/ (id = next_slot (cs fin) /\ bs = []).

Definition tree_ns : node :=
  Dir (mkMeta 0 0 0 0)
    [([97], Dir (mkMeta 0 0 1000 1000) [([115], Leaf 0 [1; 2; 3; 4; 5])]);
     ([98], Dir (mkMeta 0 0 1000 1000) [([120], Leaf 0 [])])].

Example spec_ns : spec_step ex_tree 2000 (SCreateStream p_bx false) = (tree_ns, Ok SVUnit).
Proof. vm_compute. reflexivity. Qed.

Example ex_create_stream :
  TreeRep (dirs (cs (fst ns_run))) content2 tree_ns /\ Unshared (dirs (cs (fst ns_run))) tree_ns.
Proof.
  destruct (create_stream_step_refines ex_content content2 fin (fst ns_run) ex_tree 2000 1 p_bx true VUnit
              ex_tree_rep ex_unshared fin_small) as (t' & h & H1 & H2 & H3 & _).
  - intros names En. vm_compute in En. injection En as <-. vm_compute. reflexivity.
  - intros j bs _ H. left. exact H.
  - right. split; reflexivity.
  - vm_compute. reflexivity.
  - cbn [negb] in H1. rewrite spec_ns in H1. injection H1 as <-. split; assumption.
Qed.

End Example2.

(* ================================================================== *)
Check set_state_refines.
Check set_clsid_refines.
Check set_created_refines.
Check set_modified_refines.
Check create_storage_refines.
Check create_stream_refines.
Check remove_storage_refines.
Check remove_stream_refines.
Check create_stream_overwrite_refines.
Check namespace_step_refines.
Check create_stream_step_refines.
Check create_storage_refusal.
Check create_stream_refusal.
Check remove_storage_refusal.
Check remove_stream_refusal.
Check set_clsid_refusal.
Check set_state_refusal.
Check set_created_refusal.
Check set_modified_refusal.

Print Assumptions set_state_refines.
Print Assumptions set_clsid_refines.
Print Assumptions set_created_refines.
Print Assumptions set_modified_refines.
Print Assumptions create_storage_refines.
Print Assumptions create_stream_refines.
Print Assumptions remove_storage_refines.
Print Assumptions remove_stream_refines.
Print Assumptions create_stream_overwrite_refines.
Print Assumptions namespace_step_refines.
Print Assumptions create_stream_step_refines.
Print Assumptions create_storage_refusal.
Print Assumptions create_stream_refusal.
Print Assumptions remove_storage_refusal.
Print Assumptions remove_stream_refusal.
Print Assumptions set_clsid_refusal.
Print Assumptions set_state_refusal.
Print Assumptions set_created_refusal.
Print Assumptions set_modified_refusal.
Print Assumptions Example.ex_create_storage.
Print Assumptions Example.ex_remove_stream.
Print Assumptions Example.ex_set_state.
Print Assumptions Example2.ex_create_stream.
