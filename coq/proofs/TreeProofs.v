(* TreeProofs.v — theorems about spec/Tree.v, the abstract tree of storages:
   the children lists (sorted by the CFB name order, unique up to equivalence),
   addressing by name chains, and the invariants of every operation.
   cmp_names is used only through the total-preorder lemmas of NamesProofs.v.
   No axioms, no admits. *)
From Coq Require Import List NArith Lia Bool Permutation Sorted.
From Cfb.model Require Import Base Names Time.
From Cfb.gen Require Import Consts.
From Cfb.spec Require Import Tree.
From Cfb.proofs Require Import NamesProofs.
Import ListNotations.
Open Scope N_scope.

Local Opaque cmp_names.

(* ------------------------------------------------------------------ *)
(* The order, as an abstract total preorder                            *)
(* ------------------------------------------------------------------ *)

Definition name_equiv (a b : name) : Prop := cmp_names a b = Eq.

Lemma cmp_eq_sym : forall a b, cmp_names a b = Eq -> cmp_names b a = Eq.
Proof. intros a b H. rewrite cmp_names_antisym, H. reflexivity. Qed.

Lemma cmp_lt_gt : forall a b, cmp_names a b = Lt -> cmp_names b a = Gt.
Proof. intros a b H. rewrite cmp_names_antisym, H. reflexivity. Qed.

Lemma cmp_gt_lt : forall a b, cmp_names a b = Gt -> cmp_names b a = Lt.
Proof. intros a b H. rewrite cmp_names_antisym, H. reflexivity. Qed.

Lemma cmp_neq_sym : forall a b, cmp_names a b <> Eq -> cmp_names b a <> Eq.
Proof. intros a b H C. apply H, cmp_eq_sym, C. Qed.

Lemma cmp_lt_eq_trans :
  forall a b c, cmp_names a b = Lt -> cmp_names b c = Eq -> cmp_names a c = Lt.
Proof. intros a b c H1 H2. rewrite <- (cmp_names_eq_compat_r b c a H2). exact H1. Qed.

Lemma cmp_eq_lt_trans :
  forall a b c, cmp_names a b = Eq -> cmp_names b c = Lt -> cmp_names a c = Lt.
Proof. intros a b c H1 H2. rewrite (cmp_names_eq_compat_l a b c H1). exact H2. Qed.

Lemma cmp_lt_irrefl : forall a b, cmp_names a b = Lt -> cmp_names b a = Lt -> False.
Proof. intros a b H1 H2. rewrite (cmp_lt_gt a b H1) in H2. discriminate. Qed.

(* two names equivalent to a common third are equivalent *)
Lemma cmp_eq_join_l :
  forall a b c, cmp_names a b = Eq -> cmp_names a c = Eq -> cmp_names b c = Eq.
Proof. intros a b c H1 H2. rewrite <- (cmp_names_eq_compat_l a b c H1). exact H2. Qed.

Lemma cmp_eq_join_r :
  forall a b c, cmp_names a c = Eq -> cmp_names b c = Eq -> cmp_names a b = Eq.
Proof.
  intros a b c H1 H2. rewrite (cmp_names_eq_compat_l a c b H1). apply cmp_eq_sym, H2.
Qed.

(* ------------------------------------------------------------------ *)
(* Sorted children lists                                                *)
(* ------------------------------------------------------------------ *)

Definition lt_all (k : name) (kids : list (name * node)) : Prop :=
  Forall (fun y => cmp_names k (fst y) = Lt) kids.

(* strictly increasing keys; strictness excludes equivalent siblings *)
Fixpoint sorted_kids (kids : list (name * node)) : Prop :=
  match kids with
  | [] => True
  | (k, _) :: t => lt_all k t /\ sorted_kids t
  end.

Definition name_lt (a b : name) : Prop := cmp_names a b = Lt.

Lemma sorted_kids_StronglySorted :
  forall kids, sorted_kids kids <-> StronglySorted name_lt (map fst kids).
Proof.
  induction kids as [|[k x] t IH]; simpl.
  - split; intro; [constructor | exact I].
  - split.
    + intros [Hlt Hs]. constructor; [apply IH, Hs|].
      unfold lt_all in Hlt. rewrite Forall_forall in *. intros y Hy.
      apply in_map_iff in Hy. destruct Hy as [[k' x'] [<- Hin]].
      apply (Hlt _ Hin).
    + intro H. inversion H as [|a l Hs Hall]; subst. split; [|apply IH, Hs].
      unfold lt_all. rewrite Forall_forall in *. intros [k' x'] Hin.
      apply Hall. apply in_map_iff. exists (k', x'). split; [reflexivity|exact Hin].
Qed.

(* strictness implies pairwise non-equivalence of distinct positions *)
Lemma sorted_kids_nonequiv :
  forall k x t y, sorted_kids ((k, x) :: t) -> In y t -> cmp_names k (fst y) <> Eq.
Proof.
  intros k x t y [Hlt _] Hin C. unfold lt_all in Hlt. rewrite Forall_forall in Hlt.
  rewrite (Hlt y Hin) in C. discriminate.
Qed.

Lemma lt_all_trans :
  forall a b kids, cmp_names a b = Lt \/ cmp_names a b = Eq -> lt_all b kids -> lt_all a kids.
Proof.
  intros a b kids Hab H. unfold lt_all in *. rewrite Forall_forall in *. intros y Hy.
  destruct Hab as [Hab|Hab].
  - eapply cmp_names_trans_lt; [exact Hab | apply H, Hy].
  - eapply cmp_eq_lt_trans; [exact Hab | apply H, Hy].
Qed.

Lemma lt_all_find_none : forall nm kids, lt_all nm kids -> find_kid nm kids = None.
Proof.
  induction kids as [|[k x] t IH]; intro H; simpl; [reflexivity|].
  inversion H as [|a l Hk Ht]; subst. simpl in Hk. rewrite Hk. apply IH, Ht.
Qed.

(* Forall is preserved by the three list operations *)
Lemma Forall_insert_kid :
  forall (P : name * node -> Prop) nm n kids,
    P (nm, n) -> Forall P kids -> Forall P (insert_kid nm n kids).
Proof.
  induction kids as [|[k x] t IH]; intros Hn H; simpl.
  - constructor; [exact Hn|constructor].
  - inversion H as [|a l Hk Ht]; subst.
    destruct (cmp_names nm k); try (constructor; [exact Hk | apply IH; assumption]).
    constructor; [exact Hn | exact H].
Qed.

Lemma Forall_remove_kid :
  forall (P : name * node -> Prop) nm kids, Forall P kids -> Forall P (remove_kid nm kids).
Proof.
  induction kids as [|[k x] t IH]; intros H; simpl; [constructor|].
  inversion H as [|a l Hk Ht]; subst.
  destruct (cmp_names nm k); try (constructor; [exact Hk | apply IH; assumption]).
  exact Ht.
Qed.

Lemma Forall_replace_kid :
  forall (P : name * node -> Prop) nm n kids,
    (forall k x, In (k, x) kids -> cmp_names nm k = Eq -> P (k, n)) ->
    Forall P kids -> Forall P (replace_kid nm n kids).
Proof.
  induction kids as [|[k x] t IH]; intros Hn H; simpl; [constructor|].
  inversion H as [|a l Hk Ht]; subst.
  destruct (cmp_names nm k) eqn:E.
  - constructor; [|exact Ht]. apply (Hn k x); [left; reflexivity | exact E].
  - constructor; [exact Hk|]. apply IH; [|exact Ht].
    intros k' x' Hin. apply (Hn k' x'). right. exact Hin.
  - constructor; [exact Hk|]. apply IH; [|exact Ht].
    intros k' x' Hin. apply (Hn k' x'). right. exact Hin.
Qed.

Lemma replace_kid_keys : forall nm n kids, map fst (replace_kid nm n kids) = map fst kids.
Proof.
  induction kids as [|[k x] t IH]; simpl; [reflexivity|].
  destruct (cmp_names nm k); simpl; try rewrite IH; reflexivity.
Qed.

(* ---- lookups ---- *)

Theorem find_kid_equiv :
  forall a b kids, cmp_names a b = Eq -> find_kid a kids = find_kid b kids.
Proof.
  intros a b kids H. induction kids as [|[k x] t IH]; simpl; [reflexivity|].
  rewrite (cmp_names_eq_compat_l a b k H), IH. reflexivity.
Qed.

Corollary find_kid_case_insensitive :
  forall a kids, find_kid (map upper a) kids = find_kid a kids.
Proof. intros a kids. apply find_kid_equiv, cmp_names_case_insensitive. Qed.

Theorem find_kid_stored :
  forall nm kids k n, find_kid nm kids = Some (k, n) -> In (k, n) kids /\ cmp_names nm k = Eq.
Proof.
  induction kids as [|[k0 x0] t IH]; intros k n H; simpl in H; [discriminate|].
  destruct (cmp_names nm k0) eqn:E.
  - injection H as <- <-. split; [left; reflexivity | exact E].
  - destruct (IH _ _ H) as [Hin He]. split; [right; exact Hin | exact He].
  - destruct (IH _ _ H) as [Hin He]. split; [right; exact Hin | exact He].
Qed.

Lemma find_kid_none_iff :
  forall nm kids, find_kid nm kids = None <-> forall y, In y kids -> cmp_names nm (fst y) <> Eq.
Proof.
  induction kids as [|[k x] t IH]; simpl.
  - split; [intros _ y []|reflexivity].
  - destruct (cmp_names nm k) eqn:E.
    + split; [discriminate|]. intro H. exfalso. apply (H (k, x)); [left; reflexivity | exact E].
    + rewrite IH. split.
      * intros H y [<-|Hy]; [simpl; rewrite E; discriminate | apply H, Hy].
      * intros H y Hy. apply H. right. exact Hy.
    + rewrite IH. split.
      * intros H y [<-|Hy]; [simpl; rewrite E; discriminate | apply H, Hy].
      * intros H y Hy. apply H. right. exact Hy.
Qed.

(* in a sorted list every entry is found, under any equivalent spelling *)
Lemma find_kid_sorted_in :
  forall nm kids k x,
    sorted_kids kids -> In (k, x) kids -> cmp_names nm k = Eq -> find_kid nm kids = Some (k, x).
Proof.
  induction kids as [|[k0 x0] t IH]; intros k x Hs Hin He; [destruct Hin|].
  destruct Hs as [Hlt Hs]. simpl. destruct Hin as [Heq|Hin].
  - injection Heq as -> ->. rewrite He. reflexivity.
  - assert (Hk : cmp_names k0 k = Lt).
    { unfold lt_all in Hlt. rewrite Forall_forall in Hlt. apply (Hlt _ Hin). }
    assert (Hgt : cmp_names nm k0 = Gt).
    { apply cmp_lt_gt. eapply cmp_lt_eq_trans; [exact Hk | apply cmp_eq_sym, He]. }
    rewrite Hgt. apply IH; assumption.
Qed.

(* ---- insertion ---- *)

Lemma find_insert_gen :
  forall nm n nm' kids,
    find_kid nm kids = None ->
    find_kid nm' (insert_kid nm n kids) =
    match cmp_names nm' nm with Eq => Some (nm, n) | _ => find_kid nm' kids end.
Proof.
  intros nm n nm'. induction kids as [|[k x] t IH]; intro Hnone; simpl.
  - destruct (cmp_names nm' nm); reflexivity.
  - simpl in Hnone. destruct (cmp_names nm k) eqn:Enk.
    + discriminate.
    + simpl. destruct (cmp_names nm' nm); reflexivity.
    + simpl. rewrite (IH Hnone).
      destruct (cmp_names nm' k) eqn:E1, (cmp_names nm' nm) eqn:E2; try reflexivity.
      exfalso. rewrite (cmp_eq_join_l nm' nm k E2 E1) in Enk. discriminate.
Qed.

Theorem find_insert_same :
  forall nm n nm' kids,
    sorted_kids kids -> find_kid nm kids = None ->
    find_kid nm' (insert_kid nm n kids) =
    match cmp_names nm' nm with Eq => Some (nm, n) | _ => find_kid nm' kids end.
Proof. intros nm n nm' kids _. apply find_insert_gen. Qed.

Theorem insert_sorted :
  forall nm n kids,
    sorted_kids kids -> find_kid nm kids = None -> sorted_kids (insert_kid nm n kids).
Proof.
  intros nm n. induction kids as [|[k x] t IH]; intros Hs Hnone; simpl.
  - split; [constructor | exact I].
  - simpl in Hnone. destruct Hs as [Hlt Hs]. destruct (cmp_names nm k) eqn:Enk.
    + discriminate.
    + simpl. split; [|split; assumption].
      constructor; [exact Enk|]. apply lt_all_trans with k; [left; exact Enk | exact Hlt].
    + simpl. split; [|apply IH; assumption].
      apply Forall_insert_kid; [simpl; apply cmp_gt_lt, Enk | exact Hlt].
Qed.

Theorem insert_perm :
  forall nm n kids, Permutation (insert_kid nm n kids) ((nm, n) :: kids).
Proof.
  intros nm n. induction kids as [|[k x] t IH]; simpl; [apply Permutation_refl|].
  destruct (cmp_names nm k); try apply Permutation_refl;
    (eapply Permutation_trans; [apply perm_skip, IH | apply perm_swap]).
Qed.

(* ---- removal ---- *)

Theorem remove_sorted : forall nm kids, sorted_kids kids -> sorted_kids (remove_kid nm kids).
Proof.
  intros nm. induction kids as [|[k x] t IH]; intros Hs; simpl; [exact I|].
  destruct Hs as [Hlt Hs].
  destruct (cmp_names nm k); try exact Hs;
    (simpl; split; [apply Forall_remove_kid, Hlt | apply IH, Hs]).
Qed.

Theorem find_remove :
  forall nm nm' kids,
    sorted_kids kids ->
    find_kid nm' (remove_kid nm kids) =
    match cmp_names nm' nm with Eq => None | _ => find_kid nm' kids end.
Proof.
  intros nm nm'. induction kids as [|[k x] t IH]; intros Hs; simpl.
  - destruct (cmp_names nm' nm); reflexivity.
  - destruct Hs as [Hlt Hs]. destruct (cmp_names nm k) eqn:Enk.
    + destruct (cmp_names nm' nm) eqn:E2.
      * apply lt_all_find_none. apply lt_all_trans with k; [right|exact Hlt].
        eapply cmp_names_eq_trans; eassumption.
      * destruct (cmp_names nm' k) eqn:E1; try reflexivity.
        exfalso. rewrite (cmp_eq_join_r nm' nm k E1 Enk) in E2. discriminate.
      * destruct (cmp_names nm' k) eqn:E1; try reflexivity.
        exfalso. rewrite (cmp_eq_join_r nm' nm k E1 Enk) in E2. discriminate.
    + simpl. rewrite (IH Hs).
      destruct (cmp_names nm' k) eqn:E1, (cmp_names nm' nm) eqn:E2; try reflexivity.
      exfalso. rewrite (cmp_eq_join_l nm' nm k E2 E1) in Enk. discriminate.
    + simpl. rewrite (IH Hs).
      destruct (cmp_names nm' k) eqn:E1, (cmp_names nm' nm) eqn:E2; try reflexivity.
      exfalso. rewrite (cmp_eq_join_l nm' nm k E2 E1) in Enk. discriminate.
Qed.

Lemma remove_absent : forall nm kids, find_kid nm kids = None -> remove_kid nm kids = kids.
Proof.
  intros nm. induction kids as [|[k x] t IH]; intro H; simpl; [reflexivity|].
  simpl in H. destruct (cmp_names nm k); try discriminate; rewrite (IH H); reflexivity.
Qed.

(* removal takes out exactly the (one) entry equivalent to nm *)
Theorem remove_perm :
  forall nm kids k x,
    sorted_kids kids -> find_kid nm kids = Some (k, x) ->
    Permutation kids ((k, x) :: remove_kid nm kids) /\ find_kid nm (remove_kid nm kids) = None.
Proof.
  intros nm kids k x Hs Hf. split.
  - clear Hs. revert Hf. induction kids as [|[k0 x0] t IH]; intro Hf; simpl in *; [discriminate|].
    destruct (cmp_names nm k0).
    + injection Hf as <- <-. apply Permutation_refl.
    + eapply Permutation_trans; [apply perm_skip, (IH Hf) | apply perm_swap].
    + eapply Permutation_trans; [apply perm_skip, (IH Hf) | apply perm_swap].
  - rewrite (find_remove nm nm kids Hs), cmp_names_refl. reflexivity.
Qed.

(* ---- replacement ---- *)

Lemma find_replace_gen :
  forall nm n nm' kids,
    find_kid nm' (replace_kid nm n kids) =
    match cmp_names nm' nm with
    | Eq => match find_kid nm kids with Some (k, _) => Some (k, n) | None => None end
    | _ => find_kid nm' kids
    end.
Proof.
  intros nm n nm'. induction kids as [|[k x] t IH]; simpl.
  - destruct (cmp_names nm' nm); reflexivity.
  - destruct (cmp_names nm k) eqn:Enk; simpl.
    + destruct (cmp_names nm' nm) eqn:E2.
      * rewrite (cmp_names_eq_trans nm' nm k E2 Enk). reflexivity.
      * destruct (cmp_names nm' k) eqn:E1; try reflexivity.
        exfalso. rewrite (cmp_eq_join_r nm' nm k E1 Enk) in E2. discriminate.
      * destruct (cmp_names nm' k) eqn:E1; try reflexivity.
        exfalso. rewrite (cmp_eq_join_r nm' nm k E1 Enk) in E2. discriminate.
    + rewrite IH.
      destruct (cmp_names nm' k) eqn:E1, (cmp_names nm' nm) eqn:E2; try reflexivity.
      exfalso. rewrite (cmp_eq_join_l nm' nm k E2 E1) in Enk. discriminate.
    + rewrite IH.
      destruct (cmp_names nm' k) eqn:E1, (cmp_names nm' nm) eqn:E2; try reflexivity.
      exfalso. rewrite (cmp_eq_join_l nm' nm k E2 E1) in Enk. discriminate.
Qed.

Theorem find_replace :
  forall nm n nm' kids,
    sorted_kids kids ->
    find_kid nm' (replace_kid nm n kids) =
    match cmp_names nm' nm with
    | Eq => match find_kid nm kids with Some (k, _) => Some (k, n) | None => None end
    | _ => find_kid nm' kids
    end.
Proof. intros nm n nm' kids _. apply find_replace_gen. Qed.

Theorem replace_sorted :
  forall nm n kids, sorted_kids kids -> sorted_kids (replace_kid nm n kids).
Proof.
  intros nm n kids H. apply sorted_kids_StronglySorted.
  rewrite replace_kid_keys. apply sorted_kids_StronglySorted, H.
Qed.

Lemma replace_absent :
  forall nm n kids, find_kid nm kids = None -> replace_kid nm n kids = kids.
Proof.
  intros nm n. induction kids as [|[k x] t IH]; intro H; simpl; [reflexivity|].
  simpl in H. destruct (cmp_names nm k); try discriminate; rewrite (IH H); reflexivity.
Qed.

(* ---- uniqueness of the sorted representation ---- *)

Theorem sorted_perm_unique :
  forall l1 l2, sorted_kids l1 -> sorted_kids l2 -> Permutation l1 l2 -> l1 = l2.
Proof.
  induction l1 as [|[k1 x1] t1 IH]; intros l2 H1 H2 HP.
  - apply Permutation_nil in HP. symmetry. exact HP.
  - destruct l2 as [|[k2 x2] t2].
    + apply Permutation_sym, Permutation_nil in HP. discriminate.
    + destruct H1 as [Hlt1 Hs1]. destruct H2 as [Hlt2 Hs2].
      assert (Hin1 : In (k1, x1) ((k2, x2) :: t2)).
      { eapply Permutation_in; [exact HP | left; reflexivity]. }
      assert (Hin2 : In (k2, x2) ((k1, x1) :: t1)).
      { eapply Permutation_in; [apply Permutation_sym, HP | left; reflexivity]. }
      assert (Heq : (k1, x1) = (k2, x2)).
      { destruct Hin1 as [Heq|Hin1]; [symmetry; exact Heq|].
        destruct Hin2 as [Heq|Hin2]; [exact Heq|].
        exfalso. unfold lt_all in *. rewrite Forall_forall in Hlt1, Hlt2.
        apply (cmp_lt_irrefl k1 k2); [apply (Hlt1 _ Hin2) | apply (Hlt2 _ Hin1)]. }
      injection Heq as <- <-. f_equal. apply IH; try assumption.
      eapply Permutation_cons_inv. exact HP.
Qed.

(* ---- siblings ---- *)

(* pairwise non-equivalent names *)
Fixpoint distinct_names (ns : list name) : Prop :=
  match ns with
  | [] => True
  | a :: t => Forall (fun b => cmp_names a b <> Eq) t /\ distinct_names t
  end.

Lemma distinct_names_perm :
  forall ns ns', Permutation ns ns' -> distinct_names ns -> distinct_names ns'.
Proof.
  induction 1 as [|a l l' HP IH|a b l|l l' l'' HP1 IH1 HP2 IH2]; simpl.
  - auto.
  - intros [Ha Hd]. split; [eapply Permutation_Forall; eassumption | apply IH, Hd].
  - intros [Hb [Ha Hd]]. inversion Hb as [|y l0 Hba Hbl]; subst.
    split; [constructor; [apply cmp_neq_sym, Hba | exact Ha] | split; assumption].
  - auto.
Qed.

Lemma distinct_names_in :
  forall ns a b, distinct_names ns -> In a ns -> In b ns -> a = b \/ cmp_names a b <> Eq.
Proof.
  induction ns as [|c t IH]; intros a b Hd Ha Hb; [destruct Ha|].
  destruct Hd as [Hc Hd]. rewrite Forall_forall in Hc.
  destruct Ha as [<-|Ha], Hb as [<-|Hb].
  - left. reflexivity.
  - right. apply Hc, Hb.
  - right. apply cmp_neq_sym, Hc, Ha.
  - apply IH; assumption.
Qed.

Definition insert_all (f : name -> node) (ns : list name) (acc : list (name * node)) :=
  fold_left (fun k nm => insert_kid nm (f nm) k) ns acc.

Definition remove_all (rs : list name) (kids : list (name * node)) :=
  fold_left (fun k nm => remove_kid nm k) rs kids.

Lemma insert_all_perm :
  forall f ns acc, Permutation (insert_all f ns acc) (map (fun nm => (nm, f nm)) ns ++ acc).
Proof.
  intros f. induction ns as [|a t IH]; intro acc; simpl; [apply Permutation_refl|].
  eapply Permutation_trans; [apply IH|].
  eapply Permutation_trans; [apply Permutation_app_head, insert_perm|].
  apply Permutation_sym, Permutation_middle.
Qed.

Lemma insert_all_sorted :
  forall f ns acc,
    sorted_kids acc -> distinct_names ns ->
    (forall nm, In nm ns -> find_kid nm acc = None) ->
    sorted_kids (insert_all f ns acc).
Proof.
  intros f. induction ns as [|a t IH]; intros acc Hs Hd Hnone; simpl; [exact Hs|].
  destruct Hd as [Ha Hd]. rewrite Forall_forall in Ha. apply IH.
  - apply insert_sorted; [exact Hs | apply Hnone; left; reflexivity].
  - exact Hd.
  - intros nm Hin. rewrite find_insert_gen by (apply Hnone; left; reflexivity).
    destruct (cmp_names nm a) eqn:E; try (apply Hnone; right; exact Hin).
    exfalso. apply (Ha nm Hin). apply cmp_eq_sym, E.
Qed.

Lemma find_remove_all :
  forall rs nm' kids,
    sorted_kids kids ->
    sorted_kids (remove_all rs kids) /\
    ((exists r, In r rs /\ cmp_names nm' r = Eq) -> find_kid nm' (remove_all rs kids) = None) /\
    ((forall r, In r rs -> cmp_names nm' r <> Eq) ->
     find_kid nm' (remove_all rs kids) = find_kid nm' kids).
Proof.
  induction rs as [|r t IH]; intros nm' kids Hs; simpl.
  - split; [exact Hs|]. split; [intros [r [[] _]] | reflexivity].
  - destruct (IH nm' (remove_kid r kids) (remove_sorted r kids Hs)) as [IHs [IHyes IHno]].
    split; [exact IHs|]. split.
    + intros [r0 [[<-|Hin] He]].
      * destruct (cmp_names nm' r) eqn:E; try discriminate.
        (* whether or not a later removal also matches, the entry is gone *)
        assert (Hgone : find_kid nm' (remove_kid r kids) = None).
        { rewrite find_remove, E by exact Hs. reflexivity. }
        clear IHyes IHno IHs He E.
        revert Hgone. generalize (remove_sorted r kids Hs). generalize (remove_kid r kids).
        clear IH. induction t as [|r1 t1 IHt]; intros l Hl Hg; simpl; [exact Hg|].
        apply IHt; [apply remove_sorted, Hl|].
        rewrite find_remove by exact Hl. destruct (cmp_names nm' r1); [reflexivity|exact Hg..].
      * apply IHyes. exists r0. split; assumption.
    + intros Hno. rewrite IHno by (intros r0 Hr0; apply Hno; right; exact Hr0).
      rewrite find_remove by exact Hs.
      destruct (cmp_names nm' r) eqn:E; try reflexivity.
      exfalso. apply (Hno r); [left; reflexivity | exact E].
Qed.

(* any finite set of pairwise non-equivalent names: insertion in any order gives
   one and the same sorted list holding exactly those entries; each is found under
   any equivalent spelling; after removing any sub-list exactly the others remain *)
Theorem siblings_coexist :
  forall (f : name -> node) (ns : list name),
    distinct_names ns ->
    let kids := insert_all f ns [] in
    sorted_kids kids /\
    Permutation kids (map (fun nm => (nm, f nm)) ns) /\
    (forall ns', Permutation ns ns' -> insert_all f ns' [] = kids) /\
    (forall nm nm', In nm ns -> cmp_names nm' nm = Eq -> find_kid nm' kids = Some (nm, f nm)) /\
    (forall rs nm nm',
        incl rs ns -> In nm ns -> cmp_names nm' nm = Eq ->
        (In nm rs -> find_kid nm' (remove_all rs kids) = None) /\
        (~ In nm rs -> find_kid nm' (remove_all rs kids) = Some (nm, f nm))).
Proof.
  intros f ns Hd kids.
  assert (Hsorted : forall l, distinct_names l -> sorted_kids (insert_all f l [])).
  { intros l Hl. apply insert_all_sorted; [exact I | exact Hl | reflexivity]. }
  assert (Hperm : forall l, Permutation (insert_all f l []) (map (fun nm => (nm, f nm)) l)).
  { intro l. rewrite <- (app_nil_r (map _ l)). apply insert_all_perm. }
  assert (Hfind : forall nm nm', In nm ns -> cmp_names nm' nm = Eq ->
                                 find_kid nm' kids = Some (nm, f nm)).
  { intros nm nm' Hin He. apply find_kid_sorted_in; [apply Hsorted, Hd | | exact He].
    eapply Permutation_in; [apply Permutation_sym, Hperm|].
    apply in_map_iff. exists nm. split; [reflexivity | exact Hin]. }
  split; [apply Hsorted, Hd|]. split; [apply Hperm|]. split; [|split; [exact Hfind|]].
  - intros ns' HP. apply sorted_perm_unique.
    + apply Hsorted. eapply distinct_names_perm; eassumption.
    + apply Hsorted, Hd.
    + eapply Permutation_trans; [apply Hperm|].
      eapply Permutation_trans; [|apply Permutation_sym, Hperm].
      apply Permutation_map, Permutation_sym, HP.
  - intros rs nm nm' Hincl Hin He.
    destruct (find_remove_all rs nm' kids (Hsorted ns Hd)) as [_ [Hyes Hno]]. split.
    + intro Hrs. apply Hyes. exists nm. split; assumption.
    + intro Hnrs. rewrite Hno; [apply Hfind; assumption|].
      intros r Hr C.
      destruct (distinct_names_in ns nm r Hd Hin (Hincl r Hr)) as [->|Hne].
      * apply Hnrs, Hr.
      * apply Hne. eapply cmp_eq_join_l; eassumption.
Qed.

(* ---- listing ---- *)

Lemma se_name_entry_for : forall r nm path n, se_name (entry_for r nm path n) = nm.
Proof. intros r nm path [st bs|m kids]; reflexivity. Qed.

Theorem list_kids_sorted :
  forall parent kids,
    sorted_kids kids ->
    map se_name (list_kids parent kids) = map fst kids /\
    StronglySorted name_lt (map se_name (list_kids parent kids)).
Proof.
  intros parent kids Hs.
  assert (Hm : map se_name (list_kids parent kids) = map fst kids).
  { unfold list_kids. rewrite map_map. apply map_ext. intros [k n]. apply se_name_entry_for. }
  split; [exact Hm|]. rewrite Hm. apply sorted_kids_StronglySorted, Hs.
Qed.

(* ================================================================== *)
(* The tree                                                             *)
(* ================================================================== *)

(* every storage of the tree keeps its children sorted *)
Inductive wf_node : node -> Prop :=
| wf_leaf : forall st bs, wf_node (Leaf st bs)
| wf_dir : forall m kids,
    sorted_kids kids -> Forall (fun kc => wf_node (snd kc)) kids -> wf_node (Dir m kids).

(* induction principle through the nested list *)
Fixpoint node_ind' (P : node -> Prop)
  (HL : forall st bs, P (Leaf st bs))
  (HD : forall m kids, Forall (fun kc => P (snd kc)) kids -> P (Dir m kids))
  (n : node) : P n :=
  match n with
  | Leaf st bs => HL st bs
  | Dir m kids =>
    HD m kids
       ((fix go (l : list (name * node)) : Forall (fun kc => P (snd kc)) l :=
           match l with
           | [] => Forall_nil _
           | (k, c) :: t => Forall_cons (k, c) (node_ind' P HL HD c) (go t)
           end) kids)
  end.

Lemma wf_empty_tree : wf_node empty_tree.
Proof. constructor; [exact I | constructor]. Qed.

Lemma wf_new_dir : forall now, wf_node (new_dir now).
Proof. intro now. constructor; [exact I | constructor]. Qed.

(* ---- name chains ---- *)

Definition chain_equiv (a b : list name) : Prop := Forall2 name_equiv a b.

(* b continues a chain equivalent to a *)
Definition chain_prefix (a b : list name) : Prop := exists s, chain_equiv (a ++ s) b.

(* the chains part ways at some component *)
Inductive diverges : list name -> list name -> Prop :=
| div_here : forall x y a b, cmp_names x y <> Eq -> diverges (x :: a) (y :: b)
| div_later : forall x y a b, cmp_names x y = Eq -> diverges a b -> diverges (x :: a) (y :: b).

Lemma chain_equiv_refl : forall a, chain_equiv a a.
Proof. induction a; constructor; [apply cmp_names_refl | assumption]. Qed.

Lemma chain_equiv_sym : forall a b, chain_equiv a b -> chain_equiv b a.
Proof. induction 1; constructor; [apply cmp_eq_sym; assumption | assumption]. Qed.

Lemma chain_equiv_trans : forall a b c, chain_equiv a b -> chain_equiv b c -> chain_equiv a c.
Proof.
  intros a b c H. revert c. induction H as [|x y a b Hxy Hab IH]; intros c Hc.
  - exact Hc.
  - inversion Hc as [|y' z b' c' Hyz Hbc]; subst. constructor; [|apply IH, Hbc].
    eapply cmp_names_eq_trans; eassumption.
Qed.

Lemma chain_equiv_app :
  forall a a' b b', chain_equiv a a' -> chain_equiv b b' -> chain_equiv (a ++ b) (a' ++ b').
Proof. intros. apply Forall2_app; assumption. Qed.

Lemma chain_equiv_upper : forall a, chain_equiv (map (map upper) a) a.
Proof. induction a; constructor; [apply cmp_names_case_insensitive | assumption]. Qed.

Lemma chain_prefix_refl : forall a, chain_prefix a a.
Proof. intro a. exists []. rewrite app_nil_r. apply chain_equiv_refl. Qed.

Lemma chain_prefix_app : forall a b s, chain_prefix a b -> chain_prefix a (b ++ s).
Proof.
  intros a b s [s0 H]. exists (s0 ++ s). rewrite app_assoc.
  apply chain_equiv_app; [exact H | apply chain_equiv_refl].
Qed.

Lemma chain_trichotomy :
  forall a b,
    diverges a b \/ chain_prefix b a \/
    (exists a' s, b = a' ++ s /\ s <> [] /\ chain_equiv a a').
Proof.
  induction a as [|x a IH]; intros [|y b].
  - right. left. apply chain_prefix_refl.
  - right. right. exists [], (y :: b). repeat split; [discriminate | constructor].
  - right. left. exists (x :: a). apply chain_equiv_refl.
  - destruct (cmp_names x y) eqn:E.
    + destruct (IH b) as [Hd|[[s Hp]|[a' [s [-> [Hs He]]]]]].
      * left. apply div_later; assumption.
      * right. left. exists s. simpl. constructor; [apply cmp_eq_sym, E | exact Hp].
      * right. right. exists (y :: a'), s. repeat split; [exact Hs|].
        constructor; assumption.
    + left. apply div_here. rewrite E. discriminate.
    + left. apply div_here. rewrite E. discriminate.
Qed.

(* ---- get ---- *)

Lemma get_equiv : forall a b, chain_equiv a b -> forall t, get t a = get t b.
Proof.
  induction 1 as [|x y a b Hxy Hab IH]; intro t; simpl; [reflexivity|].
  destruct t as [st bs|m kids]; [reflexivity|].
  rewrite (find_kid_equiv x y kids Hxy). destruct (find_kid y kids) as [[k c]|]; auto.
Qed.

Lemma get_app :
  forall a b t, get t (a ++ b) = match get t a with Some n => get n b | None => None end.
Proof.
  induction a as [|x a IH]; intros b t; simpl; [reflexivity|].
  destruct t as [st bs|m kids]; [reflexivity|].
  destruct (find_kid x kids) as [[k c]|]; [apply IH | reflexivity].
Qed.

Lemma get_leaf_cons : forall st bs x s, get (Leaf st bs) (x :: s) = None.
Proof. reflexivity. Qed.

Lemma get_empty_dir_cons : forall m x s, get (Dir m []) (x :: s) = None.
Proof. reflexivity. Qed.

Lemma stored_name_equiv :
  forall a b, chain_equiv a b -> forall t d, stored_name t a d = stored_name t b d.
Proof.
  induction 1 as [|x y a b Hxy Hab IH]; intros t d; simpl; [reflexivity|].
  destruct t as [st bs|m kids]; [reflexivity|].
  rewrite (find_kid_equiv x y kids Hxy). destruct (find_kid y kids) as [[k c]|]; auto.
Qed.

Lemma wf_get : forall names t n, wf_node t -> get t names = Some n -> wf_node n.
Proof.
  induction names as [|x r IH]; intros t n Hwf H; simpl in H.
  - injection H as <-. exact Hwf.
  - destruct t as [st bs|m kids]; [discriminate|].
    destruct (find_kid x kids) as [[k c]|] eqn:Ef; [|discriminate].
    inversion Hwf as [|m' kids' Hs Hall]; subst.
    apply find_kid_stored in Ef. destruct Ef as [Hin _].
    rewrite Forall_forall in Hall. apply (IH c n (Hall _ Hin) H).
Qed.

(* ---- update ---- *)

Lemma update_absent : forall names t f, get t names = None -> update t names f = t.
Proof.
  induction names as [|x r IH]; intros t f H; simpl in *; [discriminate|].
  destruct t as [st bs|m kids]; [reflexivity|].
  destruct (find_kid x kids) as [[k c]|] eqn:Ef; [|reflexivity].
  rewrite (IH c f H). f_equal.
  clear -Ef. induction kids as [|[k0 x0] t IH]; simpl in *; [reflexivity|].
  destruct (cmp_names x k0).
  - injection Ef as <- <-. reflexivity.
  - rewrite (IH Ef). reflexivity.
  - rewrite (IH Ef). reflexivity.
Qed.

Lemma wf_update :
  forall names t f,
    wf_node t ->
    (forall n, get t names = Some n -> wf_node n -> wf_node (f n)) ->
    wf_node (update t names f).
Proof.
  induction names as [|x r IH]; intros t f Hwf Hf; simpl.
  - apply Hf; [reflexivity | exact Hwf].
  - destruct t as [st bs|m kids]; [exact Hwf|].
    destruct (find_kid x kids) as [[k c]|] eqn:Ef; [|exact Hwf].
    inversion Hwf as [|m' kids' Hs Hall]; subst.
    assert (Hc : wf_node c).
    { apply find_kid_stored in Ef. destruct Ef as [Hin _].
      rewrite Forall_forall in Hall. apply (Hall _ Hin). }
    constructor; [apply replace_sorted, Hs|].
    apply Forall_replace_kid; [|exact Hall].
    intros k' x' _ _. simpl. apply IH; [exact Hc|].
    intros n Hn. apply Hf. simpl. rewrite Ef. exact Hn.
Qed.

(* reading at (a continuation of) the updated place *)
Lemma get_update_ext :
  forall names t n f names' s,
    get t names = Some n -> chain_equiv names names' ->
    get (update t names f) (names' ++ s) = get (f n) s.
Proof.
  induction names as [|x r IH]; intros t n f names' s Hg He.
  - inversion He; subst. simpl in *. injection Hg as <-. reflexivity.
  - inversion He as [|x' y r0 r' Hxy Hr]; subst. simpl in Hg.
    destruct t as [st bs|m kids]; [discriminate|]. simpl.
    destruct (find_kid x kids) as [[k c]|] eqn:Ef; [|discriminate]. simpl.
    rewrite find_replace_gen, (cmp_eq_sym x y Hxy), Ef.
    apply IH; assumption.
Qed.

Theorem get_update_same :
  forall t names f n, get t names = Some n -> get (update t names f) names = Some (f n).
Proof.
  intros t names f n H. rewrite <- (app_nil_r names) at 2.
  rewrite (get_update_ext names t n f names [] H (chain_equiv_refl names)). reflexivity.
Qed.

Theorem get_update_other :
  forall names other t f, diverges names other -> get (update t names f) other = get t other.
Proof.
  intros names other t f H. revert t.
  induction H as [x y a b Hne|x y a b He Hd IH]; intro t; simpl.
  - destruct t as [st bs|m kids]; [reflexivity|].
    destruct (find_kid x kids) as [[k c]|] eqn:Ef; [|reflexivity]. simpl.
    rewrite find_replace_gen.
    destruct (cmp_names y x) eqn:E; try reflexivity.
    exfalso. apply Hne, cmp_eq_sym, E.
  - destruct t as [st bs|m kids]; [reflexivity|].
    destruct (find_kid x kids) as [[k c]|] eqn:Ef; [|reflexivity]. simpl.
    rewrite find_replace_gen, (cmp_eq_sym x y He), Ef.
    rewrite <- (find_kid_equiv x y kids He), Ef. apply IH.
Qed.

(* ---- last component ---- *)

Lemma lastN_app1 : forall A (l : list A) x, lastN (l ++ [x]) = Some x.
Proof. intros. unfold lastN. rewrite rev_unit. reflexivity. Qed.

Lemma pop_last_app1 : forall A (l : list A) x, pop_last (l ++ [x]) = l.
Proof. intros. unfold pop_last. apply removelast_last. Qed.

Lemma lastN_some : forall A (l : list A) x, lastN l = Some x -> l = pop_last l ++ [x].
Proof.
  intros A l x H. unfold lastN in H. destruct (rev l) as [|y r] eqn:E; [discriminate|].
  injection H as ->. assert (Hl : l = rev r ++ [x]).
  { rewrite <- (rev_involutive l), E. reflexivity. }
  rewrite Hl at 2. rewrite pop_last_app1. exact Hl.
Qed.

Lemma lastN_none : forall A (l : list A), lastN l = None -> l = [].
Proof.
  intros A l H. unfold lastN in H. destruct (rev l) eqn:E; [|discriminate].
  rewrite <- (rev_involutive l), E. reflexivity.
Qed.

(* ================================================================== *)
(* The operations                                                       *)
(* ================================================================== *)

Ltac break_match :=
  match goal with
  | |- context [match ?x with _ => _ end] => destruct x eqn:?
  end.

(* the absence of names = parent ++ [nm] is the absence of nm among the children *)
Lemma get_last_none :
  forall t names nm m kids,
    get t names = None -> lastN names = Some nm ->
    get t (parent_of names) = Some (Dir m kids) -> find_kid nm kids = None.
Proof.
  intros t names nm m kids Hg Hl Hp. rewrite (lastN_some _ _ _ Hl), get_app in Hg.
  unfold parent_of in Hp. rewrite Hp in Hg. simpl in Hg.
  destruct (find_kid nm kids) as [[k c]|]; [discriminate | reflexivity].
Qed.

Lemma get_last_some :
  forall t names nm n,
    get t names = Some n -> lastN names = Some nm ->
    exists m kids k, get t (parent_of names) = Some (Dir m kids) /\ find_kid nm kids = Some (k, n).
Proof.
  intros t names nm n Hg Hl. rewrite (lastN_some _ _ _ Hl), get_app in Hg.
  unfold parent_of. destruct (get t (pop_last names)) as [[st bs|m kids]|]; try discriminate.
  simpl in Hg. destruct (find_kid nm kids) as [[k c]|] eqn:Ef; [|discriminate].
  injection Hg as ->. exists m, kids, k. split; [reflexivity | exact Ef].
Qed.

Lemma wf_insert_last :
  forall t names nm c f,
    (forall m kids, f (Dir m kids) = Dir m (insert_kid nm c kids)) ->
    (forall st bs, f (Leaf st bs) = Leaf st bs) ->
    wf_node t -> wf_node c -> get t names = None -> lastN names = Some nm ->
    wf_node (update t (parent_of names) f).
Proof.
  intros t names nm c f HfD HfL Hwf Hc Hg Hl. apply wf_update; [exact Hwf|].
  intros n Hn Hwn. destruct n as [st bs|m kids]; [rewrite HfL; exact Hwn|].
  rewrite HfD. inversion Hwn as [|m' kids' Hs Hall]; subst. constructor.
  - apply insert_sorted; [exact Hs|]. eapply get_last_none; eassumption.
  - apply Forall_insert_kid; [exact Hc | exact Hall].
Qed.

Lemma wf_remove_at : forall t names, wf_node t -> wf_node (remove_at t names).
Proof.
  intros t names Hwf. unfold remove_at. destruct (lastN names) as [nm|]; [|exact Hwf].
  apply wf_update; [exact Hwf|]. intros n _ Hwn.
  destruct n as [st bs|m kids]; [exact Hwn|].
  inversion Hwn as [|m' kids' Hs Hall]; subst. constructor.
  - apply remove_sorted, Hs.
  - apply Forall_remove_kid, Hall.
Qed.

Lemma wf_update_simple :
  forall t names f, (forall n, wf_node n -> wf_node (f n)) -> wf_node t ->
                    wf_node (update t names f).
Proof. intros t names f Hf Hwf. apply wf_update; [exact Hwf|]. intros n _. apply Hf. Qed.

Lemma wf_create_storage_at :
  forall t names now, wf_node t -> wf_node (fst (create_storage_at t names now)).
Proof.
  intros t names now Hwf. unfold create_storage_at.
  destruct (get t names) eqn:Eg; [exact Hwf|].
  destruct (lastN names) as [nm|] eqn:El; [|exact Hwf].
  destruct (validate_name nm); try exact Hwf.
  destruct (get t (parent_of names)) as [[st bs|m kids]|]; try exact Hwf.
  simpl. eapply wf_insert_last;
    [reflexivity | reflexivity | exact Hwf | apply wf_new_dir | eassumption | eassumption].
Qed.

Lemma wf_create_all :
  forall pres t now, wf_node t -> wf_node (fst (create_all t pres now)).
Proof.
  induction pres as [|pre rest IH]; intros t now Hwf; simpl; [exact Hwf|].
  assert (Hstep : wf_node (fst (match create_storage_at t pre now with
                                | (t', Ok _) => create_all t' rest now
                                | other => other end))).
  { pose proof (wf_create_storage_at t pre now Hwf) as Hc.
    destruct (create_storage_at t pre now) as [t' r]. simpl in Hc.
    destruct r; try exact Hc. apply IH, Hc. }
  destruct (get t pre) as [[st bs|m kids]|]; try exact Hstep. apply IH, Hwf.
Qed.

(* sortedness of every storage is an invariant of every operation *)
Theorem wf_spec_step :
  forall t now o, wf_node t -> wf_node (fst (spec_step t now o)).
Proof.
  intros t now o Hwf.
  destruct o; unfold spec_step, with_names; cbv beta iota; try exact Hwf;
    (destruct (name_chain_from_path p) as [names| | |]; [|exact Hwf..]).
  - (* SCreateStorage *) apply wf_create_storage_at, Hwf.
  - (* SCreateStorageAll *)
    destruct (all_valid names); [apply wf_create_all, Hwf | exact Hwf].
  - (* SRemoveStorage *)
    destruct (get t names) as [[st bs|m kids]|]; try exact Hwf.
    destruct names; [exact Hwf|]. destruct kids; [|exact Hwf].
    apply wf_remove_at, Hwf.
  - (* SRemoveStorageAll *)
    destruct (get t names) as [n|]; [|exact Hwf].
    destruct names; [|apply wf_remove_at, Hwf].
    simpl. destruct t as [st bs|m kids]; [exact Hwf|]. constructor; [exact I|constructor].
  - (* SCreateStream *)
    destruct (get t names) as [[st bs|m kids]|] eqn:Eg; try exact Hwf.
    + destruct overwrite; [|exact Hwf]. simpl.
      apply wf_update_simple; [|exact Hwf]. intros; constructor.
    + destruct (lastN names) as [nm|] eqn:El; [|exact Hwf].
      destruct (validate_name nm); try exact Hwf.
      destruct (get t (parent_of names)) as [[st bs|m kids]|]; try exact Hwf.
      simpl. eapply wf_insert_last;
        [reflexivity | reflexivity | exact Hwf | constructor | eassumption | eassumption].
  - (* SAppend *)
    destruct (get t names) as [[st bs0|m kids]|]; try exact Hwf. simpl.
    apply wf_update_simple; [|exact Hwf]. intros; constructor.
  - (* SOpenStream *)
    destruct (get t names) as [[st bs0|m kids]|]; exact Hwf.
  - (* SRemoveStream *)
    destruct (get t names) as [[st bs0|m kids]|]; try exact Hwf. apply wf_remove_at, Hwf.
  - (* SSetClsid *)
    destruct (get t names) as [[st bs0|m kids]|]; try exact Hwf. simpl.
    apply wf_update_simple; [|exact Hwf].
    intros n Hn. destruct Hn; constructor; assumption.
  - (* SSetState *)
    destruct (get t names); [|exact Hwf]. simpl.
    apply wf_update_simple; [|exact Hwf].
    intros n0 Hn. destruct Hn; constructor; assumption.
  - (* SSetCreated *)
    destruct (get t names); [|exact Hwf]. simpl.
    apply wf_update_simple; [|exact Hwf].
    intros n0 Hn. destruct Hn; constructor; assumption.
  - (* SSetModified *)
    destruct (get t names); [|exact Hwf]. simpl.
    apply wf_update_simple; [|exact Hwf].
    intros n0 Hn. destruct Hn; constructor; assumption.
  - (* SEntry *) destruct (get t names); exact Hwf.
  - (* SReadStorage *) destruct (get t names) as [[st bs0|m kids]|]; exact Hwf.
  - (* SWalkStorage *) destruct (get t names); [|exact Hwf]. destruct names; exact Hwf.
  - (* SCat *) destruct (get t names) as [[st bs0|m kids]|]; exact Hwf.
Qed.

(* ---- a refused operation changes nothing ---- *)

Definition ins_fun (nm : name) (c : node) : node -> node :=
  fun p => match p with Dir m kids => Dir m (insert_kid nm c kids) | x => x end.

Definition rem_fun (nm : name) : node -> node :=
  fun p => match p with Dir m kids => Dir m (remove_kid nm kids) | x => x end.

(* creating the absent child x of the existing storage acc succeeds *)
Lemma create_storage_at_fresh :
  forall t acc x u m kids now,
    validate_name x = Ok u -> get t acc = Some (Dir m kids) -> get t (acc ++ [x]) = None ->
    create_storage_at t (acc ++ [x]) now = (update t acc (ins_fun x (new_dir now)), Ok SVUnit) /\
    get (update t acc (ins_fun x (new_dir now))) (acc ++ [x]) = Some (new_dir now).
Proof.
  intros t acc x u m kids now Hv Hacc Hnone. split.
  - unfold create_storage_at, parent_of.
    rewrite Hnone, lastN_app1, Hv, pop_last_app1, Hacc. reflexivity.
  - rewrite (get_update_ext acc t _ _ acc [x] Hacc (chain_equiv_refl acc)).
    rewrite get_app, Hacc in Hnone. simpl in Hnone. simpl.
    rewrite find_insert_gen, cmp_names_refl; [reflexivity|].
    destruct (find_kid x kids) as [[k c]|]; [discriminate | reflexivity].
Qed.

(* below a freshly created (empty) storage every further creation succeeds *)
Lemma create_all_fresh :
  forall l t acc m now,
    all_valid l = true -> get t acc = Some (Dir m []) ->
    exists t', create_all t (prefixes l acc) now = (t', Ok SVUnit).
Proof.
  induction l as [|x r IH]; intros t acc m now Hv Hacc; simpl.
  - exists t. reflexivity.
  - simpl in Hv. destruct (validate_name x) as [u| | |] eqn:Ev; try discriminate.
    assert (Hnone : get t (acc ++ [x]) = None) by (rewrite get_app, Hacc; reflexivity).
    destruct (create_storage_at_fresh t acc x u m [] now Ev Hacc Hnone) as [Hc Hg].
    rewrite Hnone, Hc. eapply IH; [exact Hv | exact Hg].
Qed.

(* a refusal can only come before the first creation *)
Lemma create_all_err :
  forall l t acc m kids now t' e,
    all_valid l = true -> get t acc = Some (Dir m kids) ->
    create_all t (prefixes l acc) now = (t', Err e) -> t' = t.
Proof.
  induction l as [|x r IH]; intros t acc m kids now t' e Hv Hacc H; simpl in H.
  - discriminate.
  - simpl in Hv. destruct (validate_name x) as [u| | |] eqn:Ev; try discriminate.
    destruct (get t (acc ++ [x])) as [[st bs|m1 k1]|] eqn:Eg.
    + unfold create_storage_at in H. rewrite Eg in H. injection H as <- _. reflexivity.
    + eapply IH; eassumption.
    + destruct (create_storage_at_fresh t acc x u m kids now Ev Hacc Eg) as [Hc Hg].
      rewrite Hc in H.
      destruct (create_all_fresh r _ (acc ++ [x]) _ now Hv Hg) as [t2 H2].
      rewrite H2 in H. discriminate.
Qed.

Lemma create_all_refused :
  forall names t now t' e,
    all_valid names = true -> create_all t (prefixes names []) now = (t', Err e) -> t' = t.
Proof.
  intros names t now t' e Hv H. destruct t as [st bs|m kids].
  - destruct names as [|x r]; simpl in H; [discriminate|].
    simpl in Hv. destruct (validate_name x) as [u| | |] eqn:Ev; try discriminate.
    unfold create_storage_at in H. simpl in H. unfold lastN in H. simpl in H.
    rewrite Ev in H. simpl in H. injection H as <- _. reflexivity.
  - eapply (create_all_err names (Dir m kids) [] m kids); [exact Hv | reflexivity | exact H].
Qed.

Theorem spec_refused_no_effect :
  forall t now o k, snd (spec_step t now o) = Err k -> fst (spec_step t now o) = t.
Proof.
  intros t now o k.
  destruct o; unfold spec_step, with_names; cbv beta iota; try reflexivity;
    (destruct (name_chain_from_path p) as [names| | |]; [|reflexivity..]).
  - (* SCreateStorage *) unfold create_storage_at.
    repeat (break_match; try reflexivity). simpl. discriminate.
  - (* SCreateStorageAll *)
    destruct (all_valid names) eqn:Ev; [|reflexivity].
    destruct (create_all t (prefixes names []) now) as [t' r] eqn:Ec. simpl.
    intros ->. eapply create_all_refused; eassumption.
  - repeat (break_match; try reflexivity); simpl; discriminate.
  - repeat (break_match; try reflexivity); simpl; discriminate.
  - repeat (break_match; try reflexivity); simpl; discriminate.
  - repeat (break_match; try reflexivity); simpl; discriminate.
  - repeat (break_match; try reflexivity); simpl; discriminate.
  - repeat (break_match; try reflexivity); simpl; discriminate.
  - repeat (break_match; try reflexivity); simpl; discriminate.
  - repeat (break_match; try reflexivity); simpl; discriminate.
  - repeat (break_match; try reflexivity); simpl; discriminate.
  - repeat (break_match; try reflexivity); simpl; discriminate.
  - repeat (break_match; try reflexivity); simpl; discriminate.
  - repeat (break_match; try reflexivity); simpl; discriminate.
  - repeat (break_match; try reflexivity); simpl; discriminate.
  - repeat (break_match; try reflexivity); simpl; discriminate.
Qed.

(* ---- lookups through paths are case-insensitive ---- *)

Definition entry_eq_mod_path (e e' : sentry) : Prop :=
  se_name e = se_name e' /\ se_type e = se_type e' /\ se_clsid e = se_clsid e' /\
  se_state e = se_state e' /\ se_ctime e = se_ctime e' /\ se_mtime e = se_mtime e' /\
  se_len e = se_len e'.

Lemma entry_for_mod_path :
  forall r nm path path' n, entry_eq_mod_path (entry_for r nm path n) (entry_for r nm path' n).
Proof. intros r nm path path' [st bs|m kids]; unfold entry_eq_mod_path; simpl; repeat split. Qed.

Theorem spec_case_insensitive :
  forall t now p p' names names',
    name_chain_from_path p = Ok names -> name_chain_from_path p' = Ok names' ->
    chain_equiv names names' ->
    spec_step t now (SExists p) = spec_step t now (SExists p') /\
    spec_step t now (SIsStream p) = spec_step t now (SIsStream p') /\
    spec_step t now (SIsStorage p) = spec_step t now (SIsStorage p') /\
    spec_step t now (SCat p) = spec_step t now (SCat p') /\
    spec_step t now (SOpenStream p) = spec_step t now (SOpenStream p') /\
    match spec_step t now (SEntry p), spec_step t now (SEntry p') with
    | (t1, Ok (SVEntry e)), (t2, Ok (SVEntry e')) => t1 = t /\ t2 = t /\ entry_eq_mod_path e e'
    | (t1, Err k), (t2, Err k') => t1 = t /\ t2 = t /\ k = k'
    | _, _ => False
    end.
Proof.
  intros t now p p' names names' Hp Hp' He.
  assert (Hroot : match names with [] => true | _ :: _ => false end =
                  match names' with [] => true | _ :: _ => false end)
    by (destruct He; reflexivity).
  unfold spec_step, with_names. rewrite Hp, Hp', (get_equiv names names' He t).
  repeat (split; [reflexivity|]).
  rewrite Hroot, (stored_name_equiv names names' He).
  destruct (get t names') as [n|].
  - repeat (split; [reflexivity|]). apply entry_for_mod_path.
  - repeat split.
Qed.

(* in particular the upper-cased spelling of a chain reads the same node *)
Corollary get_upper : forall t names, get t (map (map upper) names) = get t names.
Proof. intros. apply get_equiv, chain_equiv_upper. Qed.

(* ---- creation and removal: the object appears / is gone, the rest is untouched ---- *)

Lemma update_kid_core :
  forall t parent nm m kids m' kids' f,
    get t parent = Some (Dir m kids) ->
    f (Dir m kids) = Dir m' kids' ->
    (forall o, cmp_names o nm <> Eq -> find_kid o kids' = find_kid o kids) ->
    forall other, ~ chain_prefix other (parent ++ [nm]) ->
      get (update t parent f) other = get t other \/
      exists p' o x s, other = p' ++ o :: x :: s /\ chain_equiv parent p' /\ cmp_names o nm = Eq /\
                     get (update t parent f) other = get (Dir m' kids') (o :: x :: s) /\
                     get t other = get (Dir m kids) (o :: x :: s).
Proof.
  intros t parent nm m kids m' kids' f Hg Hf Hne other Hnp.
  destruct (chain_trichotomy parent other) as [Hd|[Hp|[p' [s [-> [Hs He]]]]]].
  - left. apply get_update_other, Hd.
  - exfalso. apply Hnp, chain_prefix_app, Hp.
  - assert (H1 : get (update t parent f) (p' ++ s) = get (Dir m' kids') s).
    { rewrite (get_update_ext parent t _ f p' s Hg He), Hf. reflexivity. }
    assert (H2 : get t (p' ++ s) = get (Dir m kids) s).
    { rewrite get_app, <- (get_equiv parent p' He), Hg. reflexivity. }
    destruct s as [|o s']; [congruence|].
    destruct (cmp_names o nm) eqn:E.
    + destruct s' as [|x s''].
      * exfalso. apply Hnp. exists []. rewrite app_nil_r.
        apply chain_equiv_app; [apply chain_equiv_sym, He|].
        constructor; [exact E | constructor].
      * right. exists p', o, x, s''. repeat split; assumption.
    + left. rewrite H1, H2. simpl. rewrite Hne by (rewrite E; discriminate). reflexivity.
    + left. rewrite H1, H2. simpl. rewrite Hne by (rewrite E; discriminate). reflexivity.
Qed.

Lemma find_insert_other :
  forall nm c kids o,
    find_kid nm kids = None -> cmp_names o nm <> Eq ->
    find_kid o (insert_kid nm c kids) = find_kid o kids.
Proof.
  intros nm c kids o Hn Hne. rewrite find_insert_gen by exact Hn.
  destruct (cmp_names o nm); [contradiction Hne; reflexivity | reflexivity..].
Qed.

Lemma find_remove_other :
  forall nm kids o,
    sorted_kids kids -> cmp_names o nm <> Eq -> find_kid o (remove_kid nm kids) = find_kid o kids.
Proof.
  intros nm kids o Hs Hne. rewrite find_remove by exact Hs.
  destruct (cmp_names o nm); [contradiction Hne; reflexivity | reflexivity..].
Qed.

(* inserting child nm (a node without descendants) below parent *)
Lemma insert_at_found :
  forall t parent nm c m kids,
    get t parent = Some (Dir m kids) -> find_kid nm kids = None ->
    (forall x s, get c (x :: s) = None) ->
    get (update t parent (ins_fun nm c)) (parent ++ [nm]) = Some c /\
    (forall other, ~ chain_prefix other (parent ++ [nm]) ->
                   get (update t parent (ins_fun nm c)) other = get t other).
Proof.
  intros t parent nm c m kids Hg Hn Hc. split.
  - rewrite (get_update_ext parent t _ _ parent [nm] Hg (chain_equiv_refl parent)).
    simpl. rewrite find_insert_gen, cmp_names_refl by exact Hn. reflexivity.
  - intros other Hnp.
    destruct (update_kid_core t parent nm m kids m (insert_kid nm c kids) (ins_fun nm c)
                Hg eq_refl (fun o => find_insert_other nm c kids o Hn) other Hnp)
      as [H|[p' [o [x [s [-> [He [Eo [H1 H2]]]]]]]]]; [exact H|].
    rewrite H1, H2. simpl.
    rewrite find_insert_gen, Eo by exact Hn. rewrite (find_kid_equiv o nm kids Eo), Hn.
    apply Hc.
Qed.

(* removing child nm (a node without descendants) of parent *)
Lemma remove_at_gone :
  forall t parent nm k c m kids,
    get t parent = Some (Dir m kids) -> sorted_kids kids -> find_kid nm kids = Some (k, c) ->
    (forall x s, get c (x :: s) = None) ->
    get (update t parent (rem_fun nm)) (parent ++ [nm]) = None /\
    (forall other, ~ chain_prefix other (parent ++ [nm]) ->
                   get (update t parent (rem_fun nm)) other = get t other).
Proof.
  intros t parent nm k c m kids Hg Hs Hf Hc. split.
  - rewrite (get_update_ext parent t _ _ parent [nm] Hg (chain_equiv_refl parent)).
    simpl. rewrite find_remove, cmp_names_refl by exact Hs. reflexivity.
  - intros other Hnp.
    destruct (update_kid_core t parent nm m kids m (remove_kid nm kids) (rem_fun nm)
                Hg eq_refl (fun o => find_remove_other nm kids o Hs) other Hnp)
      as [H|[p' [o [x [s [-> [He [Eo [H1 H2]]]]]]]]]; [exact H|].
    rewrite H1, H2. simpl.
    rewrite find_remove, Eo by exact Hs. rewrite (find_kid_equiv o nm kids Eo), Hf.
    symmetry. apply Hc.
Qed.

(* removing a whole subtree: chains unrelated to it are untouched, chains into it vanish *)
Lemma remove_at_subtree :
  forall t parent nm k c m kids,
    get t parent = Some (Dir m kids) -> sorted_kids kids -> find_kid nm kids = Some (k, c) ->
    (forall other, chain_prefix (parent ++ [nm]) other ->
                   get (update t parent (rem_fun nm)) other = None) /\
    (forall other, ~ chain_prefix other (parent ++ [nm]) -> ~ chain_prefix (parent ++ [nm]) other ->
                   get (update t parent (rem_fun nm)) other = get t other).
Proof.
  intros t parent nm k c m kids Hg Hs Hf. split.
  - intros other [s He].
    rewrite <- (get_equiv _ _ He), <- app_assoc.
    rewrite (get_update_ext parent t _ _ parent _ Hg (chain_equiv_refl parent)).
    simpl. rewrite find_remove, cmp_names_refl by exact Hs. reflexivity.
  - intros other Hnp Hnq.
    destruct (update_kid_core t parent nm m kids m (remove_kid nm kids) (rem_fun nm)
                Hg eq_refl (fun o => find_remove_other nm kids o Hs) other Hnp)
      as [H|[p' [o [x [s [-> [He [Eo [H1 H2]]]]]]]]]; [exact H|].
    exfalso. apply Hnq. exists (x :: s).
    replace (p' ++ o :: x :: s) with ((p' ++ [o]) ++ x :: s) by (rewrite <- app_assoc; reflexivity).
    apply chain_equiv_app; [|apply chain_equiv_refl].
    apply chain_equiv_app; [exact He|]. constructor; [apply cmp_eq_sym, Eo | constructor].
Qed.

Theorem create_then_found :
  forall t now p t' names,
    wf_node t ->
    spec_step t now (SCreateStorage p) = (t', Ok SVUnit) ->
    name_chain_from_path p = Ok names ->
    get t names = None /\
    get t' names = Some (new_dir now) /\
    (exists m, get t' names = Some (Dir m [])) /\
    (forall other, ~ chain_prefix other names -> get t' other = get t other).
Proof.
  intros t now p t' names _ H Hp.
  unfold spec_step, with_names in H. rewrite Hp in H. unfold create_storage_at in H.
  destruct (get t names) eqn:Eg; [discriminate|].
  destruct (lastN names) as [nm|] eqn:El; [|discriminate].
  destruct (validate_name nm); try discriminate.
  destruct (get t (parent_of names)) as [[st bs|m kids]|] eqn:Epar; try discriminate.
  injection H as <-.
  pose proof (get_last_none t names nm m kids Eg El Epar) as Hn.
  destruct (insert_at_found t (parent_of names) nm (new_dir now) m kids Epar Hn
              (fun x s => eq_refl)) as [H1 H2].
  unfold parent_of in H1, H2. rewrite <- (lastN_some _ _ _ El) in H1, H2.
  split; [reflexivity|]. split; [exact H1|]. split; [eexists; exact H1 | exact H2].
Qed.

Theorem create_stream_then_found :
  forall t now p ow t' names,
    wf_node t ->
    spec_step t now (SCreateStream p ow) = (t', Ok SVUnit) ->
    name_chain_from_path p = Ok names ->
    (exists st, get t' names = Some (Leaf st [])) /\
    (forall other, ~ chain_prefix other names -> get t' other = get t other).
Proof.
  intros t now p ow t' names _ H Hp.
  unfold spec_step, with_names in H. rewrite Hp in H.
  destruct (get t names) as [[st bs|m kids]|] eqn:Eg; try discriminate.
  - (* truncation of an existing stream *)
    destruct ow; [|discriminate]. injection H as <-. split.
    + exists st. apply (get_update_same t names (fun _ => Leaf st []) _ Eg).
    + intros other Hnp.
      destruct (chain_trichotomy names other) as [Hd|[Hq|[p' [s [-> [Hs He]]]]]].
      * apply get_update_other, Hd.
      * contradiction.
      * rewrite (get_update_ext names t _ _ p' s Eg He).
        rewrite get_app, <- (get_equiv names p' He), Eg.
        destruct s; [congruence | reflexivity].
  - destruct (lastN names) as [nm|] eqn:El; [|discriminate].
    destruct (validate_name nm); try discriminate.
    destruct (get t (parent_of names)) as [[st bs|m kids]|] eqn:Epar; try discriminate.
    injection H as <-.
    pose proof (get_last_none t names nm m kids Eg El Epar) as Hn.
    destruct (insert_at_found t (parent_of names) nm (Leaf 0 []) m kids Epar Hn
                (fun x s => eq_refl)) as [H1 H2].
    unfold parent_of in H1, H2. rewrite <- (lastN_some _ _ _ El) in H1, H2.
    split; [exists 0; exact H1 | exact H2].
Qed.

Theorem remove_stream_then_gone :
  forall t now p t' names,
    wf_node t -> is_leaf t = false ->
    spec_step t now (SRemoveStream p) = (t', Ok SVUnit) ->
    name_chain_from_path p = Ok names ->
    get t' names = None /\
    (forall other, ~ chain_prefix other names -> get t' other = get t other).
Proof.
  intros t now p t' names Hwf Hroot H Hp.
  unfold spec_step, with_names in H. rewrite Hp in H.
  destruct (get t names) as [[st bs|m kids]|] eqn:Eg; try discriminate.
  injection H as <-. unfold remove_at.
  destruct (lastN names) as [nm|] eqn:El.
  - destruct (get_last_some t names nm _ Eg El) as [m [kids [k [Epar Ef]]]].
    assert (Hs : sorted_kids kids).
    { pose proof (wf_get _ _ _ Hwf Epar) as Hw. inversion Hw; assumption. }
    destruct (remove_at_gone t (parent_of names) nm k _ m kids Epar Hs Ef (fun x s => eq_refl))
      as [H1 H2].
    unfold parent_of in H1, H2. rewrite <- (lastN_some _ _ _ El) in H1, H2.
    split; assumption.
  - apply lastN_none in El. subst names. simpl in Eg. injection Eg as ->. discriminate.
Qed.

Theorem remove_storage_then_gone :
  forall t now p t' names,
    wf_node t ->
    spec_step t now (SRemoveStorage p) = (t', Ok SVUnit) ->
    name_chain_from_path p = Ok names ->
    get t' names = None /\
    (forall other, ~ chain_prefix other names -> get t' other = get t other).
Proof.
  intros t now p t' names Hwf H Hp.
  unfold spec_step, with_names in H. rewrite Hp in H.
  destruct (get t names) as [[st bs|m0 kids0]|] eqn:Eg; try discriminate.
  destruct names as [|n0 r0] eqn:En; [discriminate|]. rewrite <- En in *.
  destruct kids0; [|discriminate].
  injection H as <-. unfold remove_at.
  destruct (lastN names) as [nm|] eqn:El.
  - destruct (get_last_some t names nm _ Eg El) as [m [kids [k [Epar Ef]]]].
    assert (Hs : sorted_kids kids).
    { pose proof (wf_get _ _ _ Hwf Epar) as Hw. inversion Hw; assumption. }
    destruct (remove_at_gone t (parent_of names) nm k _ m kids Epar Hs Ef (fun x s => eq_refl))
      as [H1 H2].
    unfold parent_of in H1, H2. rewrite <- (lastN_some _ _ _ El) in H1, H2.
    split; assumption.
  - apply lastN_none in El. congruence.
Qed.

(* recursive removal below the root: the subtree vanishes, unrelated chains stay *)
Theorem remove_storage_all_then_gone :
  forall t now p t' names,
    wf_node t -> names <> [] ->
    spec_step t now (SRemoveStorageAll p) = (t', Ok SVUnit) ->
    name_chain_from_path p = Ok names ->
    (forall other, chain_prefix names other -> get t' other = None) /\
    (forall other, ~ chain_prefix other names -> ~ chain_prefix names other ->
                   get t' other = get t other).
Proof.
  intros t now p t' names Hwf Hne H Hp.
  unfold spec_step, with_names in H. rewrite Hp in H.
  destruct (get t names) as [n|] eqn:Eg; try discriminate.
  destruct names as [|n0 r0] eqn:En; [congruence|]. rewrite <- En in *.
  injection H as <-. unfold remove_at.
  destruct (lastN names) as [nm|] eqn:El.
  - destruct (get_last_some t names nm _ Eg El) as [m [kids [k [Epar Ef]]]].
    assert (Hs : sorted_kids kids).
    { pose proof (wf_get _ _ _ Hwf Epar) as Hw. inversion Hw; assumption. }
    destruct (remove_at_subtree t (parent_of names) nm k _ m kids Epar Hs Ef) as [H1 H2].
    unfold parent_of in H1, H2. rewrite <- (lastN_some _ _ _ El) in H1, H2.
    split; assumption.
  - apply lastN_none in El. congruence.
Qed.

(* ---- the root stays a storage ---- *)

Lemma update_root_dir :
  forall t names f,
    is_leaf t = false -> (forall m k, is_leaf (f (Dir m k)) = false) ->
    is_leaf (update t names f) = false.
Proof.
  intros t names f Ht Hf. destruct t as [st bs|m kids]; [discriminate|].
  destruct names as [|x r]; simpl; [apply Hf|].
  destruct (find_kid x kids) as [[k c]|]; reflexivity.
Qed.

Lemma create_storage_at_root_dir :
  forall t names now, is_leaf t = false -> is_leaf (fst (create_storage_at t names now)) = false.
Proof.
  intros t names now Ht. unfold create_storage_at.
  repeat (break_match; try exact Ht). simpl. apply update_root_dir; [exact Ht | reflexivity].
Qed.

Lemma create_all_root_dir :
  forall pres t now, is_leaf t = false -> is_leaf (fst (create_all t pres now)) = false.
Proof.
  induction pres as [|pre rest IH]; intros t now Ht; simpl; [exact Ht|].
  assert (Hstep : is_leaf (fst (match create_storage_at t pre now with
                                | (t', Ok _) => create_all t' rest now
                                | other => other end)) = false).
  { pose proof (create_storage_at_root_dir t pre now Ht) as Hc.
    destruct (create_storage_at t pre now) as [t' r]. simpl in Hc.
    destruct r; try exact Hc. apply IH, Hc. }
  destruct (get t pre) as [[st bs|m kids]|]; try exact Hstep. apply IH, Ht.
Qed.

Theorem root_dir_spec_step :
  forall t now o, is_leaf t = false -> is_leaf (fst (spec_step t now o)) = false.
Proof.
  intros t now o Ht.
  destruct o; unfold spec_step, with_names; cbv beta iota; try exact Ht;
    (destruct (name_chain_from_path p) as [names| | |]; [|exact Ht..]).
  - apply create_storage_at_root_dir, Ht.
  - destruct (all_valid names); [apply create_all_root_dir, Ht | exact Ht].
  - repeat (break_match; try exact Ht). simpl. unfold remove_at.
    break_match; [|exact Ht]. apply update_root_dir; [exact Ht | reflexivity].
  - destruct (get t names); [|exact Ht]. destruct names; simpl.
    + destruct t; [discriminate | reflexivity].
    + unfold remove_at. break_match; [|exact Ht]. apply update_root_dir; [exact Ht | reflexivity].
  - destruct (get t names) as [[st bs|m kids]|] eqn:Eg; try exact Ht.
    + destruct overwrite; [|exact Ht]. simpl. destruct names as [|x r].
      * simpl in Eg. injection Eg as ->. discriminate.
      * destruct t as [|m kids]; [discriminate|]. simpl.
        destruct (find_kid x kids) as [[k c]|]; reflexivity.
    + repeat (break_match; try exact Ht). simpl.
      apply update_root_dir; [exact Ht | reflexivity].
  - destruct (get t names) as [[st bs0|m kids]|] eqn:Eg; try exact Ht. simpl.
    destruct names as [|x r].
    + simpl in Eg. injection Eg as ->. discriminate.
    + destruct t as [|m kids]; [discriminate|]. simpl.
      destruct (find_kid x kids) as [[k c]|]; reflexivity.
  - repeat (break_match; try exact Ht).
  - repeat (break_match; try exact Ht). simpl. unfold remove_at.
    break_match; [|exact Ht]. apply update_root_dir; [exact Ht | reflexivity].
  - repeat (break_match; try exact Ht); simpl; apply update_root_dir; [exact Ht | reflexivity].
  - repeat (break_match; try exact Ht); simpl; apply update_root_dir; [exact Ht | reflexivity].
  - repeat (break_match; try exact Ht); simpl; apply update_root_dir; [exact Ht | reflexivity].
  - repeat (break_match; try exact Ht); simpl; apply update_root_dir; [exact Ht | reflexivity].
  - repeat (break_match; try exact Ht).
  - repeat (break_match; try exact Ht).
  - repeat (break_match; try exact Ht).
  - repeat (break_match; try exact Ht).
Qed.

(* ---- why the statements above exclude prefixes, and need a storage root ---- *)

(* "every chain not equivalent to names is untouched" is false: the parent changes *)
Example create_then_found_naive_false :
  exists t' names,
    spec_step empty_tree 0 (SCreateStorage [47; 97]) = (t', Ok SVUnit) /\
    name_chain_from_path [47; 97] = Ok names /\
    ~ chain_equiv [] names /\ get t' [] <> get empty_tree [].
Proof.
  eexists. eexists. split; [vm_compute; reflexivity|]. split; [vm_compute; reflexivity|].
  split; [intro H; inversion H | vm_compute; discriminate].
Qed.

(* on a tree whose root is a stream, remove_stream "/" answers Ok and removes nothing *)
Example remove_stream_root_leaf :
  spec_step (Leaf 0 []) 0 (SRemoveStream [47]) = (Leaf 0 [], Ok SVUnit) /\
  name_chain_from_path [47] = Ok [] /\ get (Leaf 0 []) [] <> None.
Proof. split; [vm_compute; reflexivity|]. split; [vm_compute; reflexivity | discriminate]. Qed.

(* ------------------------------------------------------------------ *)
Print Assumptions find_insert_same.
Print Assumptions insert_sorted.
Print Assumptions remove_sorted.
Print Assumptions find_remove.
Print Assumptions replace_sorted.
Print Assumptions find_replace.
Print Assumptions find_kid_equiv.
Print Assumptions find_kid_case_insensitive.
Print Assumptions find_kid_stored.
Print Assumptions insert_perm.
Print Assumptions remove_perm.
Print Assumptions sorted_perm_unique.
Print Assumptions siblings_coexist.
Print Assumptions list_kids_sorted.
Print Assumptions get_update_same.
Print Assumptions get_update_other.
Print Assumptions wf_spec_step.
Print Assumptions spec_refused_no_effect.
Print Assumptions spec_case_insensitive.
Print Assumptions create_then_found.
Print Assumptions create_stream_then_found.
Print Assumptions remove_stream_then_gone.
Print Assumptions remove_storage_then_gone.
Print Assumptions remove_storage_all_then_gone.
Print Assumptions root_dir_spec_step.
