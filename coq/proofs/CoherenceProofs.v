(* CoherenceProofs.v — property C02 "write-through": every FAT mutation writes
   the changed cell to the file immediately, so the cached FAT always equals
   what the FAT sectors on disk say.
   Stdlib only; no axioms, no admits. *)
From Coq Require Import List NArith Lia Bool ZifyN ZifyBool.
From Cfb.model Require Import Base Names DirEnt State Alloc Open.
From Cfb.gen Require Import Consts.
From Cfb.proofs Require Import ChainProofs ReuseProofs.
From Cfb.proofs Require CodecProofs WalkProofs.
Import ListNotations.
Open Scope N_scope.

Ltac Zify.zify_post_hook ::= Z.div_mod_to_equations.

(* ------------------------------------------------------------------ *)
(* definitions                                                         *)
(* ------------------------------------------------------------------ *)

(* the 32-bit cell of FAT index [i] as stored in sector [f] *)
Definition cell_at (s : cstate) (f i : N) : N :=
  le_val (takeN 4 (dropN (4 * (i mod fat_per_sector s)) (sector_bytes s f))).

Definition fat_cell_on_disk (s : cstate) (i : N) : option N :=
  match nthN (difat s) (i / fat_per_sector s) with
  | Some f => Some (cell_at s f i)
  | None => None
  end.

Definition FatCoherent (s : cstate) : Prop :=
  forall i v, nthN (fat s) i = Some v ->
    exists f, nthN (difat s) (i / fat_per_sector s) = Some f /\ f < nsect s /\
              lenN (sector_bytes s f) = slen s /\ cell_at s f i = v.

Lemma FatCoherent_on_disk : forall s, FatCoherent s ->
  forall i v, nthN (fat s) i = Some v -> fat_cell_on_disk s i = Some v.
Proof.
  intros s H i v Hi. destruct (H i v Hi) as (f & Hd & _ & _ & Hc).
  unfold fat_cell_on_disk. rewrite Hd, Hc. reflexivity.
Qed.

(* ------------------------------------------------------------------ *)
(* helpers                                                             *)
(* ------------------------------------------------------------------ *)

Lemma NoDup_nthN_inj : forall (l : list N) i j x,
  NoDup l -> nthN l i = Some x -> nthN l j = Some x -> i = j.
Proof.
  induction l as [|y l IH]; intros i j x Hnd Hi Hj; [discriminate|].
  inversion Hnd as [|? ? Hni Hnd']; subst.
  destruct (N.eq_dec i 0) as [Ei|Ei]; destruct (N.eq_dec j 0) as [Ej|Ej].
  - lia.
  - subst i. cbn [nthN N.eqb] in Hi. injection Hi as ->.
    rewrite nthN_cons_pos in Hj by lia. apply nthN_In in Hj. contradiction.
  - subst j. cbn [nthN N.eqb] in Hj. injection Hj as ->.
    rewrite nthN_cons_pos in Hi by lia. apply nthN_In in Hi. contradiction.
  - rewrite nthN_cons_pos in Hi, Hj by lia.
    pose proof (IH _ _ _ Hnd' Hi Hj). lia.
Qed.

Lemma cell_at_ext : forall s s' f i,
  sector_bytes s' f = sector_bytes s f -> ver s' = ver s -> cell_at s' f i = cell_at s f i.
Proof.
  intros s s' f i Hb Hv. unfold cell_at, fat_per_sector, slen. rewrite Hb, Hv. reflexivity.
Qed.

(* a state that agrees with a coherent one on the FAT, the DIFAT and the bytes
   of every FAT sector is coherent *)
Lemma coherent_frame : forall s s',
  FatCoherent s ->
  fat s' = fat s -> difat s' = difat s -> ver s' = ver s -> nsect s <= nsect s' ->
  (forall f, In f (difat s) -> f < nsect s -> lenN (sector_bytes s f) = slen s ->
             sector_bytes s' f = sector_bytes s f) ->
  FatCoherent s'.
Proof.
  intros s s' Hc Ef Ed Ev En Hb i v Hi. rewrite Ef in Hi.
  destruct (Hc i v Hi) as (f & Hd & Hf & Hl & Hcell).
  assert (Efps : fat_per_sector s' = fat_per_sector s)
    by (unfold fat_per_sector, slen; rewrite Ev; reflexivity).
  assert (Hin : In f (difat s)) by (eapply nthN_In; exact Hd).
  exists f. rewrite Ed, Efps. split; [exact Hd|]. split; [lia|].
  split; [rewrite (Hb f Hin Hf Hl); unfold slen; rewrite Ev; exact Hl|].
  rewrite (cell_at_ext s s' f i (Hb f Hin Hf Hl) Ev). exact Hcell.
Qed.

(* ------------------------------------------------------------------ *)
(* C1: set_fat writes exactly the cell                                  *)
(* ------------------------------------------------------------------ *)

Lemma take4 : forall v (X : list byte), takeN 4 X = takeN (lenN (le_bytes 4 v)) X.
Proof. intros. rewrite CodecProofs.lenN_le_bytes4. reflexivity. Qed.

Lemma cell_at_wr_same : forall s f index v,
  lenN (sector_bytes s f) = slen s -> v <= u32_max ->
  cell_at (wr s f (cell_off s index) (le_bytes 4 v)) f index = v.
Proof.
  intros s f index v Hl Hv. unfold cell_at.
  change (fat_per_sector (wr s f (cell_off s index) (le_bytes 4 v))) with (fat_per_sector s).
  fold (cell_off s index).
  rewrite sector_bytes_wr_same by exact Hl.
  rewrite (take4 v). rewrite spliceN_read_same.
  - apply CodecProofs.le_val_le_bytes4. exact Hv.
  - pose proof (cell_off_fits s index). blia.
Qed.

Lemma cell_at_wr_other_cell : forall s f index v i,
  lenN (sector_bytes s f) = slen s ->
  i mod fat_per_sector s <> index mod fat_per_sector s ->
  cell_at (wr s f (cell_off s index) (le_bytes 4 v)) f i = cell_at s f i.
Proof.
  intros s f index v i Hl Hne. unfold cell_at.
  change (fat_per_sector (wr s f (cell_off s index) (le_bytes 4 v))) with (fat_per_sector s).
  rewrite sector_bytes_wr_same by exact Hl.
  pose proof (cell_off_fits s index) as Hfit. pose proof (cell_off_fits s i) as Hfit2.
  unfold cell_off in *.
  destruct (N.lt_ge_cases (i mod fat_per_sector s) (index mod fat_per_sector s)) as [Hlt|Hge].
  - rewrite spliceN_read_before; [reflexivity | blia | lia].
  - rewrite spliceN_read_after; [reflexivity | |];
      rewrite CodecProofs.lenN_le_bytes4; blia.
Qed.

Lemma cell_at_wr_other_sector : forall s f off bs f' i,
  f' <> f -> cell_at (wr s f off bs) f' i = cell_at s f' i.
Proof.
  intros. apply cell_at_ext; [|reflexivity]. apply sector_bytes_wr_other. assumption.
Qed.

Lemma set_fat_state_coherent : forall s index v f,
  FatCoherent s -> v <= u32_max -> index <= lenN (fat s) ->
  nthN (difat s) (index / fat_per_sector s) = Some f ->
  f < nsect s -> lenN (sector_bytes s f) = slen s ->
  NoDup (difat s) ->
  FatCoherent (set_fat_state s index v f).
Proof.
  intros s index v f Hc Hv Hidx Hd Hf Hl Hnd i w Hi.
  pose proof (fps_pos s) as Hpos.
  pose proof (set_fat_state_fields s index v f)
    as (Ev & En & _ & Ed & Efat & _ & _ & _ & _ & Esl & Efps & _).
  rewrite Efat in Hi. rewrite Ed, Efps, En, Esl.
  assert (Hfit : cell_off s index + lenN (le_bytes 4 v) <= slen s)
    by (rewrite CodecProofs.lenN_le_bytes4; apply cell_off_fits).
  assert (Hlen : forall g, lenN (sector_bytes (set_fat_state s index v f) g)
                           = lenN (sector_bytes s g)).
  { intro g. unfold set_fat_state.
    rewrite (sector_bytes_ext (wr s f (cell_off s index) (le_bytes 4 v))) by reflexivity.
    apply lenN_sector_bytes_wr; assumption. }
  assert (Hcell : forall g j, cell_at (set_fat_state s index v f) g j
                  = cell_at (wr s f (cell_off s index) (le_bytes 4 v)) g j).
  { intros g j. apply cell_at_ext; [|reflexivity]. apply sector_bytes_ext. reflexivity. }
  destruct (N.eq_dec i index) as [->|Hne].
  - rewrite nthN_fat_set_same in Hi by exact Hidx. injection Hi as <-.
    exists f. split; [exact Hd|]. split; [exact Hf|]. split; [rewrite Hlen; exact Hl|].
    rewrite Hcell. apply cell_at_wr_same; assumption.
  - rewrite nthN_fat_set_other in Hi by assumption.
    destruct (Hc i w Hi) as (g & Hdg & Hg & Hlg & Hcg).
    exists g. split; [exact Hdg|]. split; [exact Hg|]. split; [rewrite Hlen; exact Hlg|].
    rewrite Hcell. destruct (N.eq_dec g f) as [->|Hgf].
    + pose proof (NoDup_nthN_inj _ _ _ _ Hnd Hdg Hd) as Ediv.
      rewrite cell_at_wr_other_cell; [exact Hcg | exact Hl |].
      intro Em. apply Hne.
      rewrite (N.div_mod i (fat_per_sector s)), (N.div_mod index (fat_per_sector s)) by lia.
      rewrite Ediv, Em. reflexivity.
    + rewrite cell_at_wr_other_sector by exact Hgf. exact Hcg.
Qed.

Theorem set_fat_coherent : forall s s' index v f,
  FatCoherent s -> v < 2 ^ 32 -> index <= lenN (fat s) ->
  nthN (difat s) (index / fat_per_sector s) = Some f ->
  f < nsect s -> lenN (sector_bytes s f) = slen s ->
  NoDup (difat s) ->
  set_fat index v s = (s', Ok tt) ->
  FatCoherent s' /\
  fat s' = (if index =? lenN (fat s) then fat s ++ [v] else updN (fat s) index v) /\
  difat s' = difat s /\ nsect s' = nsect s /\
  (forall g, g <> f -> sector_bytes s' g = sector_bytes s g) /\
  sector_bytes s' f
    = takeN (4 * (index mod fat_per_sector s)) (sector_bytes s f) ++ le_bytes 4 v ++
      dropN (4 * (index mod fat_per_sector s) + 4) (sector_bytes s f).
Proof.
  intros s s' index v f Hc Hv Hidx Hd Hf Hl Hnd H.
  rewrite (set_fat_exec s index v f Hidx Hd Hf Hl) in H. injection H as <-.
  assert (Hv' : v <= u32_max).
  { assert (E : 2 ^ 32 = 4294967296) by reflexivity. rewrite E in Hv. unfold u32_max. lia. }
  split; [apply set_fat_state_coherent; assumption|].
  split; [reflexivity|]. split; [reflexivity|]. split; [reflexivity|].
  split.
  - intros g Hg. unfold set_fat_state.
    rewrite (sector_bytes_ext (wr s f (cell_off s index) (le_bytes 4 v))) by reflexivity.
    apply sector_bytes_wr_other. exact Hg.
  - unfold set_fat_state.
    rewrite (sector_bytes_ext (wr s f (cell_off s index) (le_bytes 4 v))) by reflexivity.
    rewrite sector_bytes_wr_same by exact Hl.
    rewrite spliceN_inside by (pose proof (cell_off_fits s index); blia).
    rewrite CodecProofs.lenN_le_bytes4. reflexivity.
Qed.

(* ------------------------------------------------------------------ *)
(* C2: writes to non-FAT sectors and to the header keep coherence        *)
(* ------------------------------------------------------------------ *)

Lemma wr_coherent : forall s sid off bs,
  FatCoherent s -> ~ In sid (difat s) -> FatCoherent (wr s sid off bs).
Proof.
  intros s sid off bs Hc Hni.
  apply (coherent_frame s); try reflexivity; [exact Hc|].
  intros f Hin _ _. apply sector_bytes_wr_other. intro E. subst f. contradiction.
Qed.

Theorem data_write_keeps_fat : forall s s' sid off bs,
  FatCoherent s -> ~ In sid (difat s) ->
  sid < nsect s -> lenN (sector_bytes s sid) = slen s -> off + lenN bs <= slen s ->
  sector_write sid off bs s = (s', Ok tt) ->
  FatCoherent s' /\ fat s' = fat s.
Proof.
  intros s s' sid off bs Hc Hni Hs Hl Hfit H.
  rewrite (sector_write_exec s sid off bs Hs Hl Hfit) in H. injection H as <-.
  split; [apply wr_coherent; assumption | reflexivity].
Qed.

(* the same without any assumption on the target sector or on the outcome:
   whatever sector_write does (fail the bounds check, pad the last sector,
   append, overwrite), it never touches a full-length sector other than [sid] *)
Lemma nthN_pad_last : forall sl im k x,
  nthN im k = Some x -> lenN x = sl -> nthN (img_pad_last sl im) k = Some x.
Proof.
  intros sl im k x Hk Hx. unfold img_pad_last.
  destruct (lastN im) as [sec|] eqn:El; [|exact Hk].
  destruct (lenN sec <? sl) eqn:Es; [|exact Hk].
  pose proof (lastN_Some_snoc _ _ _ El) as E.
  pose proof (nthN_Some_lt _ _ _ _ Hk) as Hlt.
  rewrite E in Hk, Hlt. rewrite lenN_app in Hlt. cbn [lenN] in Hlt.
  destruct (N.lt_ge_cases k (lenN (pop_last im))) as [Hl|Hg].
  - rewrite nthN_app_l in Hk by exact Hl. rewrite nthN_app_l by exact Hl. exact Hk.
  - rewrite nthN_app_r in Hk by exact Hg.
    replace (k - lenN (pop_last im)) with 0 in Hk by lia.
    cbn [nthN N.eqb] in Hk. injection Hk as <-. blia.
Qed.

Lemma nthN_img_write_other : forall im j off bs k x,
  nthN im k = Some x -> k <> j -> nthN (img_write im j off bs) k = Some x.
Proof.
  intros im j off bs k x Hk Hne. unfold img_write.
  destruct (nthN im j) as [sec|].
  - rewrite nthN_updN_other by lia. exact Hk.
  - rewrite nthN_app_l; [exact Hk|]. eapply nthN_Some_lt. exact Hk.
Qed.

Lemma sector_bytes_Some : forall s f, 0 < lenN (sector_bytes s f) ->
  nthN (img s) (f + 1) = Some (sector_bytes s f).
Proof.
  intros s f H. unfold sector_bytes in *. destruct (nthN (img s) (f + 1)); [reflexivity|].
  cbn [lenN] in H. lia.
Qed.

Theorem sector_write_keeps_fat : forall s s' sid off bs r,
  FatCoherent s -> ~ In sid (difat s) ->
  sector_write sid off bs s = (s', r) ->
  FatCoherent s' /\ fat s' = fat s /\ difat s' = difat s.
Proof.
  intros s s' sid off bs r Hc Hni H.
  unfold sector_write, seek_sector, bind, get, panic, fail, ret, modify in H.
  destruct (slen s <? off); [injection H as <- _; repeat split; exact Hc|].
  destruct (nsect s <=? sid); [injection H as <- _; repeat split; exact Hc|].
  injection H as <- _. split; [|split; reflexivity].
  apply (coherent_frame s); try reflexivity; [exact Hc|].
  intros f Hin Hf Hl. pose proof (slen_pos s) as Hpos.
  assert (Hne : f + 1 <> sid + 1) by (intro E; apply Hni; replace sid with f by lia; exact Hin).
  pose proof (sector_bytes_Some s f ltac:(lia)) as Hnth.
  unfold sector_bytes at 1. cbn [img w_img].
  rewrite (nthN_img_write_other _ (sid + 1) off bs (f + 1) (sector_bytes s f)); [reflexivity| |exact Hne].
  destruct (lenN (img s) <=? sid + 1); [|exact Hnth].
  apply nthN_pad_last; assumption.
Qed.

Theorem header_write_keeps_fat : forall s s' off bs r,
  FatCoherent s -> header_write off bs s = (s', r) ->
  FatCoherent s' /\ fat s' = fat s /\ difat s' = difat s.
Proof.
  intros s s' off bs r Hc H. unfold header_write, panic, modify in H.
  destruct (HEADER_LEN <=? off); [injection H as <- _; repeat split; exact Hc|].
  injection H as <- _. split; [|split; reflexivity].
  apply (coherent_frame s); try reflexivity; [exact Hc|].
  intros f Hin Hf Hl. pose proof (slen_pos s) as Hpos.
  pose proof (sector_bytes_Some s f ltac:(lia)) as Hnth.
  unfold sector_bytes at 1. cbn [img w_img].
  rewrite (nthN_img_write_other _ 0 off bs (f + 1) (sector_bytes s f)); [reflexivity|exact Hnth|lia].
Qed.

(* ------------------------------------------------------------------ *)
(* C3: the allocator operations keep coherence                          *)
(* ------------------------------------------------------------------ *)

(* on a coherent FAT, overwriting an existing cell always succeeds and writes
   through: no side condition besides distinct FAT sectors *)
Theorem set_fat_existing_coherent : forall s index v,
  FatCoherent s -> NoDup (difat s) -> v < 2 ^ 32 -> index < lenN (fat s) ->
  exists f,
    nthN (difat s) (index / fat_per_sector s) = Some f /\ f < nsect s /\
    lenN (sector_bytes s f) = slen s /\
    set_fat index v s = (set_fat_state s index v f, Ok tt) /\
    FatCoherent (set_fat_state s index v f) /\
    fat (set_fat_state s index v f) = updN (fat s) index v.
Proof.
  intros s index v Hc Hnd Hv Hidx.
  destruct (WalkProofs.nthN_lt_Some (fat s) index Hidx) as [w Hw].
  destruct (Hc index w Hw) as (f & Hd & Hf & Hl & _).
  exists f.
  pose proof (set_fat_exec s index v f ltac:(lia) Hd Hf Hl) as E.
  destruct (set_fat_coherent s _ index v f Hc Hv ltac:(lia) Hd Hf Hl Hnd E)
    as (Hc' & Efat & _).
  split; [exact Hd|]. split; [exact Hf|]. split; [exact Hl|].
  split; [exact E|]. split; [exact Hc'|].
  rewrite Efat. destruct (index =? lenN (fat s)) eqn:Ei; [lia | reflexivity].
Qed.

Lemma w_free_coherent : forall s l, FatCoherent s -> FatCoherent (w_free s l).
Proof.
  intros s l Hc. apply (coherent_frame s); try reflexivity. exact Hc.
Qed.

Theorem free_sector_coherent : forall s x,
  FatCoherent s -> NoDup (difat s) ->
  x < lenN (fat s) -> nthN (fat s) x <> Some FREE_SECTOR ->
  exists s',
    free_sector x s = (s', Ok tt) /\ FatCoherent s' /\
    fat s' = updN (fat s) x FREE_SECTOR /\ free s' = free s ++ [x] /\
    difat s' = difat s /\ nsect s' = nsect s.
Proof.
  intros s x Hc Hnd Hx Hv.
  destruct (set_fat_existing_coherent s x FREE_SECTOR Hc Hnd ltac:(reflexivity) Hx)
    as (f & Hd & Hf & Hl & E & Hc1 & Efat).
  exists (free_state s x f).
  split; [apply free_sector_exec; assumption|].
  split; [unfold free_state; apply w_free_coherent; exact Hc1|].
  split; [exact Efat|]. repeat split.
Qed.

(* the reuse branch of allocate_sector: init_sector overwrites the whole
   sector, so the reused sector must not itself be a FAT sector *)
Theorem allocate_reuse_coherent : forall i s sid,
  FatCoherent s -> NoDup (difat s) ->
  lastN (free s) = Some sid -> sid < lenN (fat s) -> sid < nsect s ->
  lenN (sector_bytes s sid) = slen s ->
  ~ In sid (difat s) ->
  exists s',
    allocate_sector i s = (s', Ok sid) /\ FatCoherent s' /\
    fat s' = updN (fat s) sid END_OF_CHAIN /\ free s' = pop_last (free s) /\
    difat s' = difat s /\ nsect s' = nsect s.
Proof.
  intros i s sid Hc Hnd Hlast Hsf Hs Hl Hni.
  set (s1 := w_free s (pop_last (free s))).
  assert (Hc1 : FatCoherent s1) by (apply w_free_coherent; exact Hc).
  destruct (set_fat_existing_coherent s1 sid END_OF_CHAIN Hc1 Hnd ltac:(reflexivity) Hsf)
    as (f & Hd & Hf & Hlf & E & Hc2 & Efat).
  set (s2 := set_fat_state s1 sid END_OF_CHAIN f) in *.
  assert (Hne : sid <> f) by (intro Eq; apply Hni; rewrite Eq; eapply nthN_In; exact Hd).
  assert (Hl2 : lenN (sector_bytes s2 sid) = slen s2).
  { unfold s2, set_fat_state.
    rewrite (sector_bytes_ext (wr s1 f (cell_off s1 sid) (le_bytes 4 END_OF_CHAIN))) by reflexivity.
    rewrite sector_bytes_wr_other by exact Hne. exact Hl. }
  exists (init_state s2 sid i).
  split.
  { unfold allocate_sector. rewrite bind_get, Hlast, bind_modify. fold s1.
    rewrite (bind_exec _ _ _ _ _ E).
    rewrite (bind_exec _ _ _ _ _ (init_sector_exec s2 sid i Hs Hl2)). reflexivity. }
  split; [unfold init_state; apply wr_coherent; [exact Hc2 | exact Hni]|].
  split; [exact Efat|]. repeat split.
Qed.

(* ---- the combined allocator invariant ---- *)
Definition free_not_fat (s : cstate) : Prop := forall x, In x (free s) -> ~ In x (difat s).

Record AllocCoh (s : cstate) : Prop := mkAllocCoh {
  ac_wf : AllocWf s;
  ac_coh : FatCoherent s;
  ac_nodup : NoDup (difat s);
  ac_free : free_not_fat s
}.

Lemma coherent_backed : forall s, FatCoherent s -> backed s.
Proof.
  intros s Hc j Hj. destruct (WalkProofs.nthN_lt_Some (fat s) j Hj) as [w Hw].
  destruct (Hc j w Hw) as (f & Hd & Hf & _). exists f. split; assumption.
Qed.

Theorem allocate_reuse_preserves : forall i s,
  AllocCoh s -> free s <> [] ->
  exists sid s',
    allocate_sector i s = (s', Ok sid) /\ lastN (free s) = Some sid /\
    nsect s' = nsect s /\ AllocCoh s'.
Proof.
  intros i s [Hwf Hc Hnd Hfn] Hne.
  destruct (allocate_reuses_wf i s Hwf Hne) as (sid & s' & E & Hl & Hfr & Hn & Hwf').
  assert (Hin : In sid (free s)).
  { rewrite (lastN_Some_snoc _ _ _ Hl). apply in_or_app. right. left. reflexivity. }
  destruct (wf_free s Hwf sid Hin) as [Hs Hsf].
  destruct (allocate_reuse_coherent i s sid Hc Hnd Hl Hsf Hs (wf_full s Hwf sid Hs) (Hfn sid Hin))
    as (s'' & E' & Hc' & _ & _ & Ed & _).
  rewrite E in E'. injection E' as <-.
  exists sid, s'. split; [exact E|]. split; [exact Hl|]. split; [exact Hn|].
  constructor; [exact Hwf' | exact Hc' | rewrite Ed; exact Hnd |].
  intros x Hx. rewrite Ed. apply Hfn. rewrite Hfr in Hx. apply In_pop_last. exact Hx.
Qed.

Theorem free_sector_preserves : forall s x,
  AllocCoh s -> x < nsect s -> x < lenN (fat s) -> nthN (fat s) x <> Some FREE_SECTOR ->
  ~ In x (difat s) ->
  exists s', free_sector x s = (s', Ok tt) /\ free s' = free s ++ [x] /\
             nsect s' = nsect s /\ AllocCoh s'.
Proof.
  intros s x [Hwf Hc Hnd Hfn] Hx Hxf Hv Hni.
  destruct (free_sector_coherent s x Hc Hnd Hxf Hv) as (s' & E & Hc' & Efat & Efr & Ed & En).
  destruct (free_then_allocate_no_growth IZero s x Hwf Hx Hxf Hv)
    as (s1 & _ & E1 & _ & _ & _ & _ & _ & _ & Hwf1 & _).
  rewrite E in E1. injection E1 as <-.
  exists s'. split; [exact E|]. split; [exact Efr|]. split; [exact En|].
  constructor; [exact Hwf1 | exact Hc' | rewrite Ed; exact Hnd |].
  intros y Hy. rewrite Ed. rewrite Efr in Hy. apply in_app_or in Hy.
  destruct Hy as [Hy|[<-|[]]]; [apply Hfn; exact Hy | exact Hni].
Qed.

(* ------------------------------------------------------------------ *)
(* C4: reading the FAT sectors back yields the cached FAT               *)
(* ------------------------------------------------------------------ *)

(* the loop of Open.open_model that reads every FAT sector listed in the DIFAT
   (a local [fix rd] there; transcribed here) *)
Fixpoint read_fat_cells (im : list (list byte)) (sl ns : N) (l : list N) : res (list N) :=
  match l with
  | [] => Ok []
  | sid :: t =>
    if ns <=? sid then Err EInvalidData else
    rbind (read_sector_u32s im sl sid (sl / 4)) (fun cells =>
    rbind (read_fat_cells im sl ns t) (fun r => Ok (cells ++ r)))
  end.

Lemma takeN4_cons : forall A (a b c d : A) t, takeN 4 (a :: b :: c :: d :: t) = [a; b; c; d].
Proof.
  intros. change 4 with (N.succ (N.succ (N.succ (N.succ 0)))).
  rewrite !CodecProofs.takeN_succ_cons. rewrite takeN_0. reflexivity.
Qed.

Lemma dropN4_cons : forall A (a b c d : A) t, dropN 4 (a :: b :: c :: d :: t) = t.
Proof.
  intros. change 4 with (N.succ (N.succ (N.succ (N.succ 0)))).
  rewrite !CodecProofs.dropN_succ_cons. apply dropN_0.
Qed.

Lemma u32s_nth : forall j bs, 4 * j + 4 <= lenN bs ->
  nthN (u32s bs) j = Some (le_val (takeN 4 (dropN (4 * j) bs))).
Proof.
  induction j as [|j IH] using N.peano_ind; intros bs H;
    destruct bs as [|a [|b [|c [|d t]]]]; cbn [lenN] in H; try lia.
  - rewrite N.mul_0_r, dropN_0, takeN4_cons.
    cbn [u32s nthN N.eqb le_val]. f_equal. lia.
  - cbn [u32s]. rewrite CodecProofs.nthN_succ_cons.
    replace (4 * N.succ j) with (4 + 4 * j) by lia.
    rewrite <- dropN_dropN.
    rewrite dropN4_cons.
    apply IH. lia.
Qed.

Lemma lenN_u32s : forall k bs, lenN bs = 4 * k -> lenN (u32s bs) = k.
Proof.
  induction k as [|k IH] using N.peano_ind; intros bs H.
  - destruct bs; [reflexivity | cbn [lenN] in H; lia].
  - destruct bs as [|a [|b [|c [|d t]]]]; cbn [lenN] in H; try lia.
    cbn [u32s lenN]. rewrite (IH t) by lia. reflexivity.
Qed.

Lemma read_sector_full : forall s f,
  lenN (sector_bytes s f) = slen s ->
  read_sector_u32s (img s) (slen s) f (slen s / 4) = Ok (u32s (sector_bytes s f)).
Proof.
  intros s f Hl. pose proof (slen_pos s) as Hpos.
  unfold read_sector_u32s, img_read.
  rewrite (sector_bytes_Some s f) by lia. rewrite dropN_0.
  fold (fat_per_sector s). rewrite fps_slen.
  rewrite takeN_all by blia.
  destruct (lenN (sector_bytes s f) <? slen s) eqn:E; [blia | reflexivity].
Qed.

Lemma read_fat_cells_spec : forall s l,
  (forall f, In f l -> f < nsect s /\ lenN (sector_bytes s f) = slen s) ->
  exists cells,
    read_fat_cells (img s) (slen s) (nsect s) l = Ok cells /\
    lenN cells = fat_per_sector s * lenN l /\
    forall k f m, nthN l k = Some f -> m < fat_per_sector s ->
      nthN cells (k * fat_per_sector s + m)
      = Some (le_val (takeN 4 (dropN (4 * m) (sector_bytes s f)))).
Proof.
  intros s l. induction l as [|g t IH]; intro Hall.
  - exists []. split; [reflexivity|]. split; [cbn [lenN]; lia|]. intros; discriminate.
  - destruct (Hall g (or_introl eq_refl)) as [Hg Hlg].
    destruct IH as (r & Er & Lr & Nr); [intros f Hf; apply Hall; right; exact Hf|].
    pose proof (fps_slen s) as Hfs.
    assert (Lc : lenN (u32s (sector_bytes s g)) = fat_per_sector s)
      by (apply lenN_u32s; blia).
    exists (u32s (sector_bytes s g) ++ r). cbn [read_fat_cells].
    destruct (nsect s <=? g) eqn:E; [lia|].
    rewrite (read_sector_full s g Hlg). cbn [rbind]. rewrite Er. cbn [rbind].
    split; [reflexivity|]. split; [rewrite lenN_app, Lc, Lr; cbn [lenN]; lia|].
    intros k f m Hk Hm. destruct (N.eq_dec k 0) as [->|Hk0].
    + cbn [nthN N.eqb] in Hk. injection Hk as <-.
      rewrite N.mul_0_l, N.add_0_l. rewrite nthN_app_l by lia.
      apply u32s_nth. blia.
    + rewrite nthN_cons_pos in Hk by lia.
      rewrite nthN_app_r by (rewrite Lc; nia). rewrite Lc.
      replace (k * fat_per_sector s + m - fat_per_sector s)
        with (N.pred k * fat_per_sector s + m) by nia.
      apply Nr; assumption.
Qed.

Theorem fat_roundtrip_on_disk : forall s,
  FatCoherent s ->
  (forall f, In f (difat s) -> f < nsect s /\ lenN (sector_bytes s f) = slen s) ->
  exists cells,
    read_fat_cells (img s) (slen s) (nsect s) (difat s) = Ok cells /\
    lenN cells = fat_per_sector s * lenN (difat s) /\
    forall i, i < lenN (fat s) -> nthN cells i = nthN (fat s) i.
Proof.
  intros s Hc Hall.
  destruct (read_fat_cells_spec s (difat s) Hall) as (cells & E & L & Hn).
  exists cells. split; [exact E|]. split; [exact L|].
  intros i Hi. destruct (WalkProofs.nthN_lt_Some (fat s) i Hi) as [v Hv].
  destruct (Hc i v Hv) as (f & Hd & _ & _ & Hcell).
  pose proof (fps_pos s) as Hpos.
  rewrite Hv, <- Hcell. unfold cell_at.
  rewrite <- (Hn (i / fat_per_sector s) f (i mod fat_per_sector s) Hd)
    by (apply N.mod_lt; lia).
  f_equal. rewrite (N.div_mod i (fat_per_sector s)) at 1 by lia. lia.
Qed.

(* in particular the cached FAT is a prefix of what is on disk *)
Corollary fat_prefix_on_disk : forall s,
  FatCoherent s ->
  (forall f, In f (difat s) -> f < nsect s /\ lenN (sector_bytes s f) = slen s) ->
  exists cells,
    read_fat_cells (img s) (slen s) (nsect s) (difat s) = Ok cells /\
    takeN (lenN (fat s)) cells = fat s.
Proof.
  intros s Hc Hall. destruct (fat_roundtrip_on_disk s Hc Hall) as (cells & E & _ & Hn).
  exists cells. split; [exact E|].
  clear E. revert Hn. generalize (fat s) as l. intro l. revert cells.
  induction l as [|x l IH]; intros cells Hn.
  - cbn [lenN]. apply takeN_0.
  - cbn [lenN] in *. destruct cells as [|c cells].
    + specialize (Hn 0 ltac:(lia)). discriminate.
    + rewrite takeN_cons by lia. rewrite N.pred_succ.
      pose proof (Hn 0 ltac:(lia)) as H0. cbn [nthN N.eqb] in H0. injection H0 as ->.
      f_equal. apply IH. intros i Hi. specialize (Hn (N.succ i) ltac:(lia)).
      rewrite !CodecProofs.nthN_succ_cons in Hn. exact Hn.
Qed.

(* ------------------------------------------------------------------ *)
(* C5: the growth branch of allocate_sector also writes through         *)
(* ------------------------------------------------------------------ *)

Definition app_sector (s : cstate) (bs : list byte) : cstate :=
  w_img (w_nsect s (nsect s + 1)) (img s ++ [bs]).

Lemma last_full : forall s,
  lenN (img s) = nsect s + 1 -> full s -> 0 < nsect s ->
  exists sec, lastN (img s) = Some sec /\ lenN sec = slen s.
Proof.
  intros s Hi Hf Hn.
  destruct (lastN (img s)) as [sec|] eqn:El.
  - exists sec. split; [reflexivity|].
    pose proof (lastN_Some_snoc _ _ _ El) as E.
    assert (Hp : lenN (pop_last (img s)) = nsect s).
    { rewrite E in Hi. rewrite lenN_app in Hi. cbn [lenN] in Hi. lia. }
    specialize (Hf (nsect s - 1) ltac:(lia)). unfold sector_bytes in Hf.
    replace (nsect s - 1 + 1) with (nsect s) in Hf by lia.
    rewrite E in Hf. rewrite nthN_app_r in Hf by lia. rewrite Hp, N.sub_diag in Hf.
    exact Hf.
  - apply lastN_None_nil in El. rewrite El in Hi. cbn [lenN] in Hi. lia.
Qed.

Lemma spliceN_nil_0 : forall bs, spliceN [] 0 bs = bs.
Proof.
  intro bs. rewrite spliceN_beyond by (cbn [lenN]; lia).
  cbn [lenN app]. change (0 - 0) with 0. reflexivity.
Qed.

Lemma init_sector_append_exec : forall s i,
  lenN (img s) = nsect s + 1 -> full s -> 0 < nsect s ->
  init_sector (nsect s) i s = (app_sector s (init_bytes (ver s) i), Ok tt).
Proof.
  intros s i Hi Hf Hn. destruct (last_full s Hi Hf Hn) as (sec & El & Hsec).
  unfold init_sector. rewrite bind_get.
  destruct (nsect s <? nsect s) eqn:E1; [lia|]. rewrite N.eqb_refl.
  rewrite bind_modify, bind_get.
  set (s1 := w_nsect s (nsect s + 1)).
  unfold sector_write.
  rewrite (bind_exec _ _ _ _ _ (seek_sector_ok s1 (nsect s) 0 ltac:(lia) ltac:(cbn [s1 nsect w_nsect]; lia))).
  unfold modify. cbn [s1 img w_nsect].
  destruct (lenN (img s) <=? nsect s + 1) eqn:E2; [|lia].
  unfold img_pad_last. rewrite El.
  change (slen s1) with (slen s). change (ver s1) with (ver s).
  destruct (lenN sec <? slen s) eqn:E3; [blia|].
  unfold img_write.
  destruct (nthN (img s) (nsect s + 1)) as [x|] eqn:En.
  - apply nthN_Some_lt in En. lia.
  - rewrite spliceN_nil_0. reflexivity.
Qed.

Lemma sector_bytes_app_old : forall s bs x,
  lenN (img s) = nsect s + 1 -> x < nsect s ->
  sector_bytes (app_sector s bs) x = sector_bytes s x.
Proof.
  intros s bs x Hi Hx. unfold sector_bytes, app_sector. cbn [img w_img].
  rewrite nthN_app_l by lia. reflexivity.
Qed.

Lemma sector_bytes_app_new : forall s bs,
  lenN (img s) = nsect s + 1 -> sector_bytes (app_sector s bs) (nsect s) = bs.
Proof.
  intros s bs Hi. unfold sector_bytes, app_sector. cbn [img w_img].
  rewrite nthN_app_r by lia. rewrite Hi, N.sub_diag. reflexivity.
Qed.

Lemma full_app_sector : forall s bs,
  lenN (img s) = nsect s + 1 -> full s -> lenN bs = slen s -> full (app_sector s bs).
Proof.
  intros s bs Hi Hf Hb x Hx. change (slen (app_sector s bs)) with (slen s).
  cbn [app_sector nsect w_img w_nsect] in Hx.
  destruct (N.eq_dec x (nsect s)) as [->|Hne].
  - rewrite sector_bytes_app_new by exact Hi. exact Hb.
  - rewrite sector_bytes_app_old by (try exact Hi; lia). apply Hf. lia.
Qed.

Lemma app_sector_coherent : forall s bs,
  lenN (img s) = nsect s + 1 -> FatCoherent s -> FatCoherent (app_sector s bs).
Proof.
  intros s bs Hi Hc. apply (coherent_frame s); try reflexivity; [exact Hc| |].
  - cbn [app_sector nsect w_img w_nsect]. lia.
  - intros f _ Hf _. apply sector_bytes_app_old; assumption.
Qed.

Lemma NoDup_app_snoc : forall (l : list N) x, NoDup l -> ~ In x l -> NoDup (l ++ [x]).
Proof.
  intros l x Hnd Hni. induction l as [|y l IH]; cbn [app].
  - constructor; [intros []|constructor].
  - inversion Hnd as [|? ? Hy Hnd']; subst. constructor.
    + intro Hin. apply in_app_or in Hin. destruct Hin as [Hin|[<-|[]]]; [contradiction|].
      apply Hni. left. reflexivity.
    + apply IH; [exact Hnd'|]. intro Hin. apply Hni. right. exact Hin.
Qed.

(* what every step of the allocator maintains *)
Record Core (s : cstate) : Prop := mkCore {
  co_img : lenN (img s) = nsect s + 1;
  co_full : full s;
  co_coh : FatCoherent s;
  co_nodup : NoDup (difat s);
  co_lt : forall f, In f (difat s) -> f < nsect s
}.

(* the invariant of the FAT allocator: the FAT has one cell per sector and
   exactly fills the FAT sectors listed in the DIFAT *)
Record FatInv (s : cstate) : Prop := mkFatInv {
  fi_core : Core s;
  fi_len : lenN (fat s) = nsect s;
  fi_pos : 0 < nsect s;
  fi_tight : lenN (difat s) = (lenN (fat s) + fat_per_sector s - 1) / fat_per_sector s
}.

(* steps that touch neither the FAT nor the DIFAT nor any FAT sector *)
Definition neutral (s s' : cstate) : Prop :=
  nsect s' = nsect s /\ ver s' = ver s /\ fat s' = fat s /\ difat s' = difat s /\
  free s' = free s /\ lenN (img s') = lenN (img s) /\
  (forall x, lenN (sector_bytes s' x) = lenN (sector_bytes s x)) /\
  (forall f, In f (difat s) -> sector_bytes s' f = sector_bytes s f).

Lemma neutral_refl : forall s, neutral s s.
Proof. intro s. unfold neutral. repeat split. Qed.

Lemma neutral_core : forall s s', neutral s s' -> Core s -> Core s'.
Proof.
  intros s s' (N1 & N2 & N3 & N4 & N5 & N6 & N7 & N8) [Hi Hf Hc Hnd Hlt].
  constructor.
  - rewrite N6, N1. exact Hi.
  - intros x Hx. rewrite N7. unfold slen. rewrite N2. apply Hf. rewrite N1 in Hx. exact Hx.
  - apply (coherent_frame s); try assumption; [rewrite N1; reflexivity|].
    intros f Hin _ _. apply N8. exact Hin.
  - rewrite N4. exact Hnd.
  - intros f Hin. rewrite N4 in Hin. rewrite N1. apply Hlt. exact Hin.
Qed.

Lemma header_write_neutral : forall s s' off bs r,
  img s <> [] -> header_write off bs s = (s', r) ->
  neutral s s' /\ difat_ids s' = difat_ids s.
Proof.
  intros s s' off bs r Hne H. unfold header_write, panic, modify in H.
  destruct (HEADER_LEN <=? off); [injection H as <- _; split; [apply neutral_refl | reflexivity]|].
  injection H as <- _. split; [|reflexivity].
  destruct (img s) as [|h t] eqn:Ei; [contradiction|].
  change (img_write (h :: t) 0 off bs) with (spliceN h off bs :: t).
  assert (Hsb : forall x, sector_bytes (w_img s (spliceN h off bs :: t)) x = sector_bytes s x).
  { intro x. unfold sector_bytes. cbn [img w_img]. rewrite Ei.
    rewrite !nthN_cons_pos by lia. reflexivity. }
  unfold neutral. cbn [nsect ver fat difat free img w_img]. repeat split.
  - rewrite Ei. reflexivity.
  - intro x. rewrite Hsb. reflexivity.
  - intros f _. apply Hsb.
Qed.

Lemma sector_write_neutral : forall s s' sid off bs r,
  full s -> ~ In sid (difat s) -> off + lenN bs <= slen s ->
  sector_write sid off bs s = (s', r) ->
  neutral s s' /\ difat_ids s' = difat_ids s.
Proof.
  intros s s' sid off bs r Hf Hni Hfit H.
  destruct (N.lt_ge_cases sid (nsect s)) as [Hs|Hs].
  - rewrite (sector_write_exec s sid off bs Hs (Hf sid Hs) Hfit) in H. injection H as <- _.
    split; [|reflexivity]. unfold neutral. repeat split.
    + apply lenN_img_wr.
    + intro x. apply lenN_sector_bytes_wr; [apply Hf; exact Hs | exact Hfit].
    + intros f Hin. apply sector_bytes_wr_other. intro E. subst f. contradiction.
  - unfold sector_write, seek_sector, bind, get, panic, fail, ret, modify in H.
    destruct (slen s <? off); [injection H as <- _; split; [apply neutral_refl | reflexivity]|].
    destruct (nsect s <=? sid) eqn:E; [|lia].
    injection H as <- _. split; [apply neutral_refl | reflexivity].
Qed.

Lemma app_sector_core : forall s bs,
  Core s -> lenN bs = slen s -> Core (app_sector s bs).
Proof.
  intros s bs [Hi Hf Hc Hnd Hlt] Hb. constructor; cbn [app_sector nsect difat img w_img w_nsect].
  - rewrite lenN_app. cbn [lenN]. lia.
  - apply full_app_sector; assumption.
  - apply app_sector_coherent; assumption.
  - exact Hnd.
  - intros f Hin. specialize (Hlt f Hin). lia.
Qed.

Lemma set_fat_state_core : forall s index v f,
  Core s -> v < 2 ^ 32 -> index <= lenN (fat s) ->
  nthN (difat s) (index / fat_per_sector s) = Some f ->
  Core (set_fat_state s index v f).
Proof.
  intros s index v f [Hi Hf Hc Hnd Hlt] Hv Hidx Hd.
  assert (Hfn : f < nsect s) by (apply Hlt; eapply nthN_In; exact Hd).
  pose proof (set_fat_exec s index v f Hidx Hd Hfn (Hf f Hfn)) as E.
  destruct (set_fat_coherent s _ index v f Hc Hv Hidx Hd Hfn (Hf f Hfn) Hnd E) as (Hc' & _).
  pose proof (set_fat_state_fields s index v f)
    as (Ev & En & _ & Ed & _ & _ & _ & _ & _ & _ & _ & Eimg).
  constructor.
  - rewrite Eimg, En. exact Hi.
  - apply full_set_fat_state; assumption.
  - exact Hc'.
  - rewrite Ed. exact Hnd.
  - intros g Hg. rewrite Ed in Hg. rewrite En. apply Hlt. exact Hg.
Qed.

Lemma w_difat_app_core : forall s x,
  Core s -> x < nsect s -> ~ In x (difat s) -> Core (w_difat s (difat s ++ [x])).
Proof.
  intros s x [Hi Hf Hc Hnd Hlt] Hx Hni. constructor; cbn [nsect img difat w_difat].
  - exact Hi.
  - eapply full_ext; [| | | exact Hf]; reflexivity.
  - intros j v Hj. cbn [fat w_difat] in Hj. destruct (Hc j v Hj) as (f & Hd & Hfn & Hl & Hcell).
    exists f. cbn [difat w_difat nsect].
    change (fat_per_sector (w_difat s (difat s ++ [x]))) with (fat_per_sector s).
    split; [rewrite nthN_app_l; [exact Hd | eapply nthN_Some_lt; exact Hd]|].
    split; [exact Hfn|]. split; [exact Hl | exact Hcell].
  - apply NoDup_app_snoc; assumption.
  - intros f Hin. apply in_app_or in Hin. destruct Hin as [Hin|[<-|[]]]; [apply Hlt; exact Hin | exact Hx].
Qed.

(* appending one FAT cell: the part of allocate_sector after the optional
   append_fat_sector *)
Definition alloc_tail (i : sinit) : M N :=
  do s <- get;
  let new_sid := lenN (fat s) in
  set_fat new_sid END_OF_CHAIN ;; init_sector new_sid i ;; ret new_sid.

Lemma allocate_sector_grow_unfold : forall i s, free s = [] ->
  allocate_sector i s
  = bind (if lenN (fat s) mod fat_per_sector s =? 0 then append_fat_sector else ret tt)
         (fun _ => alloc_tail i) s.
Proof. intros i s H. unfold allocate_sector. rewrite bind_get, H. reflexivity. Qed.

Lemma alloc_tail_coherent : forall i s,
  FatInv s -> lenN (fat s) mod fat_per_sector s <> 0 ->
  exists s',
    alloc_tail i s = (s', Ok (nsect s)) /\
    nsect s' = nsect s + 1 /\ fat s' = fat s ++ [END_OF_CHAIN] /\
    difat s' = difat s /\ difat_ids s' = difat_ids s /\ free s' = free s /\ FatInv s'.
Proof.
  intros i s [Hcore Hlen Hpos Htight] Hmod.
  pose proof Hcore as [Hi Hf Hc Hnd Hlt].
  pose proof (fps_pos s) as Hfp.
  (* the FAT sector backing the last cell also backs the next one *)
  destruct (WalkProofs.nthN_lt_Some (fat s) (lenN (fat s) - 1) ltac:(lia)) as [w Hw].
  destruct (Hc _ w Hw) as (f & Hd & Hfn & Hfl & _).
  assert (Ediv : (lenN (fat s) - 1) / fat_per_sector s = lenN (fat s) / fat_per_sector s).
  { destruct (fps_cases s) as [[_ E]|[_ E]]; rewrite E in *; lia. }
  rewrite Ediv in Hd.
  pose proof (set_fat_exec s (lenN (fat s)) END_OF_CHAIN f ltac:(lia) Hd Hfn Hfl) as E1.
  pose proof (set_fat_state_core s (lenN (fat s)) END_OF_CHAIN f Hcore ltac:(reflexivity)
                ltac:(lia) Hd) as Hcore1.
  set (s1 := set_fat_state s (lenN (fat s)) END_OF_CHAIN f) in *.
  pose proof (set_fat_state_fields s (lenN (fat s)) END_OF_CHAIN f)
    as (Ev & En & Edi & Ed & Efat1 & Efr & _ & _ & _ & Esl & Efps & Eimg).
  fold s1 in Ev, En, Edi, Ed, Efat1, Efr, Esl, Efps, Eimg.
  unfold fat_set in Efat1. rewrite N.eqb_refl in Efat1.
  pose proof (init_sector_append_exec s1 i (co_img _ Hcore1) (co_full _ Hcore1)
                ltac:(rewrite En; exact Hpos)) as E2.
  exists (app_sector s1 (init_bytes (ver s1) i)).
  split.
  { unfold alloc_tail. rewrite bind_get. rewrite (bind_exec _ _ _ _ _ E1).
    rewrite Hlen, <- En. rewrite (bind_exec _ _ _ _ _ E2). rewrite En. reflexivity. }
  cbn [app_sector nsect fat difat difat_ids free w_img w_nsect].
  split; [rewrite En; reflexivity|]. split; [exact Efat1|]. split; [exact Ed|].
  split; [exact Edi|]. split; [exact Efr|].
  constructor.
  - apply app_sector_core; [exact Hcore1|]. rewrite lenN_init_bytes. reflexivity.
  - cbn [app_sector nsect fat w_img w_nsect]. rewrite Efat1, lenN_app, En. cbn [lenN]. lia.
  - cbn [app_sector nsect w_img w_nsect]. lia.
  - cbn [app_sector fat difat w_img w_nsect]. rewrite Ed, Efat1, lenN_app. cbn [lenN].
    change (fat_per_sector (app_sector s1 (init_bytes (ver s1) i))) with (fat_per_sector s1).
    rewrite Efps, Htight.
    destruct (fps_cases s) as [[_ E]|[_ E]]; rewrite E in *; lia.
Qed.

(* growth without a new FAT sector: one cell, one sector *)
Theorem allocate_append_coherent : forall i s,
  FatInv s -> free s = [] -> lenN (fat s) mod fat_per_sector s <> 0 ->
  exists s',
    allocate_sector i s = (s', Ok (nsect s)) /\
    nsect s' = nsect s + 1 /\ fat s' = fat s ++ [END_OF_CHAIN] /\
    difat s' = difat s /\ free s' = [] /\ FatInv s'.
Proof.
  intros i s Hinv Hfree Hmod.
  destruct (alloc_tail_coherent i s Hinv Hmod) as (s' & E & A1 & A2 & A3 & _ & A5 & A6).
  exists s'. rewrite (allocate_sector_grow_unfold i s Hfree).
  destruct (lenN (fat s) mod fat_per_sector s =? 0) eqn:Em; [lia|].
  rewrite bind_ret. split; [exact E|]. split; [exact A1|]. split; [exact A2|].
  split; [exact A3|]. split; [rewrite A5; exact Hfree | exact A6].
Qed.

(* ---- growth with a new FAT sector (and possibly a new DIFAT sector) ---- *)

(* DIFAT sectors exist and are not FAT sectors *)
Definition DifatOk (s : cstate) : Prop :=
  forall d, In d (difat_ids s) -> d < nsect s /\ ~ In d (difat s).

Record Mid (s : cstate) : Prop := mkMid {
  mi_core : Core s;
  mi_len : lenN (fat s) = nsect s;
  mi_pos : 0 < nsect s;
  mi_ids : DifatOk s
}.

Lemma neutral_mid : forall s s',
  neutral s s' -> difat_ids s' = difat_ids s -> Mid s -> Mid s'.
Proof.
  intros s s' Hn Hids [Hcore Hlen Hpos Hok].
  pose proof (neutral_core s s' Hn Hcore) as Hcore'.
  destruct Hn as (N1 & N2 & N3 & N4 & _).
  constructor; [exact Hcore' | rewrite N3, N1; exact Hlen | rewrite N1; exact Hpos |].
  intros d Hd. rewrite Hids in Hd. rewrite N1, N4. apply Hok. exact Hd.
Qed.

Lemma lastN_In : forall A (l : list A) x, lastN l = Some x -> In x l.
Proof.
  intros A l x H. rewrite (lastN_Some_snoc _ _ _ H). apply in_or_app. right. left. reflexivity.
Qed.

(* one new sector at the end of the file together with its FAT cell *)
Lemma mid_append : forall s s1 s2 i v f,
  Mid s -> nthN (difat s) (lenN (fat s) / fat_per_sector s) = Some f -> v < 2 ^ 32 ->
  init_sector (lenN (fat s)) i s = (s1, Ok tt) ->
  set_fat (lenN (fat s)) v s1 = (s2, Ok tt) ->
  Mid s2 /\ nsect s2 = nsect s + 1 /\ fat s2 = fat s ++ [v] /\ difat s2 = difat s /\
  difat_ids s2 = difat_ids s /\ free s2 = free s /\ ver s2 = ver s.
Proof.
  intros s s1 s2 i v f [Hcore Hlen Hpos Hok] Hd Hv H1 H2.
  rewrite Hlen in H1.
  rewrite (init_sector_append_exec s i (co_img _ Hcore) (co_full _ Hcore) Hpos) in H1.
  injection H1 as <-.
  set (s1 := app_sector s (init_bytes (ver s) i)) in *.
  assert (Hcore1 : Core s1)
    by (apply app_sector_core; [exact Hcore | rewrite lenN_init_bytes; reflexivity]).
  assert (Hd1 : nthN (difat s1) (lenN (fat s) / fat_per_sector s1) = Some f) by exact Hd.
  assert (Hfn : f < nsect s1) by (apply (co_lt _ Hcore1); eapply nthN_In; exact Hd1).
  rewrite (set_fat_exec s1 (lenN (fat s)) v f ltac:(cbn; lia) Hd1 Hfn
             (co_full _ Hcore1 f Hfn)) in H2.
  injection H2 as <-.
  pose proof (set_fat_state_core s1 (lenN (fat s)) v f Hcore1 Hv ltac:(cbn; lia) Hd1) as Hcore2.
  assert (Efat : fat (set_fat_state s1 (lenN (fat s)) v f) = fat s ++ [v]).
  { cbn [fat set_fat_state w_fat]. unfold fat_set. cbn [s1 app_sector fat w_img w_nsect].
    rewrite N.eqb_refl. reflexivity. }
  split; [|repeat split; try exact Efat].
  constructor.
  - exact Hcore2.
  - rewrite Efat, lenN_app. cbn [lenN]. cbn. lia.
  - cbn. lia.
  - intros d Hin. cbn in Hin. destruct (Hok d Hin) as [A B]. split; [cbn; lia | exact B].
Qed.

Lemma difat_per_cases : forall s,
  (slen s = 512 /\ difat_per_sector s = 127) \/ (slen s = 4096 /\ difat_per_sector s = 1023).
Proof.
  intro s. unfold difat_per_sector, slen. destruct (ver s); [left | right]; split; reflexivity.
Qed.

Theorem append_fat_sector_coherent : forall s s',
  FatInv s -> DifatOk s -> lenN (fat s) mod fat_per_sector s = 0 ->
  append_fat_sector s = (s', Ok tt) ->
  Mid s' /\ free s' = free s /\
  difat s' = difat s ++ [nsect s] /\
  ((nsect s' = nsect s + 1 /\ fat s' = fat s ++ [FAT_SECTOR]) \/
   (nsect s' = nsect s + 2 /\ fat s' = fat s ++ [FAT_SECTOR; DIFAT_SECTOR])) /\
  ver s' = ver s.
Proof.
  intros s s' [Hcore Hlen Hpos Htight] Hok Hmod H.
  pose proof (fps_pos s) as Hfp.
  assert (Hmid : Mid s) by (constructor; assumption).
  unfold append_fat_sector in H. rewrite bind_get in H.
  apply bind_ok in H. destruct H as ([] & s1 & H1 & H).
  rewrite Hlen in H1.
  rewrite (init_sector_append_exec s IFat (co_img _ Hcore) (co_full _ Hcore) Hpos) in H1.
  apply pair_ok_inv in H1. destruct H1 as [E1 _]. subst s1.
  set (s1 := app_sector s (init_bytes (ver s) IFat)) in *.
  assert (Hcore1 : Core s1)
    by (apply app_sector_core; [exact Hcore | rewrite lenN_init_bytes; reflexivity]).
  rewrite bind_modify in H.
  set (s2 := w_difat s1 (difat s1 ++ [lenN (fat s)])) in *.
  assert (Hni : ~ In (nsect s) (difat s)).
  { intro Hin. pose proof (co_lt _ Hcore _ Hin). lia. }
  assert (Hcore2 : Core s2).
  { apply w_difat_app_core; [exact Hcore1 | cbn; lia | rewrite Hlen; exact Hni]. }
  apply bind_ok in H. destruct H as ([] & s3 & H3 & H).
  assert (Hdl : lenN (difat s) = lenN (fat s) / fat_per_sector s).
  { rewrite Htight. destruct (fps_cases s) as [[_ E]|[_ E]]; rewrite E in *; lia. }
  assert (Hd2 : nthN (difat s2) (lenN (fat s) / fat_per_sector s2) = Some (lenN (fat s))).
  { cbn [s2 difat w_difat s1 app_sector w_img w_nsect].
    change (fat_per_sector _) with (fat_per_sector s).
    rewrite nthN_app_r by lia. rewrite Hdl, N.sub_diag. reflexivity. }
  assert (Hfn2 : lenN (fat s) < nsect s2) by (cbn; lia).
  rewrite (set_fat_exec s2 (lenN (fat s)) FAT_SECTOR (lenN (fat s)) ltac:(cbn; lia) Hd2 Hfn2
             (co_full _ Hcore2 _ Hfn2)) in H3.
  injection H3 as <-.
  pose proof (set_fat_state_core s2 (lenN (fat s)) FAT_SECTOR (lenN (fat s)) Hcore2
                ltac:(reflexivity) ltac:(cbn; lia) Hd2) as Hcore3.
  set (s3 := set_fat_state s2 (lenN (fat s)) FAT_SECTOR (lenN (fat s))) in *.
  assert (Efat3 : fat s3 = fat s ++ [FAT_SECTOR]).
  { cbn [s3 fat set_fat_state w_fat]. unfold fat_set.
    cbn [s2 s1 app_sector fat w_img w_nsect w_difat]. rewrite N.eqb_refl. reflexivity. }
  assert (Ed3 : difat s3 = difat s ++ [nsect s]) by (rewrite <- Hlen; reflexivity).
  assert (En3 : nsect s3 = nsect s + 1) by reflexivity.
  assert (Ei3 : difat_ids s3 = difat_ids s) by reflexivity.
  assert (Efr3 : free s3 = free s) by reflexivity.
  assert (Ev3 : ver s3 = ver s) by reflexivity.
  assert (Hmid3 : Mid s3).
  { constructor; [exact Hcore3 | rewrite Efat3, lenN_app, En3; cbn [lenN]; lia | lia |].
    intros d Hin. rewrite Ei3 in Hin. destruct (Hok d Hin) as [A B].
    split; [lia|]. rewrite Ed3. intro Hin2. apply in_app_or in Hin2.
    destruct Hin2 as [Hin2|[E|[]]]; [contradiction | lia]. }
  clearbody s3. clear Hcore3 Hd2 Hfn2 Hcore2 Hcore1. clear s2 s1.
  apply bind_ok in H. destruct H as ([] & s4 & H4 & H).
  rewrite bind_get in H.
  assert (Himg_ne : forall t, Mid t -> img t <> []).
  { intros t Ht E. pose proof (co_img _ (mi_core _ Ht)) as Hi. rewrite E in Hi. cbn [lenN] in Hi. lia. }
  (* the tail: whatever the DIFAT bookkeeping produced, the final header write is neutral *)
  assert (Hfinal : forall (Q : Prop),
            (Mid s4 -> free s4 = free s -> difat s4 = difat s ++ [nsect s] -> ver s4 = ver s ->
             ((nsect s4 = nsect s + 1 /\ fat s4 = fat s ++ [FAT_SECTOR]) \/
              (nsect s4 = nsect s + 2 /\ fat s4 = fat s ++ [FAT_SECTOR; DIFAT_SECTOR])) -> Q) ->
            (Mid s4 /\ free s4 = free s /\ difat s4 = difat s ++ [nsect s] /\ ver s4 = ver s /\
             ((nsect s4 = nsect s + 1 /\ fat s4 = fat s ++ [FAT_SECTOR]) \/
              (nsect s4 = nsect s + 2 /\ fat s4 = fat s ++ [FAT_SECTOR; DIFAT_SECTOR]))) -> Q).
  { intros Q HQ (A & B & C & D & E). apply HQ; assumption. }
  assert (Hs4 : Mid s4 /\ free s4 = free s /\ difat s4 = difat s ++ [nsect s] /\ ver s4 = ver s /\
             ((nsect s4 = nsect s + 1 /\ fat s4 = fat s ++ [FAT_SECTOR]) \/
              (nsect s4 = nsect s + 2 /\ fat s4 = fat s ++ [FAT_SECTOR; DIFAT_SECTOR]))).
  { clear H Hfinal.
    destruct (lenN (difat s) <? NUM_DIFAT_HDR) eqn:Ehdr.
    - (* the DIFAT entry fits in the header *)
      destruct (header_write_neutral s3 s4 _ _ _ (Himg_ne _ Hmid3) H4) as [Hn Hids].
      pose proof (neutral_mid _ _ Hn Hids Hmid3) as Hmid4.
      destruct Hn as (N1 & N2 & N3 & N4 & N5 & _).
      split; [exact Hmid4|]. split; [congruence|]. split; [congruence|]. split; [congruence|].
      left. split; congruence.
    - rewrite bind_get in H4. apply bind_ok in H4. destruct H4 as ([] & s5 & H5 & H4).
      rewrite bind_get in H4.
      (* s5: after the optional new DIFAT sector *)
      assert (Hs5 : Mid s5 /\ free s5 = free s /\ difat s5 = difat s ++ [nsect s] /\ ver s5 = ver s /\
               ((nsect s5 = nsect s + 1 /\ fat s5 = fat s ++ [FAT_SECTOR]) \/
                (nsect s5 = nsect s + 2 /\ fat s5 = fat s ++ [FAT_SECTOR; DIFAT_SECTOR]))).
      { clear H4.
        match type of H5 with (if ?c then _ else _) _ = _ => destruct c eqn:Edif end.
        - apply bind_ok in H5. destruct H5 as ([] & s6 & H6 & H5).
          apply bind_ok in H5. destruct H5 as ([] & s7 & H7 & H5).
          assert (Hd3 : nthN (difat s3) (lenN (fat s3) / fat_per_sector s3) = Some (nsect s)).
          { rewrite Ed3, Efat3, lenN_app. cbn [lenN].
            assert (Efps3 : fat_per_sector s3 = fat_per_sector s)
              by (unfold fat_per_sector, slen; rewrite Ev3; reflexivity).
            rewrite Efps3. rewrite nthN_app_r.
            + match goal with |- nthN _ ?k = _ => replace k with 0 end; [reflexivity|].
              rewrite Hdl. destruct (fps_cases s) as [[_ E]|[_ E]]; rewrite E in *; lia.
            + rewrite Hdl. destruct (fps_cases s) as [[_ E]|[_ E]]; rewrite E in *; lia. }
          destruct (mid_append s3 s6 s7 IDifat DIFAT_SECTOR (nsect s) Hmid3 Hd3 ltac:(reflexivity) H6 H7)
            as (Hmid7 & En7 & Efat7 & Ed7 & Ei7 & Efr7 & Ev7).
          rewrite bind_get in H5.
          apply bind_ok in H5. destruct H5 as ([] & s8 & H8 & H5).
          rewrite bind_modify, bind_get in H5.
          assert (Hs8 : neutral s7 s8 /\ difat_ids s8 = difat_ids s7).
          { destruct (lastN (difat_ids s7)) as [last|] eqn:El.
            - apply (sector_write_neutral s7 s8 last _ _ _ (co_full _ (mi_core _ Hmid7))
                       ltac:(apply (mi_ids _ Hmid7); apply lastN_In; exact El)) in H8; [exact H8|].
              rewrite CodecProofs.lenN_le_bytes4.
              destruct (slen_cases s7) as [E|E]; rewrite E; lia.
            - unfold ret in H8. injection H8 as <-. split; [apply neutral_refl | reflexivity]. }
          destruct Hs8 as [Hn8 Hids8].
          pose proof (neutral_mid _ _ Hn8 Hids8 Hmid7) as Hmid8.
          destruct Hn8 as (N1 & N2 & N3 & N4 & N5 & _).
          set (s9 := w_difat_ids s8 (difat_ids s8 ++ [lenN (fat s3)])) in *.
          assert (Hmid9 : Mid s9).
          { destruct Hmid8 as [Hc8 Hl8 Hp8 Hok8]. constructor.
            - apply (neutral_core s8); [unfold neutral; repeat split | exact Hc8].
            - exact Hl8.
            - exact Hp8.
            - intros d Hin. cbn [s9 difat_ids w_difat_ids] in Hin.
              cbn [s9 nsect difat w_difat_ids].
              apply in_app_or in Hin. destruct Hin as [Hin|[<-|[]]]; [apply Hok8; exact Hin|].
              rewrite N1, N4, En7, Ed7, Ed3, En3, Efat3, lenN_app, Hlen. cbn [lenN].
              split; [lia|]. intro Hin2. apply in_app_or in Hin2.
              destruct Hin2 as [Hin2|[E|[]]]; [|lia].
              pose proof (co_lt _ Hcore _ Hin2). lia. }
          assert (Hs5 : neutral s9 s5 /\ difat_ids s5 = difat_ids s9).
          { destruct (difat_ids s9) as [|first rest] eqn:E9; [discriminate|].
            rewrite <- E9.
            eapply header_write_neutral; [apply Himg_ne; exact Hmid9 | exact H5]. }
          destruct Hs5 as [Hn5 Hids5].
          pose proof (neutral_mid _ _ Hn5 Hids5 Hmid9) as Hmid5.
          destruct Hn5 as (M1 & M2 & M3 & M4 & M5 & _).
          cbn [s9 nsect ver fat difat free w_difat_ids] in M1, M2, M3, M4, M5.
          split; [exact Hmid5|]. split; [congruence|]. split; [congruence|]. split; [congruence|].
          right. split; [rewrite M1, N1, En7, En3; lia|].
          rewrite M3, N3, Efat7, Efat3, <- app_assoc. reflexivity.
        - unfold ret in H5. injection H5 as <-.
          split; [exact Hmid3|]. split; [exact Efr3|]. split; [exact Ed3|]. split; [exact Ev3|].
          left. split; assumption. }
      destruct Hs5 as (Hmid5 & Efr5 & Ed5 & Ev5 & Hcase5).
      destruct (nthN (difat_ids s5) ((lenN (difat s) - NUM_DIFAT_HDR) / difat_per_sector s3))
        as [dsid|] eqn:Eds; [|discriminate].
      apply (sector_write_neutral s5 s4 dsid _ _ _ (co_full _ (mi_core _ Hmid5))
               ltac:(apply (mi_ids _ Hmid5); eapply nthN_In; exact Eds)) in H4.
      + destruct H4 as [Hn Hids].
        pose proof (neutral_mid _ _ Hn Hids Hmid5) as Hmid4.
        destruct Hn as (N1 & N2 & N3 & N4 & N5 & _).
        split; [exact Hmid4|]. split; [congruence|]. split; [congruence|]. split; [congruence|].
        destruct Hcase5 as [[A B]|[A B]]; [left | right]; split; congruence.
      + rewrite CodecProofs.lenN_le_bytes4.
        assert (Es : slen s5 = slen s3 /\ difat_per_sector s3 = (slen s3 - 4) / 4).
        { split; [unfold slen; rewrite Ev5, Ev3; reflexivity | reflexivity]. }
        destruct Es as [Es Ep]. rewrite Es.
        destruct (difat_per_cases s3) as [[E1 E2]|[E1 E2]]; rewrite E1, E2; lia. }
  destruct Hs4 as (Hmid4 & Efr4 & Ed4 & Ev4 & Hcase4).
  destruct (header_write_neutral s4 s' _ _ _ (Himg_ne _ Hmid4) H) as [Hn Hids].
  pose proof (neutral_mid _ _ Hn Hids Hmid4) as Hmid'.
  destruct Hn as (N1 & N2 & N3 & N4 & N5 & _).
  split; [exact Hmid'|]. split; [congruence|]. split; [congruence|].
  split; [|congruence].
  destruct Hcase4 as [[A B]|[A B]]; [left | right]; split; congruence.
Qed.

(* the whole growth branch: from a state with an empty free stack, a successful
   allocation appends 1 to 3 sectors and every FAT cell it set is on disk *)
Theorem allocate_grow_coherent : forall i s s' sid,
  FatInv s -> DifatOk s -> free s = [] ->
  allocate_sector i s = (s', Ok sid) ->
  FatInv s' /\ DifatOk s' /\ free s' = [] /\
  sid = nsect s' - 1 /\ nsect s < nsect s' <= nsect s + 3.
Proof.
  intros i s s' sid Hinv Hok Hfree H.
  pose proof (fps_pos s) as Hfp.
  rewrite (allocate_sector_grow_unfold i s Hfree) in H.
  destruct (lenN (fat s) mod fat_per_sector s =? 0) eqn:Em.
  - apply N.eqb_eq in Em.
    apply bind_ok in H. destruct H as ([] & s1 & H1 & H).
    destruct (append_fat_sector_coherent s s1 Hinv Hok Em H1)
      as ([Hcore1 Hlen1 Hpos1 Hok1] & Efr1 & Ed1 & Hcase & Ev1).
    assert (Efps1 : fat_per_sector s1 = fat_per_sector s)
      by (unfold fat_per_sector, slen; rewrite Ev1; reflexivity).
    destruct Hinv as [Hcore Hlen Hpos Htight].
    assert (Hk : (lenN (fat s1) = lenN (fat s) + 1 \/ lenN (fat s1) = lenN (fat s) + 2) /\
                 nsect s < nsect s1 <= nsect s + 2).
    { destruct Hcase as [[A B]|[A B]]; rewrite A, B, lenN_app; cbn [lenN]; lia. }
    destruct Hk as [Hk Hn1].
    assert (Hinv1 : FatInv s1).
    { constructor; [exact Hcore1 | exact Hlen1 | exact Hpos1 |].
      rewrite Efps1, Ed1, lenN_app, Htight. cbn [lenN].
      destruct (fps_cases s) as [[_ E]|[_ E]]; rewrite E in *; lia. }
    assert (Hmod1 : lenN (fat s1) mod fat_per_sector s1 <> 0).
    { rewrite Efps1. destruct (fps_cases s) as [[_ E]|[_ E]]; rewrite E in *; lia. }
    destruct (alloc_tail_coherent i s1 Hinv1 Hmod1) as (s2 & E2 & A1 & A2 & A3 & A4 & A5 & A6).
    rewrite E2 in H. apply pair_ok_inv in H. destruct H as [<- <-].
    split; [exact A6|]. split.
    { intros d Hd. rewrite A4 in Hd. rewrite A3, A1. destruct (Hok1 d Hd). split; [lia | assumption]. }
    split; [congruence|]. split; lia.
  - apply N.eqb_neq in Em. rewrite bind_ret in H.
    destruct (alloc_tail_coherent i s Hinv Em) as (s2 & E2 & A1 & A2 & A3 & A4 & A5 & A6).
    rewrite E2 in H. apply pair_ok_inv in H. destruct H as [<- <-].
    split; [exact A6|]. split.
    { intros d Hd. rewrite A4 in Hd. rewrite A3, A1. destruct (Hok d Hd). split; [lia | assumption]. }
    split; [congruence|]. split; lia.
Qed.

(* ------------------------------------------------------------------ *)
(* a decision procedure for FatCoherent, and examples                   *)
(* ------------------------------------------------------------------ *)

Definition coherent_b (s : cstate) : bool :=
  forallb (fun i =>
    match nthN (fat s) i, nthN (difat s) (i / fat_per_sector s) with
    | Some v, Some f =>
        (f <? nsect s) && (lenN (sector_bytes s f) =? slen s) && (cell_at s f i =? v)
    | _, _ => false
    end) (rangeN (lenN (fat s))).

Lemma coherent_b_sound : forall s, coherent_b s = true -> FatCoherent s.
Proof.
  intros s H i v Hi. unfold coherent_b in H. rewrite forallb_forall in H.
  specialize (H i (In_rangeN _ _ (nthN_Some_lt _ _ _ _ Hi))). rewrite Hi in H.
  destruct (nthN (difat s) (i / fat_per_sector s)) as [f|]; [|discriminate].
  apply andb_true_iff in H. destruct H as [H H3].
  apply andb_true_iff in H. destruct H as [H1 H2].
  exists f. split; [reflexivity|]. split; [apply N.ltb_lt; exact H1|].
  split; apply N.eqb_eq; assumption.
Qed.

From Cfb.model Require Store Handle Cfb.

Module Examples.
  Import Cfb.model.Cfb ReuseProofs.Examples.

  Lemma nodup1 : forall x : N, NoDup [x].
  Proof. intro x. constructor; [intros []|constructor]. Qed.

  (* the empty file is coherent *)
  Example create_state_coherent : AllocCoh (create_state V3) /\ AllocCoh (create_state V4).
  Proof.
    split; (constructor;
      [ apply alloc_wf_b_sound; vm_compute; reflexivity
      | apply coherent_b_sound; vm_compute; reflexivity
      | apply nodup1
      | intros x [] ]).
  Qed.

  (* so is the file after a 5000-byte stream was created and removed (ten
     sectors on the free stack) *)
  Example big_coherent : AllocCoh big.
  Proof.
    constructor.
    - apply alloc_wf_b_sound. vm_compute. reflexivity.
    - apply coherent_b_sound. vm_compute. reflexivity.
    - assert (E : difat big = [0]) by (vm_compute; reflexivity). rewrite E. apply nodup1.
    - assert (E : difat big = [0]) by (vm_compute; reflexivity).
      assert (F : free big = [2; 3; 4; 5; 6; 7; 8; 9; 10; 11]) by (vm_compute; reflexivity).
      intros x Hx. rewrite E. rewrite F in Hx. intros [<-|[]].
      cbn [In] in Hx. lia.
  Qed.

  (* hence reading its FAT sector back gives the cached FAT *)
  Example big_fat_on_disk :
    exists cells, read_fat_cells (img big) (slen big) (nsect big) (difat big) = Ok cells /\
                  takeN (lenN (fat big)) cells = fat big.
  Proof.
    apply fat_prefix_on_disk; [exact (ac_coh _ big_coherent)|].
    assert (E : difat big = [0]) by (vm_compute; reflexivity). rewrite E.
    intros f [<-|[]]. split; vm_compute; reflexivity.
  Qed.

  (* the empty file satisfies the growth invariant *)
  Example create_state_fatinv : FatInv (create_state V3) /\ DifatOk (create_state V3).
  Proof.
    split; [|intros d []].
    destruct create_state_coherent as [[Hwf Hc Hnd _] _].
    constructor; [constructor|..].
    - reflexivity.
    - exact (wf_full _ Hwf).
    - exact Hc.
    - exact Hnd.
    - intros f [<-|[]]. reflexivity.
    - reflexivity.
    - reflexivity.
    - vm_compute. reflexivity.
  Qed.

  (* a 70000-byte stream needs more than 128 sectors: a second FAT sector is
     appended (append_fat_sector), and the result is coherent *)
  Definition grown := cs (fst (run_ops f0 [OCreateStream 0 p_s; OHSetLen 0 70000; OHFlush 0])).
  Example grown_coherent :
    nsect grown = 140 /\ difat grown = [0; 128] /\ free grown = [] /\
    coherent_b grown = true /\ alloc_wf_b grown = true.
  Proof. vm_compute. repeat split; reflexivity. Qed.

  (* why [free_not_fat] is needed: if the FAT sector itself were on the free
     stack, the reuse branch of allocate_sector would zero it and the disk
     would no longer agree with the cache.  (Not reachable through the API:
     free_chain refuses a chain through a FAT_SECTOR cell.) *)
  Example reuse_of_fat_sector_breaks_coherence :
    let s0 := w_free (create_state V3) [0] in
    exists s', allocate_sector IZero s0 = (s', Ok 0) /\
               nthN (fat s') 1 = Some END_OF_CHAIN /\ fat_cell_on_disk s' 1 = Some 0.
  Proof. eexists. vm_compute. repeat split; reflexivity. Qed.

  Example free_chain_refuses_fat_sector :
    snd (free_chain 0 (create_state V3)) = Err EInvalidData.
  Proof. vm_compute. reflexivity. Qed.
End Examples.

(* ------------------------------------------------------------------ *)
Check set_fat_coherent.
Check set_fat_existing_coherent.
Check data_write_keeps_fat.
Check sector_write_keeps_fat.
Check header_write_keeps_fat.
Check free_sector_coherent.
Check allocate_reuse_coherent.
Check allocate_reuse_preserves.
Check free_sector_preserves.
Check fat_roundtrip_on_disk.
Check fat_prefix_on_disk.
Check allocate_append_coherent.
Check append_fat_sector_coherent.
Check allocate_grow_coherent.
Print Assumptions set_fat_coherent.
Print Assumptions sector_write_keeps_fat.
Print Assumptions header_write_keeps_fat.
Print Assumptions allocate_reuse_preserves.
Print Assumptions free_sector_preserves.
Print Assumptions fat_roundtrip_on_disk.
Print Assumptions fat_prefix_on_disk.
Print Assumptions allocate_grow_coherent.
Print Assumptions Examples.big_coherent.
Print Assumptions Examples.grown_coherent.
