(* NamesProofs.v — proofs about model/Names.v: the upper-casing table, the CFB
   name order (a strict weak order whose equivalence is equality of the
   upper-cased UTF-16 forms), name validation, and path normalisation.
   No axioms, no admits. *)
From Coq Require Import List NArith Lia Bool Setoid.
From Cfb.model Require Import Base Names.
From Cfb.gen Require Import Consts UpTable.
Import ListNotations.
Open Scope N_scope.

(* ------------------------------------------------------------------ *)
(* Definitions requested by the client                                 *)
(* ------------------------------------------------------------------ *)

Definition key (n : name) : N * list N := (lenN (utf16 n), utf16 (map upper n)).

Definition shortlex (a b : N * list N) : comparison :=
  match fst a ?= fst b with
  | Eq => lex_cmp (snd a) (snd b)
  | c => c
  end.

(* ------------------------------------------------------------------ *)
(* The table                                                            *)
(* ------------------------------------------------------------------ *)

Fixpoint flatten (t : uptree) : list (N * N) :=
  match t with
  | UL => []
  | UN l k v r => flatten l ++ (k, v) :: flatten r
  end.

Lemma up_lookup_flatten :
  forall t c v, up_lookup t c = Some v -> In (c, v) (flatten t).
Proof.
  induction t as [|l IHl k v r IHr]; intros c w H.
  - discriminate H.
  - cbn [up_lookup] in H. cbn [flatten]. apply in_or_app.
    destruct (c =? k) eqn:E.
    + apply N.eqb_eq in E. subst c. injection H as H. subst w.
      right. left. reflexivity.
    + destruct (c <? k).
      * left. apply IHl. exact H.
      * right. right. apply IHr. exact H.
Qed.

(* every character is either fixed by [upper], or the pair (c, upper c)
   satisfies any property that was checked on the whole table *)
Lemma upper_cases :
  forall (P : N -> N -> bool),
    forallb (fun kv => P (fst kv) (snd kv)) (flatten up_tree) = true ->
    forall c, upper c = c \/ P c (upper c) = true.
Proof.
  intros P HP c. unfold upper.
  destruct (up_lookup up_tree c) as [v|] eqn:E.
  - right. apply up_lookup_flatten in E.
    rewrite forallb_forall in HP. apply (HP (c, v)). exact E.
  - left. reflexivity.
Qed.

(* bounded sweep over 0 .. n-1 *)
Fixpoint below (n : nat) (P : N -> bool) : bool :=
  match n with
  | O => true
  | S m => P (N.of_nat m) && below m P
  end.

Lemma below_spec :
  forall n P, below n P = true -> forall c, c < N.of_nat n -> P c = true.
Proof.
  induction n as [|m IH]; intros P H c Hc.
  - exfalso. change (N.of_nat 0) with 0 in Hc. lia.
  - cbn [below] in H. apply andb_prop in H. destruct H as [H1 H2].
    destruct (N.eq_dec c (N.of_nat m)) as [E|NE].
    + subst c. exact H1.
    + apply (IH P H2). rewrite Nat2N.inj_succ in Hc. lia.
Qed.

Lemma table_ascii_check :
  below 128 (fun c => upper c =? ascii_upper c) = true.
Proof. vm_compute. reflexivity. Qed.

Lemma table_plane_check :
  forallb (fun kv => Bool.eqb (snd kv <? 65536) (fst kv <? 65536))
          (flatten up_tree) = true.
Proof. vm_compute. reflexivity. Qed.

Lemma table_idem_check :
  forallb (fun kv => upper (snd kv) =? snd kv) (flatten up_tree) = true.
Proof. vm_compute. reflexivity. Qed.

(* T1 *)
Theorem upper_ascii : forall c, c < 128 -> upper c = ascii_upper c.
Proof.
  intros c Hc. apply N.eqb_eq.
  apply (below_spec 128 (fun c => upper c =? ascii_upper c) table_ascii_check).
  exact Hc.
Qed.

Lemma upper_plane : forall c, (upper c <? 65536) = (c <? 65536).
Proof.
  intro c.
  destruct (upper_cases (fun k v => Bool.eqb (v <? 65536) (k <? 65536))
                        table_plane_check c) as [H|H].
  - rewrite H. reflexivity.
  - apply eqb_prop in H. exact H.
Qed.

(* T2 *)
Theorem upper_utf16_len :
  forall c, lenN (utf16_char (upper c)) = lenN (utf16_char c).
Proof.
  intro c. unfold utf16_char. rewrite upper_plane.
  destruct (c <? 65536); reflexivity.
Qed.

(* T3 *)
Theorem upper_idem : forall c, upper (upper c) = upper c.
Proof.
  intro c.
  destruct (upper_cases (fun _ v => upper v =? v) table_idem_check c) as [H|H].
  - rewrite H. exact H.
  - apply N.eqb_eq in H. exact H.
Qed.

(* from here on [upper] is only used through T1-T3 *)
Local Opaque upper.

(* ------------------------------------------------------------------ *)
(* lenN / utf16 helpers                                                 *)
(* ------------------------------------------------------------------ *)

Lemma lenN_app : forall A (a b : list A), lenN (a ++ b) = lenN a + lenN b.
Proof.
  intros A a b. induction a as [|x a IH]; cbn [lenN app].
  - reflexivity.
  - rewrite IH. lia.
Qed.

Lemma utf16_cons : forall c n, utf16 (c :: n) = utf16_char c ++ utf16 n.
Proof. reflexivity. Qed.

Lemma utf16_upper_len : forall n, lenN (utf16 (map upper n)) = lenN (utf16 n).
Proof.
  induction n as [|c n IH].
  - reflexivity.
  - cbn [map]. rewrite !utf16_cons, !lenN_app, IH, upper_utf16_len. reflexivity.
Qed.

Lemma map_upper_idem : forall n, map upper (map upper n) = map upper n.
Proof.
  induction n as [|c n IH]; cbn [map].
  - reflexivity.
  - rewrite upper_idem, IH. reflexivity.
Qed.

Lemma utf16_char_small : forall c, c < 65536 -> utf16_char c = [c].
Proof.
  intros c H. unfold utf16_char. apply N.ltb_lt in H. rewrite H. reflexivity.
Qed.

Lemma ascii_upper_le : forall c, ascii_upper c <= c.
Proof.
  intro c. unfold ascii_upper. destruct ((97 <=? c) && (c <=? 122)); lia.
Qed.

Lemma utf16_ascii : forall n, is_ascii n = true -> utf16 n = n.
Proof.
  induction n as [|c n IH]; intro H.
  - reflexivity.
  - unfold is_ascii in H. cbn [forallb] in H. apply andb_prop in H.
    destruct H as [Hc Hn]. apply N.ltb_lt in Hc.
    rewrite utf16_cons, utf16_char_small by lia.
    cbn [app]. f_equal. apply IH. exact Hn.
Qed.

Lemma utf16_upper_ascii :
  forall n, is_ascii n = true -> utf16 (map upper n) = map ascii_upper n.
Proof.
  induction n as [|c n IH]; intro H.
  - reflexivity.
  - unfold is_ascii in H. cbn [forallb] in H. apply andb_prop in H.
    destruct H as [Hc Hn]. apply N.ltb_lt in Hc.
    cbn [map]. rewrite utf16_cons, (upper_ascii c Hc).
    pose proof (ascii_upper_le c) as Hle.
    rewrite utf16_char_small by lia.
    cbn [app]. f_equal. apply IH. exact Hn.
Qed.

(* ------------------------------------------------------------------ *)
(* lex_cmp and shortlex are total orders                                *)
(* ------------------------------------------------------------------ *)

Lemma lex_cmp_refl : forall a, lex_cmp a a = Eq.
Proof.
  induction a as [|x a IH]; cbn [lex_cmp].
  - reflexivity.
  - rewrite N.compare_refl. exact IH.
Qed.

Lemma lex_cmp_antisym : forall a b, lex_cmp b a = CompOpp (lex_cmp a b).
Proof.
  induction a as [|x a IH]; intros [|y b]; cbn [lex_cmp CompOpp]; try reflexivity.
  rewrite (N.compare_antisym x y).
  destruct (x ?= y); cbn [CompOpp]; try reflexivity. apply IH.
Qed.

Lemma lex_cmp_eq : forall a b, lex_cmp a b = Eq <-> a = b.
Proof.
  induction a as [|x a IH]; intros [|y b]; cbn [lex_cmp]; split; intro H;
    try reflexivity; try discriminate H.
  - destruct (x ?= y) eqn:E; try discriminate H.
    apply N.compare_eq_iff in E. subst y. f_equal. apply IH. exact H.
  - injection H as Hx Ha. subst y b. rewrite N.compare_refl. apply lex_cmp_refl.
Qed.

Lemma lex_cmp_trans_lt :
  forall a b c, lex_cmp a b = Lt -> lex_cmp b c = Lt -> lex_cmp a c = Lt.
Proof.
  induction a as [|x a IH]; intros [|y b] [|z c] H1 H2; cbn [lex_cmp] in *;
    try discriminate; try reflexivity.
  destruct (N.compare_spec x y) as [E1|E1|E1]; try discriminate H1;
    destruct (N.compare_spec y z) as [E2|E2|E2]; try discriminate H2;
    destruct (N.compare_spec x z) as [E3|E3|E3]; try lia; try reflexivity.
  eapply IH; eassumption.
Qed.

Lemma shortlex_refl : forall p, shortlex p p = Eq.
Proof.
  intro p. unfold shortlex. rewrite N.compare_refl. apply lex_cmp_refl.
Qed.

Lemma shortlex_antisym : forall p q, shortlex q p = CompOpp (shortlex p q).
Proof.
  intros p q. unfold shortlex. rewrite (N.compare_antisym (fst p) (fst q)).
  destruct (fst p ?= fst q); cbn [CompOpp]; try reflexivity.
  apply lex_cmp_antisym.
Qed.

Lemma shortlex_eq : forall p q, shortlex p q = Eq <-> p = q.
Proof.
  intros [p1 p2] [q1 q2]. unfold shortlex. cbn [fst snd]. split; intro H.
  - destruct (p1 ?= q1) eqn:E; try discriminate H.
    apply N.compare_eq_iff in E. apply lex_cmp_eq in H. subst. reflexivity.
  - injection H as H1 H2. subst. rewrite N.compare_refl. apply lex_cmp_refl.
Qed.

Lemma shortlex_trans_lt :
  forall p q r, shortlex p q = Lt -> shortlex q r = Lt -> shortlex p r = Lt.
Proof.
  intros [p1 p2] [q1 q2] [r1 r2]. unfold shortlex. cbn [fst snd]. intros H1 H2.
  destruct (N.compare_spec p1 q1) as [E1|E1|E1]; try discriminate H1;
    destruct (N.compare_spec q1 r1) as [E2|E2|E2]; try discriminate H2;
    destruct (N.compare_spec p1 r1) as [E3|E3|E3]; try lia; try reflexivity.
  eapply lex_cmp_trans_lt; eassumption.
Qed.

(* ------------------------------------------------------------------ *)
(* cmp_names                                                            *)
(* ------------------------------------------------------------------ *)

Theorem cmp_names_key : forall a b, cmp_names a b = shortlex (key a) (key b).
Proof.
  intros a b. unfold cmp_names, shortlex, key. cbn [fst snd].
  destruct (is_ascii a && is_ascii b) eqn:E.
  - apply andb_prop in E. destruct E as [Ha Hb].
    rewrite (utf16_ascii a Ha), (utf16_ascii b Hb).
    rewrite (utf16_upper_ascii a Ha), (utf16_upper_ascii b Hb).
    reflexivity.
  - reflexivity.
Qed.

Theorem cmp_names_refl : forall a, cmp_names a a = Eq.
Proof. intro a. rewrite cmp_names_key. apply shortlex_refl. Qed.

Theorem cmp_names_antisym : forall a b, cmp_names b a = CompOpp (cmp_names a b).
Proof. intros a b. rewrite !cmp_names_key. apply shortlex_antisym. Qed.

Theorem cmp_names_trans_lt :
  forall a b c, cmp_names a b = Lt -> cmp_names b c = Lt -> cmp_names a c = Lt.
Proof.
  intros a b c. rewrite !cmp_names_key. apply shortlex_trans_lt.
Qed.

Lemma cmp_names_eq_key : forall a b, cmp_names a b = Eq <-> key a = key b.
Proof. intros a b. rewrite cmp_names_key. apply shortlex_eq. Qed.

Theorem cmp_names_eq_trans :
  forall a b c, cmp_names a b = Eq -> cmp_names b c = Eq -> cmp_names a c = Eq.
Proof.
  intros a b c H1 H2. apply cmp_names_eq_key in H1. apply cmp_names_eq_key in H2.
  apply cmp_names_eq_key. congruence.
Qed.

Theorem cmp_names_eq_compat_l :
  forall a b c, cmp_names a b = Eq -> cmp_names a c = cmp_names b c.
Proof.
  intros a b c H. apply cmp_names_eq_key in H. rewrite !cmp_names_key, H.
  reflexivity.
Qed.

Theorem cmp_names_eq_compat_r :
  forall a b c, cmp_names a b = Eq -> cmp_names c a = cmp_names c b.
Proof.
  intros a b c H. apply cmp_names_eq_key in H. rewrite !cmp_names_key, H.
  reflexivity.
Qed.

Theorem cmp_names_eq_iff :
  forall a b, cmp_names a b = Eq <-> utf16 (map upper a) = utf16 (map upper b).
Proof.
  intros a b. rewrite cmp_names_eq_key. unfold key. split; intro H.
  - injection H as _ H. exact H.
  - f_equal; [|exact H].
    rewrite <- (utf16_upper_len a), <- (utf16_upper_len b), H. reflexivity.
Qed.

Theorem cmp_names_case_insensitive : forall a, cmp_names (map upper a) a = Eq.
Proof.
  intro a. apply cmp_names_eq_iff. rewrite map_upper_idem. reflexivity.
Qed.

(* bonus: the Gt direction and the usual consequences *)
Theorem cmp_names_trans_gt :
  forall a b c, cmp_names a b = Gt -> cmp_names b c = Gt -> cmp_names a c = Gt.
Proof.
  intros a b c H1 H2.
  rewrite (cmp_names_antisym b a) in H1. rewrite (cmp_names_antisym c b) in H2.
  rewrite (cmp_names_antisym c a).
  rewrite (cmp_names_trans_lt c b a); [reflexivity| |].
  - destruct (cmp_names c b); try discriminate H2; reflexivity.
  - destruct (cmp_names b a); try discriminate H1; reflexivity.
Qed.

(* ------------------------------------------------------------------ *)
(* validate_name                                                        *)
(* ------------------------------------------------------------------ *)

Theorem validate_name_spec :
  forall n,
    validate_name n =
    (if (lenN (utf16 n) <=? MAX_NAME_LEN)
        && negb (existsb (fun f => memN f n) FORBIDDEN_CHARS)
     then Ok (utf16 n) else Err EInvalidInput).
Proof.
  intro n. unfold validate_name. cbv zeta. rewrite N.ltb_antisym.
  destruct (lenN (utf16 n) <=? MAX_NAME_LEN); cbn [negb andb]; [|reflexivity].
  destruct (existsb (fun f => memN f n) FORBIDDEN_CHARS); reflexivity.
Qed.

Lemma memN_In : forall x l, memN x l = true <-> In x l.
Proof.
  intros x l. induction l as [|y l IH]; cbn [memN In].
  - split; [discriminate | tauto].
  - rewrite orb_true_iff, N.eqb_eq, IH. split; intros [H|H]; auto.
Qed.

(* deliberately tied to the generated constants *)
Lemma MAX_NAME_LEN_is_31 : MAX_NAME_LEN = 31.
Proof. reflexivity. Qed.
Lemma FORBIDDEN_CHARS_are : FORBIDDEN_CHARS = [47; 92; 58; 33].
Proof. reflexivity. Qed.

Theorem validate_name_ok_iff :
  forall n,
    (exists u, validate_name n = Ok u) <->
    (lenN (utf16 n) <= 31 /\ ~ In 47 n /\ ~ In 92 n /\ ~ In 58 n /\ ~ In 33 n).
Proof.
  intro n. rewrite validate_name_spec.
  rewrite MAX_NAME_LEN_is_31, FORBIDDEN_CHARS_are. cbn [existsb].
  rewrite <- N.leb_le, <- !memN_In.
  destruct (lenN (utf16 n) <=? 31), (memN 47 n), (memN 92 n), (memN 58 n), (memN 33 n);
    cbn [andb negb orb]; split;
    try (intros [u H]; first [discriminate H | repeat split; congruence]);
    try (intros (H0 & H1 & H2 & H3 & H4);
         first [eexists; reflexivity | exfalso; congruence]).
Qed.

(* ------------------------------------------------------------------ *)
(* name_chain_go on component lists                                     *)
(* ------------------------------------------------------------------ *)

Theorem chain_cur_skip :
  forall cs1 cs2 names,
    name_chain_go (cs1 ++ CCur :: cs2) names = name_chain_go (cs1 ++ cs2) names.
Proof.
  induction cs1 as [|c cs1 IH]; intros cs2 names; cbn [app].
  - reflexivity.
  - destruct c; cbn [name_chain_go]; try apply IH.
    destruct names; [reflexivity | apply IH].
Qed.

Theorem chain_parent_cancel :
  forall cs1 cs2 x names,
    name_chain_go (cs1 ++ CNormal x :: CParent :: cs2) names =
    name_chain_go (cs1 ++ cs2) names.
Proof.
  induction cs1 as [|c cs1 IH]; intros cs2 x names; cbn [app].
  - cbn [name_chain_go].
    destruct (names ++ [x]) as [|y l] eqn:E.
    + apply app_eq_nil in E. destruct E as [_ E]. discriminate E.
    + rewrite <- E. unfold pop_last. rewrite removelast_last. reflexivity.
  - destruct c; cbn [name_chain_go]; try apply IH.
    destruct names; [reflexivity | apply IH].
Qed.

Theorem chain_escape : forall cs, name_chain_go (CParent :: cs) [] = Err EInvalidInput.
Proof. reflexivity. Qed.

Theorem chain_only_invalid_input :
  forall cs names k, name_chain_go cs names = Err k -> k = EInvalidInput.
Proof.
  induction cs as [|c cs IH]; intros names k H; cbn [name_chain_go] in H.
  - discriminate H.
  - destruct c; try (eapply IH; exact H).
    destruct names.
    + injection H as H. symmetry. exact H.
    + eapply IH; exact H.
Qed.

Theorem chain_never_bad : forall cs names, is_bad (name_chain_go cs names) = false.
Proof.
  induction cs as [|c cs IH]; intro names; cbn [name_chain_go].
  - reflexivity.
  - destruct c; try apply IH.
    destruct names; [reflexivity | apply IH].
Qed.

(* ------------------------------------------------------------------ *)
(* paths as strings                                                     *)
(* ------------------------------------------------------------------ *)

Definition piece_comps (s : list N) : list comp :=
  match s with
  | [] => []
  | _ => if is_dot s then [] else if is_dotdot s then [CParent] else [CNormal s]
  end.

Definition body (pieces : list (list N)) : list comp := flat_map piece_comps pieces.

(* CRoot / CCur at the head are no-ops when starting from [] *)
Lemma name_chain_from_path_body :
  forall p, name_chain_from_path p = name_chain_go (body (split_slash p [])) [].
Proof.
  intros [|c0 t].
  - reflexivity.
  - unfold name_chain_from_path, components, body, piece_comps. cbv zeta.
    set (pieces := split_slash (c0 :: t) []).
    destruct (c0 =? SLASH).
    + reflexivity.
    + destruct pieces as [|s ps].
      * reflexivity.
      * destruct (is_dot s); reflexivity.
Qed.

(* split_slash = front pieces ++ [last piece] *)
Fixpoint sp_front (p cur : list N) : list (list N) :=
  match p with
  | [] => []
  | c :: t => if c =? SLASH then rev cur :: sp_front t [] else sp_front t (c :: cur)
  end.

Fixpoint sp_last (p cur : list N) : list N :=
  match p with
  | [] => rev cur
  | c :: t => if c =? SLASH then sp_last t [] else sp_last t (c :: cur)
  end.

Lemma split_slash_front_last :
  forall p cur, split_slash p cur = sp_front p cur ++ [sp_last p cur].
Proof.
  induction p as [|c t IH]; intro cur; cbn [split_slash sp_front sp_last].
  - reflexivity.
  - destruct (c =? SLASH); cbn [app]; rewrite IH; reflexivity.
Qed.

Lemma split_slash_app_slash :
  forall p cur q,
    split_slash (p ++ SLASH :: q) cur =
    sp_front p cur ++ sp_last p cur :: split_slash q [].
Proof.
  induction p as [|c t IH]; intros cur q; cbn [app split_slash sp_front sp_last].
  - rewrite N.eqb_refl. reflexivity.
  - destruct (c =? SLASH); cbn [app]; rewrite IH; reflexivity.
Qed.

Lemma body_app : forall a b, body (a ++ b) = body a ++ body b.
Proof. intros a b. unfold body. apply flat_map_app. Qed.

Lemma body_cons : forall s l, body (s :: l) = piece_comps s ++ body l.
Proof. reflexivity. Qed.

(* components contributed by a prefix that is followed by a slash or the end *)
Definition pre (p : list N) : list comp :=
  body (sp_front p []) ++ piece_comps (sp_last p []).

Lemma body_split : forall p, body (split_slash p []) = pre p.
Proof.
  intro p. rewrite split_slash_front_last, body_app, body_cons.
  unfold pre. cbn [body flat_map]. rewrite app_nil_r. reflexivity.
Qed.

Lemma body_split_app :
  forall p q, body (split_slash (p ++ SLASH :: q) []) = pre p ++ body (split_slash q []).
Proof.
  intros p q. rewrite split_slash_app_slash, body_app, body_cons.
  unfold pre. rewrite <- app_assoc. reflexivity.
Qed.

Lemma sp_no_slash :
  forall x cur, ~ In SLASH x -> sp_front x cur = [] /\ sp_last x cur = rev cur ++ x.
Proof.
  induction x as [|c x IH]; intros cur H; cbn [sp_front sp_last].
  - rewrite app_nil_r. split; reflexivity.
  - destruct (c =? SLASH) eqn:E.
    + apply N.eqb_eq in E. exfalso. apply H. left. exact E.
    + destruct (IH (c :: cur)) as [H1 H2].
      * intro HI. apply H. right. exact HI.
      * split; [exact H1|]. rewrite H2. cbn [rev]. rewrite <- app_assoc. reflexivity.
Qed.

Lemma pre_normal :
  forall x, x <> [] -> ~ In SLASH x -> is_dot x = false -> is_dotdot x = false ->
            pre x = [CNormal x].
Proof.
  intros x Hne Hs Hd Hdd. unfold pre.
  destruct (sp_no_slash x [] Hs) as [H1 H2]. rewrite H1, H2. cbn [rev app body flat_map].
  unfold piece_comps. destruct x as [|c x]; [contradiction|].
  rewrite Hd, Hdd. reflexivity.
Qed.

Theorem path_trailing_slash :
  forall p, name_chain_from_path (p ++ [SLASH]) = name_chain_from_path p.
Proof.
  intro p. rewrite !name_chain_from_path_body. f_equal.
  rewrite body_split_app, (body_split p).
  change (body (split_slash [] [])) with (@nil comp). apply app_nil_r.
Qed.

Theorem path_leading_slash :
  forall p, name_chain_from_path (SLASH :: p) = name_chain_from_path p.
Proof.
  intro p. rewrite !name_chain_from_path_body.
  (* split_slash (SLASH :: p) [] = [] :: split_slash p [], and [] contributes nothing *)
  reflexivity.
Qed.

Lemma split_dot_slash :
  forall q, split_slash (DOT :: SLASH :: q) [] = [DOT] :: split_slash q [].
Proof. reflexivity. Qed.

Lemma split_dotdot_slash :
  forall q, split_slash (DOT :: DOT :: SLASH :: q) [] = [DOT; DOT] :: split_slash q [].
Proof. reflexivity. Qed.

Theorem path_dot_component :
  forall p q,
    name_chain_from_path (p ++ [SLASH; DOT; SLASH] ++ q) =
    name_chain_from_path (p ++ [SLASH] ++ q).
Proof.
  intros p q. rewrite !name_chain_from_path_body. f_equal.
  cbn [app]. rewrite !body_split_app, split_dot_slash. reflexivity.
Qed.

Theorem path_dotdot_component :
  forall p q x,
    x <> [] -> ~ In SLASH x -> is_dot x = false -> is_dotdot x = false ->
    name_chain_from_path (p ++ [SLASH] ++ x ++ [SLASH; DOT; DOT; SLASH] ++ q) =
    name_chain_from_path (p ++ [SLASH] ++ q).
Proof.
  intros p q x Hne Hs Hd Hdd. rewrite !name_chain_from_path_body.
  cbn [app]. rewrite !body_split_app, split_dotdot_slash.
  rewrite (pre_normal x Hne Hs Hd Hdd).
  change (body ([DOT; DOT] :: split_slash q [])) with (CParent :: body (split_slash q [])).
  cbn [app]. apply chain_parent_cancel.
Qed.

(* ------------------------------------------------------------------ *)

Print Assumptions upper_ascii.
Print Assumptions upper_utf16_len.
Print Assumptions upper_idem.
Print Assumptions cmp_names_key.
Print Assumptions cmp_names_refl.
Print Assumptions cmp_names_antisym.
Print Assumptions cmp_names_trans_lt.
Print Assumptions cmp_names_eq_trans.
Print Assumptions cmp_names_eq_compat_l.
Print Assumptions cmp_names_eq_compat_r.
Print Assumptions cmp_names_eq_iff.
Print Assumptions cmp_names_case_insensitive.
Print Assumptions validate_name_spec.
Print Assumptions validate_name_ok_iff.
Print Assumptions chain_cur_skip.
Print Assumptions chain_parent_cancel.
Print Assumptions chain_escape.
Print Assumptions chain_only_invalid_input.
Print Assumptions chain_never_bad.
Print Assumptions path_trailing_slash.
Print Assumptions path_leading_slash.
Print Assumptions path_dot_component.
Print Assumptions path_dotdot_component.
