(* QueryRefine.v — property C01, read-only half: when the directory table of a
   model state REPRESENTS an abstract tree t (TreeRep), every query operation
   of the model (exists / is_stream / is_storage / entry / root_entry /
   read_storage / read_root / open_stream / walk / walk_storage) returns
   exactly what the specification Tree.spec_step returns on t, leaves the
   state unchanged and never panics or runs out of fuel. *)
From Coq Require Import List NArith Lia Bool Sorted Permutation ZifyN ZifyBool Arith.
From Cfb.model Require Import Base Names Time DirEnt State Alloc Dir Mini Store Handle Open Cfb.
From Cfb.gen Require Import Consts.
From Cfb.spec Require Import Tree.
From Cfb.proofs Require Import NamesProofs DirProofs TreeProofs.
Open Scope N_scope.

Local Opaque cmp_names validate_name name_chain_from_path path_join path_from_name_chain.

(* ================================================================== *)
(* 0. run lemmas for the monad (all by computation)                    *)
(* ================================================================== *)
Lemma q_bind_eq : forall A B (m : M A) (f : A -> M B) s,
  bind m f s = (let '(s1, r) := m s in
                match r with
                | Ok a => f a s1
                | Err k => (s1, Err k)
                | Panic n => (s1, Panic n)
                | OutOfFuel => (s1, OutOfFuel)
                end).
Proof. reflexivity. Qed.

Lemma q_lookup_run : forall names s,
  lookup names s = (s, lookup_chain (dirs s) names ROOT_STREAM_ID).
Proof. reflexivity. Qed.

Lemma q_dir_entry_run : forall id s, dir_entry id s = (s, dir_entry_of (dirs s) id).
Proof.
  intros id s. unfold dir_entry, dir_entry_of, bind, State.get.
  destruct (nthN (dirs s) id); reflexivity.
Qed.

Lemma q_names_of_run : forall p s, names_of p s = (s, name_chain_from_path p).
Proof. reflexivity. Qed.

Lemma name_chain_not_bad : forall p, is_bad (name_chain_from_path p) = false.
Proof.
  intros p. Local Transparent name_chain_from_path. unfold name_chain_from_path.
  Local Opaque name_chain_from_path. apply chain_never_bad.
Qed.

(* ================================================================== *)
(* 1. the representation relation                                      *)
(* ================================================================== *)

Definition meta_of (e : dirent) : meta :=
  mkMeta (d_clsid e) (d_state e) (d_ctime e) (d_mtime e).

Section Representation.
Variable ds : list dirent.
(* "the stream stored at entry id holds these bytes" *)
Variable content : N -> list byte -> Prop.

(* [NodeRep r id nm n]: table entry [id] carries the (stored) name [nm] and
   represents the abstract node [n]; [r] says whether it is the root entry
   (typed TRoot, length = mini-stream size, not part of the abstraction) or an
   ordinary storage / stream. *)
Fixpoint NodeRep (r : bool) (id : N) (nm : name) (n : node) {struct n} : Prop :=
  id < NO_STREAM /\
  exists e, nthN ds id = Some e /\ d_name e = nm /\
  match n with
  | Leaf st bs =>
      r = false /\ d_type e = TStream /\ d_child e = NO_STREAM /\
      d_state e = st /\ d_len e = lenN bs /\ content id bs /\
      d_clsid e = 0 /\ d_ctime e = 0 /\ d_mtime e = 0
  | Dir m ks =>
      d_type e = (if r then TRoot else TStorage) /\ meta_of e = m /\
      (r = false -> d_len e = 0) /\
      exists t, Rep ds (d_child e) t /\ bst ds t /\ NoDup (ids t) /\
        (fix kr (l : list N) (ks : list (name * node)) {struct ks} : Prop :=
           match ks, l with
           | [], [] => True
           | (k, c) :: ks', i :: l' => NodeRep false i k c /\ kr l' ks'
           | _, _ => False
           end) (ids t) ks
  end.

Definition KidRep (i : N) (kn : name * node) : Prop := NodeRep false i (fst kn) (snd kn).
Definition KidsRep (l : list N) (ks : list (name * node)) : Prop := Forall2 KidRep l ks.

Definition TreeRep (t : node) : Prop := NodeRep true ROOT_STREAM_ID ROOT_DIR_NAME t.

Lemma kr_Forall2 : forall ks l,
  (fix kr (l : list N) (ks : list (name * node)) {struct ks} : Prop :=
     match ks, l with
     | [], [] => True
     | (k, c) :: ks', i :: l' => NodeRep false i k c /\ kr l' ks'
     | _, _ => False
     end) l ks <-> KidsRep l ks.
Proof.
  induction ks as [|[k c] ks IH]; intros l.
  - destruct l as [|i l]; split; intros H; try constructor; try contradiction. inversion H.
  - destruct l as [|i l]; split; intros H; try contradiction.
    + inversion H.
    + destruct H as [H1 H2]. constructor; [exact H1|]. apply IH. exact H2.
    + inversion H as [|a b c' d H1 H2]; subst. split; [exact H1|]. apply IH. exact H2.
Qed.

Lemma NodeRep_leaf : forall r id nm st bs,
  NodeRep r id nm (Leaf st bs) <->
  id < NO_STREAM /\ exists e, nthN ds id = Some e /\ d_name e = nm /\
    r = false /\ d_type e = TStream /\ d_child e = NO_STREAM /\
    d_state e = st /\ d_len e = lenN bs /\ content id bs /\
    d_clsid e = 0 /\ d_ctime e = 0 /\ d_mtime e = 0.
Proof. intros. reflexivity. Qed.

Lemma NodeRep_dir : forall r id nm m ks,
  NodeRep r id nm (Dir m ks) <->
  id < NO_STREAM /\ exists e, nthN ds id = Some e /\ d_name e = nm /\
    d_type e = (if r then TRoot else TStorage) /\ meta_of e = m /\
    (r = false -> d_len e = 0) /\
    exists t, Rep ds (d_child e) t /\ bst ds t /\ NoDup (ids t) /\ KidsRep (ids t) ks.
Proof.
  intros. cbn [NodeRep]. split.
  - intros (Hid & e & He & Hn & Ht & Hm & Hl & t & HR & HB & ND & HK).
    split; [exact Hid|]. exists e. repeat (split; [assumption|]).
    exists t. repeat (split; [assumption|]). apply kr_Forall2. exact HK.
  - intros (Hid & e & He & Hn & Ht & Hm & Hl & t & HR & HB & ND & HK).
    split; [exact Hid|]. exists e. repeat (split; [assumption|]).
    exists t. repeat (split; [assumption|]). apply kr_Forall2. exact HK.
Qed.

(* what every represented node says about its table entry *)
Lemma NodeRep_entry : forall r id nm n, NodeRep r id nm n ->
  id < NO_STREAM /\ exists e, nthN ds id = Some e /\ d_name e = nm /\
    d_type e = match n with Leaf _ _ => TStream | Dir _ _ => if r then TRoot else TStorage end.
Proof.
  intros r id nm [st bs|m ks] H.
  - apply NodeRep_leaf in H. destruct H as (Hid & e & He & Hn & _ & Ht & _).
    split; [exact Hid|]. exists e. auto.
  - apply NodeRep_dir in H. destruct H as (Hid & e & He & Hn & Ht & _).
    split; [exact Hid|]. exists e. auto.
Qed.

Lemma NodeRep_root_dir : forall id nm n, NodeRep true id nm n -> exists m ks, n = Dir m ks.
Proof.
  intros id nm [st bs|m ks] H; [|eauto].
  apply NodeRep_leaf in H. destruct H as (_ & e & _ & _ & Hr & _). discriminate Hr.
Qed.

Lemma KidRep_nm : forall i kn, KidRep i kn -> nm_of ds i = fst kn.
Proof.
  intros i kn H. apply NodeRep_entry in H. destruct H as (_ & e & He & Hn & _).
  unfold nm_of. rewrite He. exact Hn.
Qed.

Lemma KidsRep_names : forall l ks, KidsRep l ks -> map (nm_of ds) l = map fst ks.
Proof.
  induction 1 as [|i kn l ks H _ IH]; [reflexivity|].
  cbn [map]. rewrite IH, (KidRep_nm _ _ H). reflexivity.
Qed.

Lemma Forall2_in_l : forall A B (R : A -> B -> Prop) l m a,
  Forall2 R l m -> In a l -> exists b, In b m /\ R a b.
Proof.
  induction 1 as [|x y l m Hxy _ IH]; intros Hin; [contradiction|].
  destruct Hin as [<-|Hin].
  - exists y. split; [left; reflexivity|exact Hxy].
  - destruct (IH Hin) as (b & Hb & Rb). exists b. split; [right; exact Hb|exact Rb].
Qed.

Lemma Forall2_in_r : forall A B (R : A -> B -> Prop) l m b,
  Forall2 R l m -> In b m -> exists a, In a l /\ R a b.
Proof.
  induction 1 as [|x y l m Hxy _ IH]; intros Hin; [contradiction|].
  destruct Hin as [<-|Hin].
  - exists x. split; [left; reflexivity|exact Hxy].
  - destruct (IH Hin) as (a & Ha & Ra). exists a. split; [right; exact Ha|exact Ra].
Qed.

(* ---- the order of the sibling tree is the order of the children list ---- *)
Lemma SS_ltn_names : forall l,
  StronglySorted (ltn ds) l -> StronglySorted name_lt (map (nm_of ds) l).
Proof.
  induction 1 as [|a l _ IH F]; cbn [map]; constructor; [exact IH|].
  apply Forall_forall. intros y Hy. apply in_map_iff in Hy. destruct Hy as (j & <- & Hj).
  rewrite Forall_forall in F. apply F. exact Hj.
Qed.

Lemma kids_sorted : forall t ks, bst ds t -> KidsRep (ids t) ks -> sorted_kids ks.
Proof.
  intros t ks B K. apply sorted_kids_StronglySorted. rewrite <- (KidsRep_names _ _ K).
  apply SS_ltn_names. apply bst_sorted. exact B.
Qed.

(* ---- the bridge: table lookup in the sibling tree = find_kid ---- *)
Lemma find_bridge : forall nm t ks, bst ds t -> KidsRep (ids t) ks ->
  match bst_find ds nm t, find_kid nm ks with
  | Some i, Some (k, c) => NodeRep false i k c /\ cmp_names nm k = Eq
  | None, None => True
  | _, _ => False
  end.
Proof.
  intros nm t ks B K. pose proof (kids_sorted _ _ B K) as S.
  destruct (bst_find ds nm t) as [i|] eqn:E.
  - apply bst_find_sound in E. destruct E as [Hin Hc].
    destruct (Forall2_in_l _ _ _ _ _ _ K Hin) as ([k c] & Hkin & HR).
    pose proof (KidRep_nm _ _ HR) as Hnm. cbn [fst] in Hnm. rewrite Hnm in Hc.
    rewrite (find_kid_sorted_in nm ks k c S Hkin Hc). split; [exact HR|exact Hc].
  - assert (find_kid nm ks = None) as F.
    { apply find_kid_none_iff. intros y Hy.
      destruct (Forall2_in_r _ _ _ _ _ _ K Hy) as (i & Hi & HR).
      rewrite <- (KidRep_nm _ _ HR).
      apply (proj1 (bst_find_none ds nm t B) E). exact Hi. }
    rewrite F. exact I.
Qed.

(* ================================================================== *)
(* Q1. sorted children lists                                           *)
(* ================================================================== *)
Lemma NodeRep_wf : forall n r id nm, NodeRep r id nm n -> wf_node n.
Proof.
  induction n as [st bs|m ks IH] using node_ind'; intros r id nm H; [constructor|].
  apply NodeRep_dir in H.
  destruct H as (_ & e & _ & _ & _ & _ & _ & t & _ & B & _ & K).
  constructor; [eapply kids_sorted; eassumption|].
  apply Forall_forall. intros kc Hkc.
  destruct (Forall2_in_r _ _ _ _ _ _ K Hkc) as (i & _ & HR).
  rewrite Forall_forall in IH. eapply IH; [exact Hkc|exact HR].
Qed.

Theorem kids_sorted_of_rep : forall t, TreeRep t -> wf_node t.
Proof. intros t H. eapply NodeRep_wf. exact H. Qed.

(* ================================================================== *)
(* Q2. path lookup on the table = get on the tree                      *)
(* ================================================================== *)
Definition is_nil {A} (l : list A) : bool := match l with [] => true | _ => false end.

Lemma lookup_refines_get_gen : forall names r id nm n,
  NodeRep r id nm n ->
  exists res, lookup_chain ds names id = Ok res /\
    match res, Tree.get n names with
    | Some id', Some n' =>
        NodeRep (r && is_nil names) id' (stored_name n names nm) n' /\
        (names <> [] -> cmp_names (last names []) (stored_name n names nm) = Eq)
    | None, None => True
    | _, _ => False
    end.
Proof.
  induction names as [|a rest IH]; intros r id nm n H.
  - exists (Some id). split; [reflexivity|]. cbn [Tree.get stored_name is_nil].
    rewrite andb_true_r. split; [exact H|]. intros C. congruence.
  - cbn [lookup_chain Tree.get stored_name].
    destruct n as [st bs|m ks].
    + apply NodeRep_leaf in H. destruct H as (_ & e & He & _ & _ & _ & Hc & _).
      exists None. unfold dir_entry_of. rewrite He. cbn [rbind]. rewrite Hc.
      cbn [find_in_siblings]. rewrite N.eqb_refl. cbn [rbind]. split; [reflexivity|exact I].
    + apply NodeRep_dir in H.
      destruct H as (_ & e & He & _ & _ & _ & _ & t & HR & B & ND & K).
      unfold dir_entry_of. rewrite He. cbn [rbind].
      rewrite (find_in_siblings_total ds a t (d_child e) HR ND). cbn [rbind].
      pose proof (find_bridge a t ks B K) as Br.
      destruct (bst_find ds a t) as [i|]; destruct (find_kid a ks) as [[k c]|]; try contradiction.
      * destruct Br as [HK Hak].
        destruct (IH false i k c HK) as (res & Hl & Hm).
        exists res. split; [exact Hl|].
        destruct res as [id'|]; destruct (Tree.get c rest) as [n'|]; try contradiction; [|exact I].
        destruct Hm as [Hm1 Hm2]. cbn [is_nil]. rewrite andb_false_r. cbn [andb] in Hm1.
        split; [exact Hm1|]. intros _.
        destruct rest as [|b rest'].
        -- cbn [last stored_name]. exact Hak.
        -- change (last (a :: b :: rest') []) with (last (b :: rest') []).
           apply Hm2. discriminate.
      * exists None. split; [reflexivity|exact I].
Qed.

Theorem lookup_refines_get : forall t, TreeRep t -> forall names,
  exists res, lookup_chain ds names ROOT_STREAM_ID = Ok res /\
    match res, Tree.get t names with
    | Some id, Some n =>
        exists nm, NodeRep (is_nil names) id nm n /\
                   nm = stored_name t names ROOT_DIR_NAME /\
                   (names <> [] -> cmp_names (last names []) nm = Eq)
    | None, None => True
    | _, _ => False
    end.
Proof.
  intros t H names.
  destruct (lookup_refines_get_gen names true ROOT_STREAM_ID ROOT_DIR_NAME t H) as (res & Hl & Hm).
  exists res. split; [exact Hl|].
  destruct res as [id|]; destruct (Tree.get t names) as [n|]; try contradiction; [|exact I].
  destruct Hm as [H1 H2]. cbn [andb] in H1. eauto.
Qed.

End Representation.

Arguments NodeRep_leaf {ds content}.
Arguments NodeRep_dir {ds content}.

(* ================================================================== *)
(* 2. translation of results                                           *)
(* ================================================================== *)
Definition to_etype (t : objtype) : etype :=
  match t with TStream => EStream | TRoot => ERoot | _ => EStorage end.
Definition to_sentry (e : entry) : sentry :=
  mkSEntry (e_name e) (e_path e) (to_etype (e_type e)) (e_clsid e) (e_state e)
           (e_ctime e) (e_mtime e) (e_len e).

(* equal up to the length reported for a root entry (the implementation
   reports the mini-stream size there) *)
Definition sentry_eq_mod_rootlen (a b : sentry) : Prop :=
  se_name a = se_name b /\ se_path a = se_path b /\ se_type a = se_type b /\
  se_clsid a = se_clsid b /\ se_state a = se_state b /\
  se_ctime a = se_ctime b /\ se_mtime a = se_mtime b /\
  (se_type a <> ERoot -> se_len a = se_len b).

Definition entry_rel (e : entry) (se : sentry) : Prop := sentry_eq_mod_rootlen (to_sentry e) se.

Definition val_rel (v : value) (sv : svalue) : Prop :=
  match v, sv with
  | VUnit, SVUnit => True
  | VBool b, SVBool b' => b = b'
  | VBytes bs, SVBytes bs' => bs = bs'
  | VEntry e, SVEntry e' => entry_rel e e'
  | VEntries es, SVEntries es' => Forall2 entry_rel es es'
  | _, _ => False
  end.

(* same outcome: both Ok with related values, or both Err with the same kind;
   in particular the model's result is neither Panic nor OutOfFuel *)
Definition res_rel {A B} (R : A -> B -> Prop) (r : res A) (r' : res B) : Prop :=
  match r, r' with
  | Ok a, Ok b => R a b
  | Err k, Err k' => k = k'
  | _, _ => False
  end.

Lemma sentry_eq_refl : forall a, sentry_eq_mod_rootlen a a.
Proof. intros a. unfold sentry_eq_mod_rootlen. repeat split; reflexivity. Qed.

Lemma res_rel_not_bad : forall A B (R : A -> B -> Prop) r r', res_rel R r r' -> is_bad r = false.
Proof. intros A B R [a|k|n|] [b|k'|n'|] H; try contradiction; reflexivity. Qed.

Section Queries.
Variable content : N -> list byte -> Prop.

Lemma NodeRep_entry_exact : forall ds id nm n e path,
  NodeRep ds content false id nm n -> nthN ds id = Some e ->
  to_sentry (entry_of e path) = entry_for false nm path n.
Proof.
  intros ds id nm [st bs|m ks] e path H He.
  - apply NodeRep_leaf in H.
    destruct H as (_ & e' & He' & Hn & _ & Ht & _ & Hs & Hl & _ & Hc & Hct & Hmt).
    assert (e' = e) by congruence. subst e'.
    unfold to_sentry, entry_of, entry_for. cbn [e_name e_path e_type e_clsid e_state e_ctime e_mtime e_len].
    rewrite Hn, Ht, Hs, Hl, Hc, Hct, Hmt. reflexivity.
  - apply NodeRep_dir in H.
    destruct H as (_ & e' & He' & Hn & Ht & Hm & Hl & _).
    assert (e' = e) by congruence. subst e'. subst m.
    unfold to_sentry, entry_of, entry_for, meta_of.
    cbn [e_name e_path e_type e_clsid e_state e_ctime e_mtime e_len m_clsid m_state m_ctime m_mtime].
    rewrite Hn, Ht, (Hl eq_refl). reflexivity.
Qed.

Lemma NodeRep_entry_rel : forall ds r id nm n e path,
  NodeRep ds content r id nm n -> nthN ds id = Some e ->
  entry_rel (entry_of e path) (entry_for r nm path n).
Proof.
  intros ds [|] id nm n e path H He.
  - destruct (NodeRep_root_dir _ _ _ _ _ H) as (m & ks & ->).
    apply NodeRep_dir in H. destruct H as (_ & e' & He' & Hn & Ht & Hm & _).
    assert (e' = e) by congruence. subst e'. subst m.
    unfold entry_rel, sentry_eq_mod_rootlen, to_sentry, entry_of, entry_for, meta_of.
    cbn [e_name e_path e_type e_clsid e_state e_ctime e_mtime e_len m_clsid m_state m_ctime m_mtime
         se_name se_path se_type se_clsid se_state se_ctime se_mtime se_len].
    rewrite Hn, Ht. cbn [to_etype]. repeat split; try reflexivity. intros C. congruence.
  - unfold entry_rel. rewrite (NodeRep_entry_exact _ _ _ _ _ path H He). apply sentry_eq_refl.
Qed.

Lemma name_chain_err : forall p k, name_chain_from_path p = Err k -> k = EInvalidInput.
Proof.
  intros p k. Local Transparent name_chain_from_path. unfold name_chain_from_path.
  Local Opaque name_chain_from_path. apply chain_only_invalid_input.
Qed.

Lemma name_chain_cases : forall p,
  (exists names, name_chain_from_path p = Ok names) \/ name_chain_from_path p = Err EInvalidInput.
Proof.
  intros p. pose proof (name_chain_not_bad p) as B.
  destruct (name_chain_from_path p) as [names|k| |] eqn:E; try discriminate B.
  - left. eauto.
  - right. rewrite (name_chain_err p k E). reflexivity.
Qed.

Variable s : cstate.
Variable t : node.
Hypothesis HT : TreeRep (dirs s) content t.
Variable now : N.

(* the common prefix of every path-taking query: normalise, look up, fetch *)
Inductive resolved (names : list name) : option (N * dirent) -> option node -> Prop :=
| res_found : forall id e n,
    nthN (dirs s) id = Some e ->
    NodeRep (dirs s) content (is_nil names) id (stored_name t names ROOT_DIR_NAME) n ->
    resolved names (Some (id, e)) (Some n)
| res_missing : resolved names None None.

Lemma resolve_names : forall names,
  exists ro, resolved names ro (Tree.get t names) /\
    lookup_chain (dirs s) names ROOT_STREAM_ID = Ok (option_map fst ro) /\
    match ro with
    | Some (id, e) => dir_entry_of (dirs s) id = Ok e
    | None => True
    end.
Proof.
  intros names.
  destruct (lookup_refines_get (dirs s) content t HT names) as (res & Hl & Hm).
  destruct res as [id|]; destruct (Tree.get t names) as [n|]; try contradiction.
  - destruct Hm as (nm & HN & -> & _).
    destruct (NodeRep_entry _ _ _ _ _ _ HN) as (_ & e & He & _).
    exists (Some (id, e)). split; [constructor; assumption|]. split; [exact Hl|].
    unfold dir_entry_of. rewrite He. reflexivity.
  - exists None. split; [constructor|]. split; [exact Hl|exact I].
Qed.

Lemma lookup_path_run : forall p,
  exists ro, lookup_path p s = (s, Ok ro) /\
    match name_chain_from_path p with
    | Ok names => resolved names ro (Tree.get t names)
    | _ => ro = None
    end.
Proof.
  intros p. unfold lookup_path.
  destruct (name_chain_cases p) as [(names & E)|E]; rewrite E.
  - destruct (resolve_names names) as (ro & HR & Hl & Hd).
    rewrite q_lookup_run, Hl. exists ro. split; [|exact HR].
    destruct ro as [[id e]|]; cbn [option_map fst]; [|reflexivity].
    rewrite q_dir_entry_run, Hd. reflexivity.
  - exists None. split; reflexivity.
Qed.

(* ================================================================== *)
(* Q3. exists / is_stream / is_storage                                 *)
(* ================================================================== *)
Theorem exists_refines : forall p,
  exists b, api_exists p s = (s, Ok b) /\ spec_step t now (SExists p) = (t, Ok (SVBool b)).
Proof.
  intros p. destruct (lookup_path_run p) as (ro & Hrun & Hm).
  unfold api_exists. rewrite q_bind_eq, Hrun. cbn [ret spec_step].
  eexists. split; [reflexivity|]. do 3 f_equal.
  destruct (name_chain_from_path p) as [names|k| |]; try (subst ro; reflexivity).
  destruct Hm; reflexivity.
Qed.

Theorem is_stream_refines : forall p,
  exists b, api_is_stream p s = (s, Ok b) /\ spec_step t now (SIsStream p) = (t, Ok (SVBool b)).
Proof.
  intros p. destruct (lookup_path_run p) as (ro & Hrun & Hm).
  unfold api_is_stream. rewrite q_bind_eq, Hrun. cbn [ret spec_step].
  eexists. split; [reflexivity|]. do 3 f_equal.
  destruct (name_chain_from_path p) as [names|k| |]; try (subst ro; reflexivity).
  destruct Hm as [id e n He HN|]; [|reflexivity].
  destruct (NodeRep_entry _ _ _ _ _ _ HN) as (_ & e' & He' & _ & Ht).
  assert (e' = e) by congruence. subst e'. rewrite Ht.
  destruct n; [reflexivity|]. destruct (is_nil names); reflexivity.
Qed.

Theorem is_storage_refines : forall p,
  exists b, api_is_storage p s = (s, Ok b) /\ spec_step t now (SIsStorage p) = (t, Ok (SVBool b)).
Proof.
  intros p. destruct (lookup_path_run p) as (ro & Hrun & Hm).
  unfold api_is_storage. rewrite q_bind_eq, Hrun. cbn [ret spec_step].
  eexists. split; [reflexivity|]. do 3 f_equal.
  destruct (name_chain_from_path p) as [names|k| |]; try (subst ro; reflexivity).
  destruct Hm as [id e n He HN|]; [|reflexivity].
  destruct (NodeRep_entry _ _ _ _ _ _ HN) as (_ & e' & He' & _ & Ht).
  assert (e' = e) by congruence. subst e'. rewrite Ht.
  destruct n; [reflexivity|]. destruct (is_nil names); reflexivity.
Qed.

(* ---- the common shape of entry / read_storage / walk_storage / open_stream:
        with_names on the specification side, names_of + lookup on the model side ---- *)
Lemma with_path_run : forall A (K : list name -> N -> M A) (SK : list name -> node * res svalue) p,
  exists r,
    (do names <- names_of p;
     do ro <- lookup names;
     match ro with None => fail ENotFound | Some id => K names id end) s = r /\
    match name_chain_from_path p with
    | Ok names =>
        Tree.with_names t p SK = SK names /\
        exists ro, resolved names ro (Tree.get t names) /\
          match ro with
          | Some (id, e) => r = K names id s /\ dir_entry_of (dirs s) id = Ok e
          | None => r = (s, Err ENotFound)
          end
    | _ => r = (s, Err EInvalidInput) /\ Tree.with_names t p SK = (t, Err EInvalidInput)
    end.
Proof.
  intros A K SK p. eexists. split; [reflexivity|].
  rewrite q_bind_eq, q_names_of_run. unfold Tree.with_names.
  destruct (name_chain_cases p) as [(names & E)|E]; rewrite E.
  - split; [reflexivity|].
    destruct (resolve_names names) as (ro & HR & Hl & Hd). exists ro. split; [exact HR|].
    rewrite q_bind_eq, q_lookup_run, Hl.
    destruct ro as [[id e]|]; cbn [option_map fst]; [split; [reflexivity|exact Hd]|reflexivity].
  - split; reflexivity.
Qed.

(* ================================================================== *)
(* Q4. entry / root_entry                                              *)
(* ================================================================== *)
Theorem entry_refines : forall p,
  exists r r', api_entry p s = (s, r) /\ spec_step t now (SEntry p) = (t, r') /\
    res_rel val_rel (rmap VEntry r) r'.
Proof.
  intros p. unfold api_entry. cbn [spec_step].
  match goal with |- context [Tree.with_names t p ?SK] =>
    destruct (with_path_run entry
      (fun names id => do e <- dir_entry id; ret (entry_of e (path_from_name_chain names))) SK p)
      as (r & Hrun & Hm) end.
  rewrite Hrun. clear Hrun.
  destruct (name_chain_from_path p) as [names|k| |].
  - destruct Hm as (-> & ro & HR & Hm).
    destruct HR as [id e n He HN|].
    + destruct Hm as (-> & Hd). rewrite q_bind_eq, q_dir_entry_run, Hd. cbn [ret].
      do 2 eexists. split; [reflexivity|]. split; [reflexivity|].
      cbn [rmap rbind res_rel val_rel].
      replace (match names with [] => true | _ :: _ => false end) with (is_nil names)
        by (destruct names; reflexivity).
      eapply NodeRep_entry_rel; eassumption.
    + subst r. do 2 eexists. split; [reflexivity|]. split; [reflexivity|]. reflexivity.
  - destruct Hm as (-> & ->). do 2 eexists. split; [reflexivity|]. split; reflexivity.
  - destruct Hm as (-> & ->). do 2 eexists. split; [reflexivity|]. split; reflexivity.
  - destruct Hm as (-> & ->). do 2 eexists. split; [reflexivity|]. split; reflexivity.
Qed.

Lemma root_entry_some : exists e, nthN (dirs s) ROOT_STREAM_ID = Some e.
Proof. destruct (NodeRep_entry _ _ _ _ _ _ HT) as (_ & e & He & _). eauto. Qed.

Theorem root_entry_refines :
  exists r r', api_root_entry s = (s, r) /\ spec_step t now SRootEntry = (t, r') /\
    res_rel val_rel (rmap VEntry r) r'.
Proof.
  destruct root_entry_some as (e & He).
  unfold api_root_entry. rewrite q_bind_eq, q_dir_entry_run. unfold dir_entry_of. rewrite He.
  cbn [ret spec_step]. do 2 eexists. split; [reflexivity|]. split; [reflexivity|].
  cbn [rmap rbind res_rel val_rel]. unfold root_path.
  eapply NodeRep_entry_rel; [exact HT|exact He].
Qed.

(* ================================================================== *)
(* Q5. read_storage / read_root                                        *)
(* ================================================================== *)
Lemma listing_exact : forall par l ks, KidsRep (dirs s) content l ks ->
  map to_sentry (map (ent (dirs s) par) l) = list_kids par ks.
Proof.
  induction 1 as [|i [k c] l ks H _ IH]; [reflexivity|].
  cbn [map list_kids]. unfold list_kids in IH. rewrite IH. f_equal.
  unfold KidRep in H. cbn [fst snd] in H.
  destruct (NodeRep_entry _ _ _ _ _ _ H) as (_ & e & He & Hn & Ht).
  rewrite (ent_nonroot _ par i e He).
  - rewrite Hn. exact (NodeRep_entry_exact _ i _ _ _ _ H He).
  - rewrite Ht. destruct c; discriminate.
Qed.

Lemma Forall2_entry_rel_exact : forall es ses, map to_sentry es = ses -> Forall2 entry_rel es ses.
Proof.
  induction es as [|e es IH]; intros ses <-; cbn [map]; constructor.
  - apply sentry_eq_refl.
  - apply IH. reflexivity.
Qed.

(* the stronger, exact form: the listing IS the specification's listing *)
Theorem read_storage_exact : forall p,
  exists r, api_read_storage p s = (s, r) /\ is_bad r = false /\
    spec_step t now (SReadStorage p) = (t, rmap (fun es => SVEntries (map to_sentry es)) r).
Proof.
  intros p. unfold api_read_storage. cbn [spec_step].
  match goal with |- context [Tree.with_names t p ?SK] =>
    destruct (with_path_run (list entry)
      (fun names id =>
         do e <- dir_entry id;
         if objtype_eqb (d_type e) TStream then fail EInvalidInput else
         if negb (objtype_eqb (d_type e) TStorage) && negb (objtype_eqb (d_type e) TRoot) then panic 901 else
         do s <- State.get;
         lift (entries_collect (dirs s) Nonrecursive (path_from_name_chain names) (d_child e))) SK p)
      as (r & Hrun & Hm) end.
  rewrite Hrun. clear Hrun.
  destruct (name_chain_from_path p) as [names|k| |].
  - destruct Hm as (-> & ro & HR & Hm).
    destruct HR as [id e n He HN|].
    + destruct Hm as (-> & Hd). rewrite q_bind_eq, q_dir_entry_run, Hd.
      destruct n as [st bs|m ks].
      * apply NodeRep_leaf in HN. destruct HN as (_ & e' & He' & _ & _ & Ht & _).
        assert (e' = e) by congruence. subst e'. rewrite Ht. cbn [objtype_eqb].
        eexists. split; [reflexivity|split; reflexivity].
      * apply NodeRep_dir in HN.
        destruct HN as (_ & e' & He' & _ & Ht & _ & _ & bt & HRep & _ & ND & K).
        assert (e' = e) by congruence. subst e'. rewrite Ht.
        destruct (is_nil names); cbn [objtype_eqb negb andb];
          rewrite q_bind_eq; cbn [State.get lift];
          rewrite (entries_nonrec_inorder _ (path_from_name_chain names) _ _ HRep ND);
          eexists; (split; [reflexivity|split; [reflexivity|]]); cbn [rmap rbind];
          rewrite (listing_exact _ _ _ K); reflexivity.
    + subst r. eexists. split; [reflexivity|split; reflexivity].
  - destruct Hm as (-> & ->). eexists. split; [reflexivity|split; reflexivity].
  - destruct Hm as (-> & ->). eexists. split; [reflexivity|split; reflexivity].
  - destruct Hm as (-> & ->). eexists. split; [reflexivity|split; reflexivity].
Qed.

Lemma exact_res_rel : forall (r : res (list entry)) r',
  r' = rmap (fun es => SVEntries (map to_sentry es)) r -> is_bad r = false ->
  res_rel val_rel (rmap VEntries r) r'.
Proof.
  intros [es|k|n|] r' -> B; try discriminate B; cbn [rmap rbind res_rel val_rel].
  - apply Forall2_entry_rel_exact. reflexivity.
  - reflexivity.
Qed.

Theorem read_storage_refines : forall p,
  exists r r', api_read_storage p s = (s, r) /\ spec_step t now (SReadStorage p) = (t, r') /\
    res_rel val_rel (rmap VEntries r) r'.
Proof.
  intros p. destruct (read_storage_exact p) as (r & Hrun & B & Hs).
  do 2 eexists. split; [exact Hrun|]. split; [exact Hs|]. apply exact_res_rel; [reflexivity|exact B].
Qed.

Theorem read_root_exact :
  exists es, api_read_root s = (s, Ok es) /\
    spec_step t now SReadRoot = (t, Ok (SVEntries (map to_sentry es))).
Proof.
  destruct (NodeRep_root_dir _ _ _ _ _ HT) as (m & ks & ->).
  pose proof HT as H. apply NodeRep_dir in H.
  destruct H as (_ & e & He & _ & _ & _ & _ & bt & HRep & _ & ND & K).
  unfold api_read_root. rewrite q_bind_eq, q_dir_entry_run. unfold dir_entry_of. rewrite He.
  rewrite q_bind_eq. cbn [State.get lift].
  rewrite (entries_nonrec_inorder _ [SLASH] _ _ HRep ND).
  eexists. split; [reflexivity|]. cbn [spec_step]. unfold root_path.
  rewrite (listing_exact _ _ _ K). reflexivity.
Qed.

Theorem read_root_refines :
  exists r r', api_read_root s = (s, r) /\ spec_step t now SReadRoot = (t, r') /\
    res_rel val_rel (rmap VEntries r) r'.
Proof.
  destruct read_root_exact as (es & Hrun & Hs).
  do 2 eexists. split; [exact Hrun|]. split; [exact Hs|].
  cbn [rmap rbind res_rel val_rel]. apply Forall2_entry_rel_exact. reflexivity.
Qed.

(* ================================================================== *)
(* Q6. open_stream                                                     *)
(* ================================================================== *)
Lemma q_handle_new_ok : forall id mb e,
  dir_entry_of (dirs s) id = Ok e ->
  handle_new' id mb s = (s, Ok (mkHandle id (d_len e) (buf_new mb) 0 false)).
Proof.
  intros id mb e He. unfold handle_new', handle_new, stream_len_of.
  rewrite q_bind_eq, q_dir_entry_run, He. reflexivity.
Qed.

Theorem open_stream_refines : forall p mb,
  exists r r', api_open_stream p mb s = (s, r) /\ spec_step t now (SOpenStream p) = (t, r') /\
    match r, r' with
    | Ok h, Ok v =>
        v = SVUnit /\
        exists names st bs,
          name_chain_from_path p = Ok names /\ Tree.get t names = Some (Leaf st bs) /\
          NodeRep (dirs s) content false (h_id h) (stored_name t names ROOT_DIR_NAME) (Leaf st bs) /\
          h = mkHandle (h_id h) (lenN bs) (buf_new mb) 0 false
    | Err k, Err k' => k = k'
    | _, _ => False
    end.
Proof.
  intros p mb. unfold api_open_stream. cbn [spec_step].
  match goal with |- context [Tree.with_names t p ?SK] =>
    destruct (with_path_run handle
      (fun names id =>
         do e <- dir_entry id;
         if negb (objtype_eqb (d_type e) TStream) then fail EInvalidInput else handle_new' id mb) SK p)
      as (r & Hrun & Hm) end.
  rewrite Hrun. clear Hrun.
  destruct (name_chain_from_path p) as [names|k| |] eqn:E.
  - destruct Hm as (-> & ro & HR & Hm).
    remember (Tree.get t names) as g eqn:G.
    destruct HR as [id e n He HN|].
    + destruct Hm as (-> & Hd). rewrite q_bind_eq, q_dir_entry_run, Hd.
      destruct n as [st bs|m ks].
      * pose proof HN as HN'. apply NodeRep_leaf in HN'.
        destruct HN' as (_ & e' & He' & _ & Hr & Ht & _ & _ & Hl & _).
        assert (e' = e) by congruence. subst e'. rewrite Ht. cbn [objtype_eqb negb].
        rewrite (q_handle_new_ok id mb e Hd).
        do 2 eexists. split; [reflexivity|]. split; [reflexivity|]. split; [reflexivity|].
        exists names, st, bs. cbn [h_id]. rewrite Hr in HN. rewrite Hl. auto.
      * apply NodeRep_dir in HN. destruct HN as (_ & e' & He' & _ & Ht & _).
        assert (e' = e) by congruence. subst e'. rewrite Ht.
        do 2 eexists. split; [destruct (is_nil names); reflexivity|]. split; reflexivity.
    + subst r. do 2 eexists. split; [reflexivity|]. split; reflexivity.
  - destruct Hm as (-> & ->). do 2 eexists. split; [reflexivity|]. split; reflexivity.
  - destruct Hm as (-> & ->). do 2 eexists. split; [reflexivity|]. split; reflexivity.
  - destruct Hm as (-> & ->). do 2 eexists. split; [reflexivity|]. split; reflexivity.
Qed.

End Queries.

(* ================================================================== *)
(* Q7. the pre-order walk                                              *)
(* ================================================================== *)
Fixpoint node_count (n : node) : nat :=
  match n with
  | Leaf _ _ => 1
  | Dir _ ks =>
    S ((fix go (l : list (name * node)) : nat :=
          match l with [] => 0 | (_, c) :: t => node_count c + go t end) ks)
  end%nat.

Definition kids_count : list (name * node) -> nat :=
  fix go (l : list (name * node)) : nat :=
    match l with [] => 0 | (_, c) :: t => node_count c + go t end%nat.

Definition walk_kids (path : list N) : list (name * node) -> list sentry :=
  fix go (l : list (name * node)) : list sentry :=
    match l with
    | [] => []
    | (k, c) :: t => walk_node false k (path_join path k) c ++ go t
    end.

Lemma node_count_dir : forall m ks, node_count (Dir m ks) = S (kids_count ks).
Proof. reflexivity. Qed.

Lemma walk_node_dir : forall b nm path m ks,
  walk_node b nm path (Dir m ks) = entry_for b nm path (Dir m ks) :: walk_kids path ks.
Proof. reflexivity. Qed.

Lemma kids_count_app : forall a b, kids_count (a ++ b) = (kids_count a + kids_count b)%nat.
Proof.
  induction a as [|[k c] a IH]; intros b; [reflexivity|].
  cbn [app kids_count]. fold kids_count. rewrite IH. lia.
Qed.

Lemma kids_count_cons : forall k c l, kids_count ((k, c) :: l) = (node_count c + kids_count l)%nat.
Proof. reflexivity. Qed.

Lemma walk_kids_app : forall path a b, walk_kids path (a ++ b) = walk_kids path a ++ walk_kids path b.
Proof.
  induction a as [|[k c] a IH]; intros b; [reflexivity|].
  cbn [app walk_kids]. fold (walk_kids path). rewrite IH, app_assoc. reflexivity.
Qed.

Lemma walk_kids_cons : forall path k c l,
  walk_kids path ((k, c) :: l) = walk_node false k (path_join path k) c ++ walk_kids path l.
Proof. reflexivity. Qed.

Section Walk.
Variable ds : list dirent.
Variable content : N -> list byte -> Prop.

Lemma left_spine_gen : forall par t root fuel stk,
  Rep ds root t -> (length (ids t) < fuel)%nat ->
  left_spine fuel ds par root stk = Ok (sconc par (spine_pairs t) ++ stk).
Proof.
  induction t as [|l IHl i r IHr]; intros root fuel stk HR Hf.
  - cbn [Rep] in HR. subst root. destruct fuel; [cbn in Hf; lia|].
    cbn [left_spine]. rewrite N.eqb_refl. reflexivity.
  - destruct HR as (E & Hne & e & He & HL & HRr). subst root.
    cbn [ids] in Hf. rewrite app_length in Hf. cbn [length] in Hf.
    destruct fuel; [lia|]. cbn [left_spine].
    destruct (N.eqb_spec i NO_STREAM); [contradiction|].
    unfold dir_entry_of. rewrite He. cbn [rbind].
    rewrite (IHl (d_left e) fuel ((par, i, true) :: stk) HL); [|lia].
    cbn [spine_pairs]. unfold sconc. rewrite map_app, <- app_assoc. reflexivity.
Qed.

Lemma left_spine_model_fuel : forall par t root stk,
  Rep ds root t -> NoDup (ids t) ->
  left_spine (S (length ds)) ds par root stk = Ok (sconc par (spine_pairs t) ++ stk).
Proof.
  intros par t root stk HR ND. apply left_spine_gen; [exact HR|].
  pose proof (rep_length _ _ _ HR ND). lia.
Qed.

Lemma vis_spine : forall (vis : bool) par e rt rest,
  (vis = true -> Rep ds (d_right e) rt /\ NoDup (ids rt)) -> (vis = false -> rt = BL) ->
  (if vis then left_spine (S (length ds)) ds par (d_right e) rest else Ok rest) =
  Ok (sconc par (spine_pairs rt) ++ rest).
Proof.
  intros [|] par e rt rest H1 H2.
  - destruct (H1 eq_refl) as [HR ND]. apply left_spine_model_fuel; assumption.
  - rewrite (H2 eq_refl). reflexivity.
Qed.

Lemma child_spine : forall ty child path t st1,
  ty <> TStream -> Rep ds child t -> NoDup (ids t) ->
  (if negb (objtype_eqb ty TStream) && negb (child =? NO_STREAM)
   then left_spine (S (length ds)) ds path child st1 else Ok st1) =
  Ok (sconc path (spine_pairs t) ++ st1).
Proof.
  intros ty child path t st1 Hty HR ND.
  destruct (N.eqb_spec child NO_STREAM) as [->|Hne].
  - rewrite (rep_nostream _ _ HR). rewrite andb_false_r. reflexivity.
  - replace (negb (objtype_eqb ty TStream)) with true by (destruct ty; try reflexivity; congruence).
    cbn [negb andb]. apply left_spine_model_fuel; assumption.
Qed.

Lemma entries_go_step : forall f ord par i vis rest acc e,
  nthN ds i = Some e ->
  entries_go (S f) ds ord ((par, i, vis) :: rest) acc =
  (let path := if objtype_eqb (d_type e) TRoot then par else path_join par (d_name e) in
   rbind (if vis then left_spine (S (length ds)) ds par (d_right e) rest else Ok rest) (fun st1 =>
   rbind (match ord with
          | Preorder =>
            if negb (objtype_eqb (d_type e) TStream) && negb (d_child e =? NO_STREAM)
            then left_spine (S (length ds)) ds path (d_child e) st1 else Ok st1
          | Nonrecursive => Ok st1
          end) (fun st2 =>
   entries_go f ds ord st2 (entry_of e path :: acc)))).
Proof.
  intros f ord par i vis rest acc e He. cbn [entries_go]. unfold dir_entry_of. rewrite He. reflexivity.
Qed.

(* processing the stack item of a represented node emits the specification's
   walk of that node and leaves the spine of its right siblings *)
Definition walkP (c : node) : Prop :=
  forall b i k par (vis : bool) rt rest acc fuel' e,
    NodeRep ds content b i k c -> nthN ds i = Some e ->
    (vis = true -> Rep ds (d_right e) rt /\ NoDup (ids rt)) -> (vis = false -> rt = BL) ->
    exists out,
      entries_go (node_count c + fuel') ds Preorder ((par, i, vis) :: rest) acc =
      entries_go fuel' ds Preorder (sconc par (spine_pairs rt) ++ rest) (rev out ++ acc) /\
      Forall2 entry_rel out (walk_node b k (if b then par else path_join par k) c).

Lemma walk_sibs : forall tr root krs,
  Rep ds root tr -> NoDup (ids tr) -> KidsRep ds content (ids tr) krs ->
  Forall (fun kc => walkP (snd kc)) krs ->
  forall par rest acc fuel',
  exists out,
    entries_go (kids_count krs + fuel') ds Preorder (sconc par (spine_pairs tr) ++ rest) acc =
    entries_go fuel' ds Preorder rest (rev out ++ acc) /\
    Forall2 entry_rel out (walk_kids par krs).
Proof.
  induction tr as [|l IHl i r IHr]; intros root krs HR ND K P par rest acc fuel'.
  - cbn [ids] in K. inversion K; subst. exists []. split; [reflexivity|constructor].
  - destruct HR as (E & Hne & e & He & HL & HRr). subst root.
    apply nodup_node in ND. destruct ND as (NDl & NDr & _).
    cbn [ids] in K. apply Forall2_app_inv_l in K.
    destruct K as (kl & kr0 & Kl & Kr0 & ->).
    inversion Kr0 as [|i' [k c] l' kr Hkc Kr]; subst.
    apply Forall_app in P. destruct P as [Pl Pr0].
    apply Forall_cons_iff in Pr0. destruct Pr0 as [Pc Pr]. cbn [snd] in Pc.
    unfold KidRep in Hkc. cbn [fst snd] in Hkc.
    cbn [spine_pairs]. unfold sconc. rewrite map_app, <- app_assoc. cbn [map app fst snd].
    fold (sconc par (spine_pairs l)).
    replace (kids_count (kl ++ (k, c) :: kr) + fuel')%nat
      with (kids_count kl + (node_count c + (kids_count kr + fuel')))%nat
      by (rewrite kids_count_app, kids_count_cons; lia).
    destruct (IHl (d_left e) kl HL NDl Kl Pl par ((par, i, true) :: rest) acc
                  (node_count c + (kids_count kr + fuel'))%nat) as (ol & El & Fl).
    rewrite El.
    destruct (Pc false i k par true r rest (rev ol ++ acc) (kids_count kr + fuel')%nat e Hkc He)
      as (oc & Ec & Fc); [intros _; split; assumption|discriminate|].
    rewrite Ec.
    destruct (IHr (d_right e) kr HRr NDr Kr Pr par rest (rev oc ++ rev ol ++ acc) fuel')
      as (orr & Er & Fr).
    rewrite Er.
    exists (ol ++ oc ++ orr). split.
    + rewrite !rev_app_distr, <- !app_assoc. reflexivity.
    + rewrite walk_kids_app, walk_kids_cons.
      apply Forall2_app; [exact Fl|]. apply Forall2_app; [exact Fc|exact Fr].
Qed.

Lemma walkP_all : forall c, walkP c.
Proof.
  induction c as [st bs|m ks IH] using node_ind';
    intros b i k par vis rt rest acc fuel' e HN He Hv1 Hv2.
  - pose proof HN as HN'. apply NodeRep_leaf in HN'.
    destruct HN' as (_ & e' & He' & Hn & Hb & Ht & _).
    assert (e' = e) by congruence. subst e'. subst b.
    change (node_count (Leaf st bs) + fuel')%nat with (S fuel').
    rewrite (entries_go_step _ _ _ _ _ _ _ _ He). cbv zeta.
    rewrite (vis_spine vis par e rt rest Hv1 Hv2). cbn [rbind].
    rewrite Ht. cbn [objtype_eqb negb andb rbind].
    exists [entry_of e (path_join par (d_name e))]. split; [reflexivity|].
    cbn [walk_node]. constructor; [|constructor]. rewrite Hn.
    eapply NodeRep_entry_rel; eassumption.
  - pose proof HN as HN'. apply NodeRep_dir in HN'.
    destruct HN' as (_ & e' & He' & Hn & Ht & _ & _ & t & HR & _ & ND & K).
    assert (e' = e) by congruence. subst e'.
    rewrite node_count_dir.
    change (S (kids_count ks) + fuel')%nat with (S (kids_count ks + fuel')).
    rewrite (entries_go_step _ _ _ _ _ _ _ _ He). cbv zeta.
    rewrite (vis_spine vis par e rt rest Hv1 Hv2). cbn [rbind].
    set (path := if objtype_eqb (d_type e) TRoot then par else path_join par (d_name e)).
    assert (path = if b then par else path_join par k) as Hp.
    { unfold path. rewrite Ht, Hn. destruct b; reflexivity. }
    rewrite (child_spine (d_type e) (d_child e) path t _); [|rewrite Ht; destruct b; discriminate|exact HR|exact ND].
    cbn [rbind].
    destruct (walk_sibs t (d_child e) ks HR ND K IH path
                (sconc par (spine_pairs rt) ++ rest) (entry_of e path :: acc) fuel')
      as (out & Eo & Fo).
    rewrite Eo. exists (entry_of e path :: out). split.
    + cbn [rev]. rewrite <- app_assoc. reflexivity.
    + rewrite walk_node_dir, <- Hp. constructor; [|exact Fo].
      eapply NodeRep_entry_rel; eassumption.
Qed.

Lemma walk_collect : forall b i k c par,
  NodeRep ds content b i k c -> (node_count c <= S (2 * length ds))%nat ->
  exists out, entries_collect ds Preorder par i = Ok out /\
    Forall2 entry_rel out (walk_node b k (if b then par else path_join par k) c).
Proof.
  intros b i k c par HN Hc. unfold entries_collect.
  destruct (NodeRep_entry _ _ _ _ _ _ HN) as (_ & e & He & _).
  assert (exists f', S (S (2 * length ds)) = (node_count c + S f')%nat) as (f' & Hf).
  { exists (S (2 * length ds) - node_count c)%nat. lia. }
  rewrite Hf.
  destruct (walkP_all c b i k par false BL [] [] (S f') e HN He) as (out & Eo & Fo);
    [discriminate|reflexivity|].
  rewrite Eo. cbn [spine_pairs sconc map app entries_go]. rewrite app_nil_r, rev_involutive.
  exists out. split; [reflexivity|exact Fo].
Qed.

End Walk.

(* a subtree is no larger than the tree *)
Lemma find_kid_count : forall nm ks k c,
  find_kid nm ks = Some (k, c) -> (node_count c <= kids_count ks)%nat.
Proof.
  induction ks as [|[k0 c0] ks IH]; intros k c H; cbn [find_kid] in H; [discriminate|].
  rewrite kids_count_cons. destruct (cmp_names nm k0).
  - injection H as <- <-. lia.
  - apply IH in H. lia.
  - apply IH in H. lia.
Qed.

Lemma get_count : forall names t n, Tree.get t names = Some n -> (node_count n <= node_count t)%nat.
Proof.
  induction names as [|a rest IH]; intros t n H; cbn [Tree.get] in H.
  - injection H as <-. lia.
  - destruct t as [st bs|m ks]; [discriminate|].
    destruct (find_kid a ks) as [[k c]|] eqn:F; [|discriminate].
    apply IH in H. apply find_kid_count in F. rewrite node_count_dir. lia.
Qed.


Lemma path_from_name_chain_nil : path_from_name_chain [] = [SLASH].
Proof. Local Transparent path_from_name_chain. reflexivity. Qed.
Local Opaque path_from_name_chain.

Section WalkQueries.
Variable content : N -> list byte -> Prop.
Variable s : cstate.
Variable t : node.
Hypothesis HT : TreeRep (dirs s) content t.
(* No table entry is shared by two places of the tree, hence the tree has at
   most as many nodes as the table has entries; the model's iterator fuel
   S (S (2 * length ds)) allows one step per node.  Only this weaker
   consequence is needed. *)
Hypothesis Hsize : (node_count t <= S (2 * length (dirs s)))%nat.
Variable now : N.

Theorem walk_refines :
  exists r r', api_walk s = (s, r) /\ spec_step t now SWalk = (t, r') /\
    res_rel val_rel (rmap VEntries r) r'.
Proof.
  unfold api_walk. rewrite q_bind_eq. cbn [State.get lift spec_step].
  destruct (walk_collect (dirs s) content true ROOT_STREAM_ID ROOT_DIR_NAME t [SLASH] HT Hsize)
    as (out & Eo & Fo).
  rewrite Eo. do 2 eexists. split; [reflexivity|]. split; [reflexivity|].
  cbn [rmap rbind res_rel val_rel]. exact Fo.
Qed.

Theorem walk_storage_refines : forall p,
  exists r r', api_walk_storage p s = (s, r) /\ spec_step t now (SWalkStorage p) = (t, r') /\
    res_rel val_rel (rmap VEntries r) r'.
Proof.
  intros p. unfold api_walk_storage. cbn [spec_step].
  match goal with |- context [Tree.with_names t p ?SK] =>
    destruct (with_path_run content s t HT (list entry)
      (fun names id =>
         do s <- State.get;
         lift (entries_collect (dirs s) Preorder (path_from_name_chain (pop_last names)) id)) SK p)
      as (r & Hrun & Hm) end.
  rewrite Hrun. clear Hrun.
  destruct (name_chain_from_path p) as [names|k| |].
  - destruct Hm as (-> & ro & HR & Hm).
    remember (Tree.get t names) as g eqn:G.
    destruct HR as [id e n He HN|].
    + destruct Hm as (-> & Hd). rewrite q_bind_eq. cbn [State.get lift].
      symmetry in G. pose proof (get_count _ _ _ G) as Hc.
      destruct (walk_collect (dirs s) content _ id _ n
                  (path_from_name_chain (pop_last names)) HN) as (out & Eo & Fo); [lia|].
      rewrite Eo.
      destruct names as [|a rest]; (do 2 eexists; split; [reflexivity|]).
      * cbn [Tree.get] in G. injection G as <-.
        split; [reflexivity|]. cbn [rmap rbind res_rel val_rel].
        cbn [is_nil stored_name pop_last removelast] in Fo.
        rewrite path_from_name_chain_nil in Fo. exact Fo.
      * split; [reflexivity|]. cbn [rmap rbind res_rel val_rel].
        cbn [is_nil] in Fo. exact Fo.
    + subst r. do 2 eexists. split; [reflexivity|]. split; reflexivity.
  - destruct Hm as (-> & ->). do 2 eexists. split; [reflexivity|]. split; reflexivity.
  - destruct Hm as (-> & ->). do 2 eexists. split; [reflexivity|]. split; reflexivity.
  - destruct Hm as (-> & ->). do 2 eexists. split; [reflexivity|]. split; reflexivity.
Qed.

End WalkQueries.

(* ================================================================== *)
(* no sharing: a sufficient condition for the size hypothesis of Q7    *)
(* ================================================================== *)
Section Unshared.
Variable ds : list dirent.

(* [AllIds id n U]: U lists, in pre-order, the table entries used by the
   representation of n at id *)
Fixpoint AllIds (id : N) (n : node) (U : list N) {struct n} : Prop :=
  match n with
  | Leaf _ _ => U = [id] /\ id < lenN ds
  | Dir _ ks =>
    exists e t, nthN ds id = Some e /\ Rep ds (d_child e) t /\
    exists Us,
      (fix go (l : list N) (ks : list (name * node)) (Us : list (list N)) {struct ks} : Prop :=
         match ks, l, Us with
         | [], [], [] => True
         | (_, c) :: ks', i :: l', u :: Us' => AllIds i c u /\ go l' ks' Us'
         | _, _, _ => False
         end) (ids t) ks Us /\
      U = id :: concat Us
  end.

Definition Unshared (t : node) : Prop := exists U, AllIds ROOT_STREAM_ID t U /\ NoDup U.

Lemma AllIds_length : forall n id U, AllIds id n U -> length U = node_count n.
Proof.
  induction n as [st bs|m ks IH] using node_ind'; intros id U H.
  - destruct H as [-> _]. reflexivity.
  - destruct H as (e & t & _ & _ & Us & HK & ->).
    rewrite node_count_dir. cbn [length]. f_equal.
    revert Us HK. generalize (ids t).
    induction IH as [|[k c] ks Hc _ IHks]; intros l Us HK.
    + destruct l; destruct Us; try contradiction. reflexivity.
    + destruct l as [|i l]; destruct Us as [|u Us]; try contradiction.
      destruct HK as [H1 H2]. cbn [concat]. rewrite app_length, kids_count_cons.
      cbn [snd] in Hc. rewrite (Hc i u H1), (IHks l Us H2). reflexivity.
Qed.

Lemma AllIds_bound : forall n id U, AllIds id n U -> forall j, In j U -> j < lenN ds.
Proof.
  induction n as [st bs|m ks IH] using node_ind'; intros id U H j Hj.
  - destruct H as [-> Hb]. destruct Hj as [<-|[]]. exact Hb.
  - destruct H as (e & t & He & _ & Us & HK & ->).
    destruct Hj as [<-|Hj]; [eapply nthN_Some_lt; exact He|].
    revert Us HK Hj. generalize (ids t).
    induction IH as [|[k c] ks Hc _ IHks]; intros l Us HK Hj.
    + destruct l; destruct Us; try contradiction.
    + destruct l as [|i l]; destruct Us as [|u Us]; try contradiction.
      destruct HK as [H1 H2]. cbn [concat] in Hj. apply in_app_or in Hj.
      destruct Hj as [Hj|Hj].
      * cbn [snd] in Hc. eapply Hc; eassumption.
      * eapply IHks; eassumption.
Qed.

Theorem unshared_size : forall t, Unshared t -> (node_count t <= length ds)%nat.
Proof.
  intros t (U & HA & ND). rewrite <- (AllIds_length _ _ _ HA).
  apply nodup_bound; [exact ND|]. intros i Hi. rewrite <- lenN_length.
  eapply AllIds_bound; eassumption.
Qed.

Corollary unshared_fuel : forall t, Unshared t -> (node_count t <= S (2 * length ds))%nat.
Proof. intros t H. pose proof (unshared_size t H). lia. Qed.

End Unshared.

(* ================================================================== *)
(* the same at the level of [step] / [spec_step]; Q8                   *)
(* ================================================================== *)
Definition query_spec (o : op) : option sop :=
  match o with
  | OExists p => Some (SExists p) | OIsStream p => Some (SIsStream p)
  | OIsStorage p => Some (SIsStorage p) | OEntry p => Some (SEntry p)
  | ORootEntry => Some SRootEntry | OReadStorage p => Some (SReadStorage p)
  | OReadRoot => Some SReadRoot | OWalk => Some SWalk
  | OWalkStorage p => Some (SWalkStorage p)
  | _ => None
  end.

Definition walk_size_ok (o : op) (ds : list dirent) (t : node) : Prop :=
  match o with
  | OWalk | OWalkStorage _ => (node_count t <= S (2 * length ds))%nat
  | _ => True
  end.

Section StepLevel.
Variable content : N -> list byte -> Prop.
Variable f : fstate.
Variable t : node.
Hypothesis HT : TreeRep (dirs (cs f)) content t.
Variable now : N.

Lemma with_cs_same : forall A (m : M A) (k : A -> value) r,
  m (cs f) = (cs f, r) -> with_cs f m k = (f, rmap k r).
Proof. intros A m k r H. unfold with_cs. rewrite H. destruct f; reflexivity. Qed.

Theorem query_step_refines : forall o so,
  query_spec o = Some so -> walk_size_ok o (dirs (cs f)) t ->
  exists r r', step f now o = (f, r) /\ spec_step t now so = (t, r') /\ res_rel val_rel r r'.
Proof.
  intros o so Hq Hsz.
  destruct o; cbn [query_spec] in Hq; try discriminate Hq; injection Hq as <-; cbn [step].
  - destruct (exists_refines content (cs f) t HT now p) as (b & H1 & H2).
    rewrite (with_cs_same _ _ _ _ H1), H2. do 2 eexists. split; [reflexivity|]. split; reflexivity.
  - destruct (is_stream_refines content (cs f) t HT now p) as (b & H1 & H2).
    rewrite (with_cs_same _ _ _ _ H1), H2. do 2 eexists. split; [reflexivity|]. split; reflexivity.
  - destruct (is_storage_refines content (cs f) t HT now p) as (b & H1 & H2).
    rewrite (with_cs_same _ _ _ _ H1), H2. do 2 eexists. split; [reflexivity|]. split; reflexivity.
  - destruct (entry_refines content (cs f) t HT now p) as (r & r' & H1 & H2 & H3).
    rewrite (with_cs_same _ _ _ _ H1), H2. eauto.
  - destruct (root_entry_refines content (cs f) t HT now) as (r & r' & H1 & H2 & H3).
    rewrite (with_cs_same _ _ _ _ H1), H2. eauto.
  - destruct (read_storage_refines content (cs f) t HT now p) as (r & r' & H1 & H2 & H3).
    rewrite (with_cs_same _ _ _ _ H1), H2. eauto.
  - destruct (read_root_refines content (cs f) t HT now) as (r & r' & H1 & H2 & H3).
    rewrite (with_cs_same _ _ _ _ H1), H2. eauto.
  - destruct (walk_refines content (cs f) t HT Hsz now) as (r & r' & H1 & H2 & H3).
    rewrite (with_cs_same _ _ _ _ H1), H2. eauto.
  - destruct (walk_storage_refines content (cs f) t HT Hsz now p) as (r & r' & H1 & H2 & H3).
    rewrite (with_cs_same _ _ _ _ H1), H2. eauto.
Qed.

(* open_stream changes only the table of handles *)
Theorem open_stream_step_refines : forall i p,
  exists f' r r', step f now (OOpenStream i p) = (f', r) /\
    spec_step t now (SOpenStream p) = (t, r') /\ res_rel val_rel r r' /\
    cs f' = cs f /\ maxbuf f' = maxbuf f /\
    match r with
    | Ok _ => exists h names st bs,
        hs f' = updN (hs f) i (Some h) /\
        name_chain_from_path p = Ok names /\ Tree.get t names = Some (Leaf st bs) /\
        NodeRep (dirs (cs f)) content false (h_id h) (stored_name t names ROOT_DIR_NAME) (Leaf st bs) /\
        h = mkHandle (h_id h) (lenN bs) (buf_new (maxbuf f)) 0 false
    | _ => f' = f
    end.
Proof.
  intros i p. cbn [step]. unfold with_new_handle.
  destruct (open_stream_refines content (cs f) t HT now p (maxbuf f)) as (r & r' & H1 & H2 & H3).
  rewrite H1, H2.
  destruct r as [h|k|n|]; destruct r' as [v|k'|n'|]; try contradiction.
  - destruct H3 as (-> & names & st & bs & E & G & HN & Hh).
    do 3 eexists. split; [reflexivity|]. split; [reflexivity|]. split; [exact I|].
    split; [reflexivity|]. split; [reflexivity|].
    exists h, names, st, bs. cbn [hs]. auto.
  - subst k'. do 3 eexists. split; [reflexivity|]. split; [reflexivity|]. split; [reflexivity|].
    split; [reflexivity|]. split; [reflexivity|]. destruct f; reflexivity.
Qed.

(* Q8 *)
Theorem queries_never_bad : forall o,
  (query_spec o <> None \/ exists i p, o = OOpenStream i p) ->
  walk_size_ok o (dirs (cs f)) t ->
  is_bad (snd (step f now o)) = false /\ cs (fst (step f now o)) = cs f.
Proof.
  intros o [Hq|(i & p & ->)] Hsz.
  - destruct (query_spec o) as [so|] eqn:E; [|congruence].
    destruct (query_step_refines o so E Hsz) as (r & r' & H1 & _ & H3).
    rewrite H1. cbn [fst snd]. split; [|reflexivity]. eapply res_rel_not_bad. exact H3.
  - destruct (open_stream_step_refines i p) as (f' & r & r' & H1 & _ & H3 & H4 & _).
    rewrite H1. cbn [fst snd]. split; [|exact H4]. eapply res_rel_not_bad. exact H3.
Qed.

End StepLevel.

(* ================================================================== *)
(* Non-vacuity: a concrete reachable state and the tree it represents  *)
(* ================================================================== *)
Module Example.

Definition run (f : fstate) (ops : list op) : fstate * list (res value) :=
  fold_left (fun '(f, rs) o => let '(f', r) := step f 1000 o in (f', rs ++ [r])) ops (f, []).

(* create storage /a, stream /a/s holding 5 bytes (handle dropped), storage /b *)
Definition ops : list op :=
  [OCreateStorage [47; 97]; OCreateStream 0 [47; 97; 47; 115]; OHWrite 0 [1; 2; 3; 4; 5];
   OHDrop 0; OCreateStorage [47; 98]].

Definition fin_run := Eval vm_compute in run (init_fstate V3 4096 4) ops.
Definition fin : fstate := Eval vm_compute in fst fin_run.

Example ops_all_ok : snd fin_run = [Ok VUnit; Ok VUnit; Ok (VNum 5); Ok VUnit; Ok VUnit].
Proof. vm_compute. reflexivity. Qed.

Definition ex_tree : node :=
  Dir (mkMeta 0 0 0 0)
    [([97], Dir (mkMeta 0 0 1000 1000) [([115], Leaf 0 [1; 2; 3; 4; 5])]);
     ([98], Dir (mkMeta 0 0 1000 1000) [])].

Definition ex_content (id : N) (bs : list byte) : Prop :=
  snd (read_data id 0 (lenN bs) (cs fin)) = Ok bs.

Definition ent_at (ds : list dirent) (i : N) : dirent :=
  match nthN ds i with Some e => e | None => dirent_unallocated end.

Ltac in_cases H := repeat (destruct H as [H|H]; [subst|]); try contradiction.

Example ex_tree_rep : TreeRep (dirs (cs fin)) ex_content ex_tree.
Proof.
  unfold TreeRep, ex_tree. apply NodeRep_dir. split; [reflexivity|].
  exists (ent_at (dirs (cs fin)) 0). split; [reflexivity|]. split; [reflexivity|].
  split; [reflexivity|]. split; [reflexivity|]. split; [discriminate|].
  exists (BN BL 1 (BN BL 3 BL)). split.
  { cbn [Rep]. split; [reflexivity|]. split; [discriminate|].
    exists (ent_at (dirs (cs fin)) 1). split; [reflexivity|]. split; [reflexivity|].
    split; [reflexivity|]. split; [discriminate|].
    exists (ent_at (dirs (cs fin)) 3). split; [reflexivity|]. split; reflexivity. }
  split.
  { cbn [bst ids app In]. repeat split; intros j Hj; in_cases Hj; vm_compute; reflexivity. }
  split.
  { cbn [ids app]. repeat constructor; cbn [In]; intuition discriminate. }
  cbn [ids app]. constructor; [|constructor; [|constructor]].
  - (* /a *)
    unfold KidRep. cbn [fst snd]. apply NodeRep_dir. split; [reflexivity|].
    exists (ent_at (dirs (cs fin)) 1). split; [reflexivity|]. split; [reflexivity|].
    split; [reflexivity|]. split; [reflexivity|]. split; [reflexivity|].
    exists (BN BL 2 BL). split.
    { cbn [Rep]. split; [reflexivity|]. split; [discriminate|].
      exists (ent_at (dirs (cs fin)) 2). split; [reflexivity|]. split; reflexivity. }
    split.
    { cbn [bst ids app In]. repeat split; intros j Hj; in_cases Hj. }
    split.
    { cbn [ids app]. repeat constructor; cbn [In]; intuition discriminate. }
    cbn [ids app]. constructor; [|constructor].
    (* /a/s *)
    unfold KidRep. cbn [fst snd]. apply NodeRep_leaf. split; [reflexivity|].
    exists (ent_at (dirs (cs fin)) 2). split; [reflexivity|].
    repeat (split; [vm_compute; reflexivity|]). reflexivity.
  - (* /b *)
    unfold KidRep. cbn [fst snd]. apply NodeRep_dir. split; [reflexivity|].
    exists (ent_at (dirs (cs fin)) 3). split; [reflexivity|]. split; [reflexivity|].
    split; [reflexivity|]. split; [reflexivity|]. split; [reflexivity|].
    exists BL. split; [reflexivity|]. split; [exact I|]. split; [constructor|constructor].
Qed.

Example ex_unshared : Unshared (dirs (cs fin)) ex_tree.
Proof.
  exists [0; 1; 2; 3]. split.
  - unfold ex_tree. cbn [AllIds].
    exists (ent_at (dirs (cs fin)) 0), (BN BL 1 (BN BL 3 BL)). split; [reflexivity|]. split.
    { cbn [Rep]. split; [reflexivity|]. split; [discriminate|].
      exists (ent_at (dirs (cs fin)) 1). split; [reflexivity|]. split; [reflexivity|].
      split; [reflexivity|]. split; [discriminate|].
      exists (ent_at (dirs (cs fin)) 3). split; [reflexivity|]. split; reflexivity. }
    exists [[1; 2]; [3]]. split; [|reflexivity]. cbn [ids app]. split; [|split; [|exact I]].
    + exists (ent_at (dirs (cs fin)) 1), (BN BL 2 BL). split; [reflexivity|]. split.
      { cbn [Rep]. split; [reflexivity|]. split; [discriminate|].
        exists (ent_at (dirs (cs fin)) 2). split; [reflexivity|]. split; reflexivity. }
      exists [[2]]. split; [|reflexivity]. cbn [ids app]. split; [|exact I].
      split; reflexivity.
    + exists (ent_at (dirs (cs fin)) 3), BL. split; [reflexivity|]. split; [reflexivity|].
      exists []. split; [exact I|reflexivity].
  - repeat constructor; cbn [In]; intuition discriminate.
Qed.

(* the theorems apply: e.g. the walk of this state is the specification's *)
Example ex_walk :
  exists r r', step fin 7 OWalk = (fin, r) /\ spec_step ex_tree 7 SWalk = (ex_tree, r') /\
    res_rel val_rel r r'.
Proof.
  apply (query_step_refines ex_content fin ex_tree ex_tree_rep 7 OWalk SWalk eq_refl).
  cbn [walk_size_ok]. apply unshared_fuel. exact ex_unshared.
Qed.

End Example.

Print Assumptions kids_sorted_of_rep.
Print Assumptions lookup_refines_get.
Print Assumptions exists_refines.
Print Assumptions is_stream_refines.
Print Assumptions is_storage_refines.
Print Assumptions entry_refines.
Print Assumptions root_entry_refines.
Print Assumptions read_storage_refines.
Print Assumptions read_storage_exact.
Print Assumptions read_root_refines.
Print Assumptions open_stream_refines.
Print Assumptions walk_refines.
Print Assumptions walk_storage_refines.
Print Assumptions unshared_size.
Print Assumptions query_step_refines.
Print Assumptions open_stream_step_refines.
Print Assumptions queries_never_bad.
Print Assumptions Example.ex_tree_rep.
Print Assumptions Example.ex_unshared.
Print Assumptions Example.ex_walk.
