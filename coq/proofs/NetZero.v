(* NetZero.v — C15 ("released space is reused") for namespace cycles.

   A cycle built from create_storage / create_new_stream (empty stream) /
   remove_storage / remove_stream that returns the abstract tree to where it
   started leaves the file size unchanged from the second repetition on: a
   removed entry leaves a TUnallocated slot in the directory table, the
   directory chain never shrinks, and allocate_dir_entry takes the first
   TUnallocated slot before it extends the chain.

   1  nfree: number of TUnallocated slots; insert_slots / remove_slots: the
      table after insert_dir_entry / remove_dir_entry (no invariant needed)
   2  create_effect / remove_effect for the four API calls under PInv: a
      creation takes a free slot when there is one and then writes only inside
      the directory chain (same nsect, same file length); a removal frees
      exactly one slot and never changes nsect or the file length
   3  storage_cycle_stable, stream_cycle_stable: create p; remove p; create p;
      remove p — the second pair does not grow the file
   4  balanced_cycle_stable: ANY list of the four calls with as many creations
      as removals (in any interleaving), repeated three times with every call
      accepted: sizes after repetitions 1, 2, 3 are equal.  Invariant: with
      F = number of free slots, bal = creations - removals, peak = largest
      prefix excess of creations: any run ends with F >= peak - bal (run_any);
      a run started with F >= peak allocates nothing (run_slack)
   5-7 the abstract tree.  obs t k c = stored spelling and payload at chain c;
      obs_ext: sorted trees with the same observations are equal; a creation /
      removal accepted by the specification changes obs exactly at its own
      chain (creates_at / removes_at); matched_cycle_tree: a cycle in which,
      chain by chain, creations and removals cancel and the first call is a
      creation gives back the tree it started from (any interleaving)
   8  run_rep: the model's accepted run is the specification's (from
      HistoryRefine.step_forward); matched_cycle_stable
   9  net_zero_cycle: creations followed by the removals of the same paths in
      any order; netzero_cycle_stable (the form asked for): the tree
      represented before the cycle is represented after every repetition — a
      theorem, not a hypothesis — and nsect / file length after repetitions 2
      and 3 equal those after repetition 1
   10 Example: V3, two storages kept, then a 3-entry cycle (storage, nested
      storage, empty stream; removal order not the reverse of creation):
      file length 3, 4, 4, 4 sectors; the theorem instantiated on it
   11 netzero_after_history: the same after any accepted namespace history on
      a freshly created file

   Scope: the invariant is PersistProofs.HInv (PInv + EmptyStreams + Sized k):
   files reached by namespace operations, no stream owns sectors, no free
   sectors, at most 6000 steps.  Stdlib only; no axioms. *)
From Coq Require Import List NArith ZArith Lia Bool ZifyN ZifyBool Permutation.
From Cfb.model Require Import Base Names Time DirEnt State Alloc Dir Mini Store Handle Open Cfb.
From Cfb.gen Require Import Consts.
From Cfb.spec Require Import Tree.
From Cfb.proofs Require Import DirProofs ChainProofs PersistProofs.
From Cfb.proofs Require CodecProofs WalkProofs ReuseProofs DirCoherence ReadonlyTotal
                        QueryRefine MutRefine TreeProofs NamesProofs HistoryRefine.
Import ListNotations.
Open Scope N_scope.

(* ================================================================== *)
(* 1. free slots of the directory table                                *)
(* ================================================================== *)

Definition is_free (e : dirent) : bool := objtype_eqb (d_type e) TUnalloc.

Fixpoint nfree (ds : list dirent) : N :=
  match ds with
  | [] => 0
  | e :: t => (if is_free e then 1 else 0) + nfree t
  end.

Lemma is_free_type : forall e e', d_type e' = d_type e -> is_free e' = is_free e.
Proof. intros e e' H. unfold is_free. rewrite H. reflexivity. Qed.

Lemma is_free_true : forall e, is_free e = true <-> d_type e = TUnalloc.
Proof. intros e. unfold is_free. destruct (d_type e); cbn; split; intro H; congruence. Qed.

Lemma nfree_app : forall a b, nfree (a ++ b) = nfree a + nfree b.
Proof. induction a as [|e a IH]; intros b; cbn [app nfree]; [reflexivity|]. rewrite IH. lia. Qed.

Lemma first_unalloc_none : forall ds k, first_unalloc ds k = None <-> nfree ds = 0.
Proof.
  induction ds as [|e t IH]; intros k; cbn [first_unalloc nfree]; [tauto|].
  unfold is_free. destruct (objtype_eqb (d_type e) TUnalloc).
  - split; [discriminate|lia].
  - rewrite IH. split; lia.
Qed.

(* replacing one slot *)
Lemma nfree_updN : forall ds i e e', nthN ds i = Some e ->
  nfree (updN ds i e') + (if is_free e then 1 else 0) = nfree ds + (if is_free e' then 1 else 0).
Proof.
  induction ds as [|x t IH]; intros i e e' H; cbn [nthN] in H; [discriminate|].
  cbn [updN]. destruct (i =? 0).
  - injection H as ->. cbn [nfree]. lia.
  - cbn [nfree]. specialize (IH _ _ e' H). lia.
Qed.

(* a table with the same types slot by slot has the same number of free slots *)
Lemma nfree_types : forall ds ds',
  lenN ds' = lenN ds ->
  (forall j e, nthN ds j = Some e -> exists e', nthN ds' j = Some e' /\ d_type e' = d_type e) ->
  nfree ds' = nfree ds.
Proof.
  induction ds as [|x t IH]; intros ds' Hl H.
  - destruct ds'; [reflexivity|]. cbn [lenN] in Hl. lia.
  - destruct ds' as [|x' t']; [cbn [lenN] in Hl; lia|].
    cbn [nfree]. destruct (H 0 x eq_refl) as (e' & He' & Ht). cbn in He'. injection He' as <-.
    rewrite (is_free_type _ _ Ht). f_equal. apply IH.
    + cbn [lenN] in Hl. lia.
    + intros j e He. destruct (H (j + 1) e) as (e2 & He2 & Ht2).
      * cbn [nthN]. destruct (N.eqb_spec (j + 1) 0); [lia|].
        replace (N.pred (j + 1)) with j by lia. exact He.
      * exists e2. split; [|exact Ht2]. cbn [nthN] in He2.
        destruct (N.eqb_spec (j + 1) 0); [lia|].
        replace (N.pred (j + 1)) with j in He2 by lia. exact He2.
Qed.

Lemma nfree_le_len : forall ds, nfree ds <= lenN ds.
Proof. induction ds as [|e t IH]; cbn [nfree lenN]; [lia|]. destruct (is_free e); lia. Qed.

(* ---- the table after an insertion ---- *)
Lemma tbl_link_len' : forall ds parent prev ord id, lenN (tbl_link ds parent prev ord id) = lenN ds.
Proof.
  intros. unfold tbl_link. destruct ord; rewrite ?lenN_modN; try reflexivity.
  destruct (nthN ds prev); [apply lenN_updN|reflexivity].
Qed.

Lemma insert_slots : forall parent nm ty now s s' id,
  ty <> TUnalloc ->
  insert_dir_entry parent nm ty now s = (s', Ok id) ->
  (nfree (dirs s) = 0 -> nfree (dirs s') = 0 /\ lenN (dirs s') = lenN (dirs s) + 1) /\
  (0 < nfree (dirs s) -> nfree (dirs s') + 1 = nfree (dirs s) /\ lenN (dirs s') = lenN (dirs s)).
Proof.
  intros parent nm ty now s s' id Hty H.
  destruct (insert_proj _ _ _ _ _ _ _ H) as (ds0 & p & prev & ord & Hal & Hid0 & Hrest).
  cbv zeta in Hrest. destruct Hrest as (Hp1 & Hd & Hds).
  set (new := dirent_new nm ty (if objtype_eqb ty TStorage then now else 0)) in *.
  set (ds1 := updN ds0 id new) in *.
  assert (Hod : ord = Eq -> prev = parent).
  { intros ->. apply DirCoherence.insert_descend_eq in Hd. apply Hd. }
  assert (Hlen : lenN (dirs s') = lenN ds1) by (rewrite Hds; apply tbl_link_len').
  assert (Hn1 : nfree (dirs s') = nfree ds1).
  { apply nfree_types; [exact Hlen|]. intros j e He.
    destruct (tbl_link_stable ds1 parent prev ord id p j e Hp1 Hod He) as (e' & He' & P & _).
    exists e'. rewrite Hds. split; [exact He'|apply P]. }
  assert (Hnew : is_free new = false).
  { unfold is_free, new. cbn [dirent_new d_type]. destruct ty; try reflexivity. contradiction. }
  destruct (nthN ds0 id) as [old|] eqn:Hold; [|contradiction].
  pose proof (nfree_updN ds0 id old new Hold) as HU. fold ds1 in HU. rewrite Hnew in HU. cbv iota in HU.
  assert (Hl1 : lenN ds1 = lenN ds0) by apply lenN_updN.
  unfold alloc_tbl in Hal. destruct (first_unalloc (dirs s) 0) as [i|] eqn:F.
  - injection Hal as -> ->.
    apply first_unalloc_spec in F. rewrite N.sub_0_r in F. destruct F as (_ & e & He & Te).
    assert (old = e) by congruence. subst old.
    assert (Hf : is_free e = true) by (apply is_free_true; exact Te). rewrite Hf in HU. cbv iota in HU.
    split; [intros Z; lia|]. intros _. split; lia.
  - injection Hal as -> ->. apply first_unalloc_none in F.
    rewrite nthN_app_last in Hold. injection Hold as <-.
    rewrite nfree_app in HU. cbn [nfree] in HU. change (is_free dirent_unallocated) with true in HU.
    cbv iota in HU.
    rewrite lenN_app in Hl1. cbn [lenN] in Hl1.
    split; [|intros Z; lia]. intros _. split; lia.
Qed.

(* with a free slot the allocation does not touch the sectors *)
Lemma insert_no_growth : forall parent nm ty now s s' id,
  PInv s -> 0 < nfree (dirs s) ->
  insert_dir_entry parent nm ty now s = (s', Ok id) ->
  exists dids, dframe dids s s'.
Proof.
  intros parent nm ty now s s' id [B Hdir _ _ _] Hfree H.
  destruct (PInv_DH _ B Hdir) as (dids & HD). exists dids.
  rewrite insert_dir_entry_split in H. binv H id0 s1 Ha Hr.
  assert (s1 = s).
  { unfold allocate_dir_entry in Ha. binv Ha s0 sx H1 H2. apply get_inv in H1. destruct H1 as [-> ->].
    destruct (first_unalloc (dirs s) 0) as [i|] eqn:F.
    - apply ret_inv in H2. tauto.
    - apply first_unalloc_none in F. lia. }
  subst s1.
  exact (proj2 (dstep_insert_rest dids parent nm ty now id0 s s' id HD Hr)).
Qed.

(* ---- the table after a removal ---- *)
Lemma remove_slots : forall s s' names id0 e0 nm pid,
  lookup_chain (dirs s) names ROOT_STREAM_ID = Ok (Some id0) ->
  nthN (dirs s) id0 = Some e0 -> d_type e0 <> TUnalloc ->
  lastN names = Some nm ->
  lookup_chain (dirs s) (pop_last names) ROOT_STREAM_ID = Ok (Some pid) ->
  remove_dir_entry pid nm s = (s', Ok tt) ->
  nfree (dirs s') = nfree (dirs s) + 1 /\ lenN (dirs s') = lenN (dirs s).
Proof.
  intros s s' names id0 e0 nm pid Hlk He0 Ht0 Hlast Hlkp H.
  destruct (remove_proj _ _ _ _ _ H)
    as (p & path & x & e & pp & pred & Hp & Hrf & Hlastp & He & Hc & Hx0 & Hfp & Hds).
  assert (Hfind : find_in_siblings (S (length (dirs s))) (dirs s) nm (d_child p) = Ok (Some id0)).
  { rewrite (TreeProofs.lastN_some _ _ _ Hlast), MutRefine.lookup_chain_app, Hlkp in Hlk.
    cbn [rbind lookup_chain] in Hlk. unfold dir_entry_of in Hlk. rewrite Hp in Hlk. cbn [rbind] in Hlk.
    destruct (find_in_siblings (S (length (dirs s))) (dirs s) nm (d_child p)) as [r| | |];
      try discriminate Hlk. cbn [rbind] in Hlk.
    destruct r as [cid|]; [|discriminate Hlk]. injection Hlk as ->. reflexivity. }
  pose proof (find_remove_same _ _ _ _ _ _ _ Hfind Hrf) as Hx.
  assert (x = id0) by congruence. subst x. assert (e = e0) by congruence. subst e.
  destruct (remove_ids_stable_raw _ _ _ _ _ H) as (x & ex & Hx1 & _ & _ & _ & Hx5 & Hlen & Hst).
  assert (x = id0).
  { destruct (N.eq_dec x id0) as [E|E]; [exact E|exfalso].
    destruct (Hst id0 e0 ltac:(congruence) He0) as (e' & He' & P & _).
    rewrite Hds in He'. rewrite (remove_tbl_x _ _ _ _ _ _ _ He0) in He'. injection He' as <-.
    destruct P as (_ & Pt & _). cbn in Pt. congruence. }
  subst x. assert (ex = e0) by congruence. subst ex.
  split; [|exact Hlen].
  set (mid := updN (dirs s) id0 dirent_unallocated).
  assert (Hm : nfree (dirs s') = nfree mid).
  { apply nfree_types; [unfold mid; rewrite lenN_updN; exact Hlen|].
    intros j e He1. unfold mid in He1. destruct (N.eq_dec j id0) as [->|Hne].
    - rewrite nthN_updN_same in He1 by (eapply nthN_Some_lt; exact He0). injection He1 as <-.
      exists dirent_unallocated. split; [exact Hx5|reflexivity].
    - rewrite nthN_updN_other in He1 by congruence.
      destruct (Hst j e Hne He1) as (e' & He' & P & _). exists e'. split; [exact He'|apply P]. }
  rewrite Hm. pose proof (nfree_updN (dirs s) id0 e0 dirent_unallocated He0) as HU. fold mid in HU.
  change (is_free dirent_unallocated) with true in HU.
  assert (Hf : is_free e0 = false).
  { destruct (is_free e0) eqn:E; [|reflexivity]. apply is_free_true in E. contradiction. }
  rewrite Hf in HU. cbv iota in HU. lia.
Qed.

(* ================================================================== *)
(* 2. the four operations: slots and sectors                           *)
(* ================================================================== *)

(* what a step that keeps the sectors keeps *)
Definition same_size (s s' : cstate) : Prop :=
  nsect s' = nsect s /\ lenN (img s') = lenN (img s) /\ lenN (dirs s') = lenN (dirs s).

Lemma dframe_same_size : forall dids s s', dframe dids s s' -> same_size s s'.
Proof.
  intros dids s s' (_ & F2 & _ & _ & _ & _ & _ & _ & _ & _ & F11 & _ & _ & _ & F15).
  repeat split; assumption.
Qed.

(* a creation: takes a free slot when there is one, and then the sectors stay *)
Definition create_effect (s s' : cstate) : Prop :=
  (nfree (dirs s) = 0 -> nfree (dirs s') = 0) /\
  (0 < nfree (dirs s) -> nfree (dirs s') + 1 = nfree (dirs s) /\ same_size s s').

(* a removal: frees one slot, the sectors stay *)
Definition remove_effect (s s' : cstate) : Prop :=
  nfree (dirs s') = nfree (dirs s) + 1 /\ same_size s s'.

Lemma insert_effect : forall parent nm ty now s s' id,
  PInv s -> ty <> TUnalloc ->
  insert_dir_entry parent nm ty now s = (s', Ok id) -> create_effect s s'.
Proof.
  intros parent nm ty now s s' id HP Hty H.
  destruct (insert_slots _ _ _ _ _ _ _ Hty H) as [A B]. split.
  - intros Z. apply A. exact Z.
  - intros Hpos. split; [apply B; exact Hpos|].
    destruct (insert_no_growth _ _ _ _ _ _ _ HP Hpos H) as (dids & F).
    eapply dframe_same_size. exact F.
Qed.

Theorem create_storage_effect : forall p now s s',
  PInv s -> api_create_storage p now s = (s', Ok tt) -> create_effect s s'.
Proof.
  intros p now s s' HP H. unfold api_create_storage, create_storage_names in H.
  destruct (MutRefine.names_lookup_inv _ _ _ _ _ _ H) as (names & r & _ & _ & HK).
  destruct r as [id0|].
  { binv HK e0 s1 H1 H2. discriminate H2. }
  destruct (lastN names) as [nm|]; [|discriminate HK].
  binv HK u1 s1 H1 H2. apply lift_inv in H1. destruct H1 as [-> _].
  destruct (MutRefine.lookup_inv _ _ _ _ _ _ H2) as (pr & _ & H3).
  destruct pr as [pid|]; [|discriminate H3].
  binv H3 pe s1 H1 H4. apply dir_entry_inv in H1. destruct H1 as [-> _].
  destruct (objtype_eqb (d_type pe) TStream); [discriminate H4|].
  binv H4 nid s1 H1 H5. apply ret_inv in H5. destruct H5 as [<- _].
  eapply insert_effect; [exact HP| |exact H1]. discriminate.
Qed.

Theorem create_new_stream_effect : forall p mb now s s' h,
  PInv s -> api_create_stream p false mb now s = (s', Ok h) -> create_effect s s'.
Proof.
  intros p mb now s s' h HP H. unfold api_create_stream in H.
  destruct (MutRefine.names_lookup_inv _ _ _ _ _ _ H) as (names & r & _ & _ & HK).
  destruct r as [id0|].
  { binv HK e0 s1 H1 H2. destruct (negb (objtype_eqb (d_type e0) TStream)); discriminate H2. }
  destruct (lastN names) as [nm|]; [|discriminate HK].
  binv HK u1 s1 H1 H2. apply lift_inv in H1. destruct H1 as [-> _].
  destruct (MutRefine.lookup_inv _ _ _ _ _ _ H2) as (pr & _ & H3).
  destruct pr as [pid|]; [|discriminate H3].
  binv H3 pe s1 H1 H4. apply dir_entry_inv in H1. destruct H1 as [-> _].
  destruct (objtype_eqb (d_type pe) TStream); [discriminate H4|].
  binv H4 nid s1 H1 H5. apply handle_new_state in H5. subst s1.
  eapply insert_effect; [exact HP| |exact H1]. discriminate.
Qed.

Theorem remove_storage_effect : forall p s s',
  PInv s -> api_remove_storage p s = (s', Ok tt) -> remove_effect s s'.
Proof.
  intros p s s' HP H.
  destruct (remove_storage_frame p s s' HP H) as (dids & F).
  split; [|eapply dframe_same_size; exact F].
  unfold api_remove_storage, remove_storage_names in H.
  destruct (MutRefine.names_lookup_inv _ _ _ _ _ _ H) as (names & r & En & Hlk & HK).
  destruct r as [id0|]; [|discriminate HK].
  binv HK e s1 H1 H2. apply dir_entry_inv in H1. destruct H1 as [-> He].
  destruct (objtype_eqb (d_type e) TRoot) eqn:T1; [discriminate H2|].
  destruct (objtype_eqb (d_type e) TStream) eqn:T2; [discriminate H2|].
  destruct (objtype_eqb (d_type e) TStorage) eqn:T3; cbn [negb] in H2; [|discriminate H2].
  destruct (d_child e =? NO_STREAM) eqn:Ch; cbn [negb] in H2; [|discriminate H2].
  destruct (lastN names) as [nm|] eqn:Hlast; [|discriminate H2].
  destruct (MutRefine.lookup_inv _ _ _ _ _ _ H2) as (pr & Hlkp & H3). clear H2.
  destruct pr as [pid|]; [|discriminate H3].
  apply (remove_slots s s' names id0 e nm pid Hlk He); try assumption.
  apply objtype_eqb_true in T3. rewrite T3. discriminate.
Qed.

Theorem remove_stream_effect : forall p s s',
  PInv s -> EmptyStreams s -> api_remove_stream p s = (s', Ok tt) -> remove_effect s s'.
Proof.
  intros p s s' HP HE H.
  destruct (remove_stream_preserves p s s' HP HE H) as (_ & _ & dids & F).
  split; [|eapply dframe_same_size; exact F].
  unfold api_remove_stream, remove_stream_names in H.
  destruct (MutRefine.names_lookup_inv _ _ _ _ _ _ H) as (names & r & En & Hlk & HK).
  destruct r as [id0|]; [|discriminate HK].
  binv HK e s1 H1 H2. apply dir_entry_inv in H1. destruct H1 as [-> He].
  destruct (objtype_eqb (d_type e) TStream) eqn:T1; cbn [negb] in H2; [|discriminate H2].
  destruct (d_child e =? NO_STREAM) eqn:Ch; cbn [negb] in H2; [|discriminate H2].
  apply objtype_eqb_true in T1.
  assert (Hes : d_start e = END_OF_CHAIN /\ d_len e = 0).
  { unfold EmptyStreams in HE. rewrite Forall_nthN in HE. exact (HE _ _ He T1). }
  destruct Hes as [Est Eln]. rewrite Eln, Est in H2.
  replace (0 <? MINI_STREAM_CUTOFF) with true in H2 by reflexivity.
  binv H2 u1 s1 H1 H2. rewrite free_mini_chain_eoc in H1. injection H1 as <- _.
  destruct (lastN names) as [nm|] eqn:Hlast; [|discriminate H2].
  destruct (MutRefine.lookup_inv _ _ _ _ _ _ H2) as (pr & Hlkp & H3). clear H2.
  destruct pr as [pid|]; [|discriminate H3].
  apply (remove_slots s s' names id0 e nm pid Hlk He); try assumption.
  rewrite T1. discriminate.
Qed.

(* ================================================================== *)
(* 3. a single entry created and removed, twice                        *)
(* ================================================================== *)

(* room for one growth step before the bounds of [Regime] are reached *)
Definition Roomy (s : cstate) : Prop :=
  lenN (difat s) + 1 < NUM_DIFAT_HDR /\ nsect s + 5 <= MAX_REGULAR_SECTOR /\
  lenN (dirs s) + 1 < MAX_REGULAR_STREAM_ID.

Lemma Roomy_Regime : forall s, Roomy s -> Regime s.
Proof. intros s (A & B & C). unfold Regime. lia. Qed.

Lemma Roomy_after : forall dids s s1 s2, Roomy s -> Grow s s1 -> dframe dids s1 s2 -> Regime s2.
Proof.
  intros dids s s1 s2 (A & B & C) (G1 & G2 & G3)
         (_ & F2 & _ & F4 & _ & _ & _ & _ & _ & _ & _ & _ & _ & _ & F15).
  unfold Regime. rewrite F2, F4, F15. lia.
Qed.

(* the second create/remove of the same storage does not grow the file; the
   first may (it can add a directory sector) *)
Theorem storage_cycle_stable : forall p now now' s s1 s2 s3 s4,
  PInv s -> Roomy s -> Forall CodecProofs.scalar p -> now <= u64_max -> now' <= u64_max ->
  api_create_storage p now s = (s1, Ok tt) ->
  api_remove_storage p s1 = (s2, Ok tt) ->
  api_create_storage p now' s2 = (s3, Ok tt) ->
  api_remove_storage p s3 = (s4, Ok tt) ->
  nsect s3 = nsect s1 /\ nsect s4 = nsect s2 /\ lenN (img s4) = lenN (img s2) /\
  lenN (img s3) = lenN (img s1) /\ nsect s2 = nsect s1 /\ 0 < nfree (dirs s4).
Proof.
  intros p now now' s s1 s2 s3 s4 HP HR Hsc Hn Hn' C1 R1 C2 R2.
  destruct (create_storage_preserves p now s s1 HP (Roomy_Regime _ HR) Hsc Hn C1) as [HP1 G1].
  pose proof (remove_storage_preserves p s1 s2 HP1 R1) as HP2.
  destruct (remove_storage_frame p s1 s2 HP1 R1) as (dids & F1).
  destruct (remove_storage_effect p s1 s2 HP1 R1) as [E1 (A1 & A2 & A3)].
  pose proof (Roomy_after _ _ _ _ HR G1 F1) as HR2.
  destruct (create_storage_preserves p now' s2 s3 HP2 HR2 Hsc Hn' C2) as [HP3 _].
  destruct (create_storage_effect p now' s2 s3 HP2 C2) as [_ E2].
  destruct (E2 ltac:(lia)) as [E3 (B1 & B2 & B3)].
  destruct (remove_storage_effect p s3 s4 HP3 R2) as [E4 (D1 & D2 & D3)].
  repeat split; lia.
Qed.

(* the same for an empty stream *)
Theorem stream_cycle_stable : forall p mb mb' now now' s s1 s2 s3 s4 h h',
  PInv s -> EmptyStreams s -> Roomy s -> Forall CodecProofs.scalar p ->
  now <= u64_max -> now' <= u64_max ->
  api_create_stream p false mb now s = (s1, Ok h) ->
  api_remove_stream p s1 = (s2, Ok tt) ->
  api_create_stream p false mb' now' s2 = (s3, Ok h') ->
  api_remove_stream p s3 = (s4, Ok tt) ->
  nsect s3 = nsect s1 /\ nsect s4 = nsect s2 /\ lenN (img s4) = lenN (img s2) /\
  lenN (img s3) = lenN (img s1) /\ nsect s2 = nsect s1 /\ 0 < nfree (dirs s4).
Proof.
  intros p mb mb' now now' s s1 s2 s3 s4 h h' HP HE HR Hsc Hn Hn' C1 R1 C2 R2.
  destruct (create_new_stream_preserves p mb now s s1 h HP (Roomy_Regime _ HR) Hsc Hn C1)
    as (HP1 & G1 & HE1). specialize (HE1 HE).
  destruct (remove_stream_preserves p s1 s2 HP1 HE1 R1) as (HP2 & HE2 & dids & F1).
  destruct (remove_stream_effect p s1 s2 HP1 HE1 R1) as [E1 (A1 & A2 & A3)].
  pose proof (Roomy_after _ _ _ _ HR G1 F1) as HR2.
  destruct (create_new_stream_preserves p mb' now' s2 s3 h' HP2 HR2 Hsc Hn' C2) as (HP3 & _ & HE3).
  specialize (HE3 HE2).
  destruct (create_new_stream_effect p mb' now' s2 s3 h' HP2 C2) as [_ E2].
  destruct (E2 ltac:(lia)) as [E3 (B1 & B2 & B3)].
  destruct (remove_stream_effect p s3 s4 HP3 HE3 R2) as [E4 (D1 & D2 & D3)].
  repeat split; lia.
Qed.

(* ================================================================== *)
(* 4. cycles of namespace operations                                   *)
(* ================================================================== *)

Notation run_ops := ReadonlyTotal.run_ops.

(* the operations of a cycle, with the range conditions of [PersistProofs.covered] *)
Definition ns_op (o : op) : Prop :=
  match o with
  | OCreateStorage p | OCreateNewStream _ p => Forall CodecProofs.scalar p
  | ORemoveStorage _ | ORemoveStream _ => True
  | _ => False
  end.

Definition item_ok (x : N * op) : Prop := ns_op (snd x) /\ fst x <= u64_max.

(* +1 for a creation, -1 for a removal *)
Definition delta (o : op) : Z :=
  match o with
  | OCreateStorage _ | OCreateNewStream _ _ => 1
  | ORemoveStorage _ | ORemoveStream _ => -1
  | _ => 0
  end%Z.

(* entries created minus entries removed *)
Fixpoint bal (l : list (N * op)) : Z :=
  match l with [] => 0 | x :: t => delta (snd x) + bal t end%Z.

(* the largest excess of creations over removals over the prefixes of the list:
   the number of free slots that makes the whole list run without allocation *)
Fixpoint peak (l : list (N * op)) : Z :=
  match l with [] => 0 | x :: t => Z.max 0 (delta (snd x) + peak t) end%Z.

Lemma peak_nonneg : forall l, (0 <= peak l)%Z.
Proof. destruct l; cbn [peak]; lia. Qed.

Lemma ns_op_covered : forall o, ns_op o -> covered o.
Proof. intros o H. destruct o; cbn [ns_op covered] in *; try contradiction; assumption. Qed.

Definition step_effect (o : op) (s s' : cstate) : Prop :=
  match o with
  | OCreateStorage _ | OCreateNewStream _ _ => create_effect s s'
  | ORemoveStorage _ | ORemoveStream _ => remove_effect s s'
  | _ => True
  end.

Lemma step_effects : forall f now o k,
  ns_op o -> HInv k (cs f) ->
  is_ok (snd (step f now o)) = true ->
  step_effect o (cs f) (cs (fst (step f now o))).
Proof.
  intros f now o k Hc (HP & HE & _) Hok.
  destruct o; cbn [ns_op] in Hc; try contradiction; cbn [step step_effect] in *.
  - destruct (with_cs_ok _ _ _ _ Hok) as ([] & E). eapply create_storage_effect; eassumption.
  - destruct (with_cs_ok _ _ _ _ Hok) as ([] & E). eapply remove_storage_effect; eassumption.
  - destruct (with_new_handle_ok _ _ _ Hok) as (h0 & E). eapply create_new_stream_effect; eassumption.
  - destruct (with_cs_ok _ _ _ _ Hok) as ([] & E). eapply remove_stream_effect; eassumption.
Qed.

Definition F (s : cstate) : Z := Z.of_N (nfree (dirs s)).

Lemma F_nonneg : forall s, (0 <= F s)%Z.
Proof. intros. unfold F. lia. Qed.

Lemma same_size_refl : forall s, same_size s s.
Proof. intros. repeat split. Qed.

Lemma same_size_trans : forall a b c, same_size a b -> same_size b c -> same_size a c.
Proof. intros a b c (A1 & A2 & A3) (B1 & B2 & B3). repeat split; congruence. Qed.

(* one step: the slot count moves by at most the step's delta, and exactly by
   it (with the sectors untouched) when a slot is free or none is needed *)
Lemma step_F : forall o s s', ns_op o -> step_effect o s s' ->
  (F s - delta o <= F s')%Z /\
  ((Z.max 0 (delta o) <= F s)%Z -> F s' = (F s - delta o)%Z /\ same_size s s').
Proof.
  intros o s s' Hc H. unfold F.
  destruct o; cbn [ns_op] in Hc; try contradiction; cbn [step_effect delta] in *.
  - destruct H as [A B]. split.
    + destruct (N.eq_dec (nfree (dirs s)) 0) as [Z|Z]; [rewrite (A Z), Z; lia|].
      destruct (B ltac:(lia)) as [B1 _]. lia.
    + intros Hpos. destruct (B ltac:(lia)) as [B1 B2]. split; [lia|exact B2].
  - destruct H as [A B]. split; [lia|]. intros _. split; [lia|exact B].
  - destruct H as [A B]. split.
    + destruct (N.eq_dec (nfree (dirs s)) 0) as [Z|Z]; [rewrite (A Z), Z; lia|].
      destruct (B ltac:(lia)) as [B1 _]. lia.
    + intros Hpos. destruct (B ltac:(lia)) as [B1 B2]. split; [lia|exact B2].
  - destruct H as [A B]. split; [lia|]. intros _. split; [lia|exact B].
Qed.

Lemma all_ok_cons : forall f now o t, all_ok f ((now, o) :: t) = true ->
  is_ok (snd (step f now o)) = true /\ all_ok (fst (step f now o)) t = true.
Proof. intros f now o t H. cbn [all_ok] in H. apply andb_true_iff in H. exact H. Qed.

(* any run: at the end at least [peak l - bal l] slots are free *)
Lemma run_any : forall l f k,
  Forall item_ok l -> k + N.of_nat (length l) <= 6000 ->
  HInv k (cs f) -> all_ok f l = true ->
  let f' := fst (run_ops f l) in
  (F (cs f) - bal l <= F (cs f'))%Z /\ (peak l - bal l <= F (cs f'))%Z /\
  HInv (k + N.of_nat (length l)) (cs f').
Proof.
  induction l as [|[now o] t IH]; intros f k Hall Hlen HI Hok; cbv zeta.
  - cbn [ReadonlyTotal.run_ops fst bal peak length]. pose proof (F_nonneg (cs f)).
    replace (k + N.of_nat 0) with k by lia. split; [lia|]. split; [lia|exact HI].
  - inversion Hall as [|? ? [Hc Hnow] Hall']; subst. cbn [fst snd] in Hc, Hnow.
    destruct (all_ok_cons _ _ _ _ Hok) as [Hok1 Hok2]. cbn [length] in Hlen.
    pose proof (step_covered f now o k (ns_op_covered _ Hc) Hnow ltac:(lia) HI (or_introl Hok1)) as HI1.
    pose proof (step_effects f now o k Hc HI Hok1) as HE.
    destruct (step_F _ _ _ Hc HE) as [S1 _].
    rewrite run_ops_cons. cbn [bal peak snd].
    destruct (IH (fst (step f now o)) (k + 1) Hall' ltac:(lia) HI1 Hok2) as (A & B & C).
    cbv zeta in A, B, C. pose proof (F_nonneg (cs (fst (step f now o)))).
    pose proof (F_nonneg (cs f)).
    split; [lia|]. split; [lia|].
    replace (k + N.of_nat (length ((now, o) :: t))) with (k + 1 + N.of_nat (length t))
      by (cbn [length]; lia). exact C.
Qed.

(* a run that starts with [peak l] free slots allocates nothing *)
Lemma run_slack : forall l f k,
  Forall item_ok l -> k + N.of_nat (length l) <= 6000 ->
  HInv k (cs f) -> all_ok f l = true -> (peak l <= F (cs f))%Z ->
  let f' := fst (run_ops f l) in
  same_size (cs f) (cs f') /\ F (cs f') = (F (cs f) - bal l)%Z /\
  HInv (k + N.of_nat (length l)) (cs f').
Proof.
  induction l as [|[now o] t IH]; intros f k Hall Hlen HI Hok Hpk; cbv zeta.
  - cbn [ReadonlyTotal.run_ops fst bal length].
    replace (k + N.of_nat 0) with k by lia. split; [apply same_size_refl|]. split; [lia|exact HI].
  - inversion Hall as [|? ? [Hc Hnow] Hall']; subst. cbn [fst snd] in Hc, Hnow.
    destruct (all_ok_cons _ _ _ _ Hok) as [Hok1 Hok2]. cbn [length] in Hlen.
    pose proof (step_covered f now o k (ns_op_covered _ Hc) Hnow ltac:(lia) HI (or_introl Hok1)) as HI1.
    pose proof (step_effects f now o k Hc HI Hok1) as HE.
    cbn [peak snd] in Hpk. pose proof (peak_nonneg t) as Hpt.
    destruct (step_F _ _ _ Hc HE) as [_ S2]. destruct (S2 ltac:(lia)) as [S3 S4].
    rewrite run_ops_cons. cbn [bal snd].
    destruct (IH (fst (step f now o)) (k + 1) Hall' ltac:(lia) HI1 Hok2 ltac:(lia)) as (A & B & C).
    cbv zeta in A, B, C.
    split; [eapply same_size_trans; eassumption|]. split; [lia|].
    replace (k + N.of_nat (length ((now, o) :: t))) with (k + 1 + N.of_nat (length t))
      by (cbn [length]; lia). exact C.
Qed.

(* a cycle: namespace operations, as many creations as removals *)
Definition balanced (cyc : list (N * op)) : Prop := Forall item_ok cyc /\ bal cyc = 0%Z.

Definition AllOk (f : fstate) (l : list (N * op)) : Prop := all_ok f l = true.

(* C15 for balanced namespace cycles: from the second repetition on, the
   number of sectors, the length of the file and the length of the table
   are what they were after the first *)
Theorem balanced_cycle_stable : forall cyc f k,
  balanced cyc -> HInv k (cs f) -> k + 3 * N.of_nat (length cyc) <= 6000 ->
  let f1 := fst (run_ops f cyc) in
  let f2 := fst (run_ops f1 cyc) in
  let f3 := fst (run_ops f2 cyc) in
  AllOk f cyc -> AllOk f1 cyc -> AllOk f2 cyc ->
  same_size (cs f1) (cs f2) /\ same_size (cs f2) (cs f3).
Proof.
  intros cyc f k [Hall Hbal] HI Hlen f1 f2 f3 O1 O2 O3.
  destruct (run_any cyc f k Hall ltac:(lia) HI O1) as (_ & A & HI1). cbv zeta in A, HI1. fold f1 in A, HI1.
  rewrite Hbal in A.
  destruct (run_slack cyc f1 (k + N.of_nat (length cyc)) Hall ltac:(lia) HI1 O2 ltac:(lia))
    as (S12 & B & HI2).
  cbv zeta in S12, B, HI2. fold f2 in S12, B, HI2. rewrite Hbal in B.
  destruct (run_slack cyc f2 (k + N.of_nat (length cyc) + N.of_nat (length cyc)) Hall ltac:(lia) HI2 O3
              ltac:(lia)) as (S23 & _ & _).
  cbv zeta in S23. fold f3 in S23. split; assumption.
Qed.

(* ================================================================== *)
(* 5. the abstract tree: creation then removal of a fresh name          *)
(* ================================================================== *)

Import TreeProofs.

Lemma replace_replace : forall x c1 c2 kids,
  replace_kid x c2 (replace_kid x c1 kids) = replace_kid x c2 kids.
Proof.
  intros x c1 c2. induction kids as [|[k c] t IH]; cbn [replace_kid]; [reflexivity|].
  destruct (cmp_names x k) eqn:E; cbn [replace_kid]; rewrite E; [reflexivity| |]; rewrite IH; reflexivity.
Qed.

Lemma replace_same : forall x k c kids, find_kid x kids = Some (k, c) -> replace_kid x c kids = kids.
Proof.
  intros x k c. induction kids as [|[k0 c0] t IH]; cbn [find_kid replace_kid]; intro H; [discriminate|].
  destruct (cmp_names x k0).
  - injection H as <- <-. reflexivity.
  - rewrite (IH H). reflexivity.
  - rewrite (IH H). reflexivity.
Qed.

Lemma update_update : forall a t f g,
  update (update t a f) a g = update t a (fun x => g (f x)).
Proof.
  induction a as [|x r IH]; intros t f g; cbn [update]; [reflexivity|].
  destruct t as [st bs|m kids]; [reflexivity|].
  destruct (find_kid x kids) as [[k c]|] eqn:Ef; cbn [update]; [|rewrite Ef; reflexivity].
  rewrite find_replace_gen, NamesProofs.cmp_names_refl, Ef. rewrite IH, replace_replace. reflexivity.
Qed.

Lemma update_id : forall a t f n, get t a = Some n -> f n = n -> update t a f = t.
Proof.
  induction a as [|x r IH]; intros t f n Hg Hf; cbn [update get] in *.
  - injection Hg as ->. exact Hf.
  - destruct t as [st bs|m kids]; [reflexivity|].
    destruct (find_kid x kids) as [[k c]|] eqn:Ef; [|reflexivity].
    rewrite (IH c f n Hg Hf), (replace_same _ _ _ _ Ef). reflexivity.
Qed.

Lemma remove_insert_kid : forall nm c kids,
  find_kid nm kids = None -> remove_kid nm (insert_kid nm c kids) = kids.
Proof.
  intros nm c. induction kids as [|[k x] t IH]; intro H; cbn [insert_kid].
  - cbn [remove_kid]. rewrite NamesProofs.cmp_names_refl. reflexivity.
  - cbn [find_kid] in H. destruct (cmp_names nm k) eqn:E; [discriminate H| |].
    + cbn [remove_kid]. rewrite NamesProofs.cmp_names_refl. reflexivity.
    + cbn [remove_kid]. rewrite E, (IH H). reflexivity.
Qed.

(* a fresh child inserted and removed again: the tree is the one before *)
Lemma ins_rem_cancel : forall t names nm c m kids,
  lastN names = Some nm -> get t names = None ->
  get t (parent_of names) = Some (Dir m kids) ->
  remove_at (update t (parent_of names) (ins_fun nm c)) names = t.
Proof.
  intros t names nm c m kids Hl Hg Hp. unfold remove_at. rewrite Hl.
  change (fun p : node => match p with Dir m0 kids0 => Dir m0 (remove_kid nm kids0) | x => x end)
    with (rem_fun nm).
  rewrite update_update. eapply update_id; [exact Hp|].
  cbn [ins_fun rem_fun]. rewrite remove_insert_kid; [reflexivity|].
  eapply get_last_none; eassumption.
Qed.

(* what a successful creation did *)
Lemma create_storage_ok_inv : forall t now p t1 sv,
  spec_step t now (SCreateStorage p) = (t1, Ok sv) ->
  exists names nm m kids,
    name_chain_from_path p = Ok names /\ lastN names = Some nm /\ get t names = None /\
    get t (parent_of names) = Some (Dir m kids) /\
    t1 = update t (parent_of names) (ins_fun nm (new_dir now)).
Proof.
  intros t now p t1 sv H. cbn [spec_step] in H. unfold with_names in H.
  destruct (name_chain_from_path p) as [names| | |]; try discriminate H.
  unfold create_storage_at in H.
  destruct (get t names) eqn:Hg; [discriminate H|].
  destruct (lastN names) as [nm|] eqn:Hl; [|discriminate H].
  destruct (validate_name nm); try discriminate H.
  destruct (get t (parent_of names)) as [[st bs|m kids]|] eqn:Hp; try discriminate H.
  injection H as <- _. exists names, nm, m, kids. repeat split; assumption.
Qed.

Lemma create_stream_ok_inv : forall t now p t1 sv,
  spec_step t now (SCreateStream p false) = (t1, Ok sv) ->
  exists names nm m kids,
    name_chain_from_path p = Ok names /\ lastN names = Some nm /\ get t names = None /\
    get t (parent_of names) = Some (Dir m kids) /\
    t1 = update t (parent_of names) (ins_fun nm (Leaf 0 [])).
Proof.
  intros t now p t1 sv H. cbn [spec_step] in H. unfold with_names in H.
  destruct (name_chain_from_path p) as [names| | |]; try discriminate H.
  destruct (get t names) as [[st bs|m0 k0]|] eqn:Hg; try discriminate H.
  destruct (lastN names) as [nm|] eqn:Hl; [|discriminate H].
  destruct (validate_name nm); try discriminate H.
  destruct (get t (parent_of names)) as [[st bs|m kids]|] eqn:Hp; try discriminate H.
  injection H as <- _. exists names, nm, m, kids. repeat split; assumption.
Qed.

Lemma remove_storage_ok_inv : forall t now p t1 sv,
  spec_step t now (SRemoveStorage p) = (t1, Ok sv) ->
  exists names, name_chain_from_path p = Ok names /\ t1 = remove_at t names.
Proof.
  intros t now p t1 sv H. cbn [spec_step] in H. unfold with_names in H.
  destruct (name_chain_from_path p) as [names| | |]; try discriminate H.
  destruct (get t names) as [[st bs|m kids]|]; try discriminate H.
  destruct names as [|n0 nt]; [discriminate H|].
  destruct kids; [|discriminate H]. injection H as <- _. eauto.
Qed.

Lemma remove_stream_ok_inv : forall t now p t1 sv,
  spec_step t now (SRemoveStream p) = (t1, Ok sv) ->
  exists names, name_chain_from_path p = Ok names /\ t1 = remove_at t names.
Proof.
  intros t now p t1 sv H. cbn [spec_step] in H. unfold with_names in H.
  destruct (name_chain_from_path p) as [names| | |]; try discriminate H.
  destruct (get t names) as [[st bs|m kids]|]; try discriminate H.
  injection H as <- _. eauto.
Qed.

Theorem storage_create_remove_tree : forall t now now' p t1 t2 sv sv',
  spec_step t now (SCreateStorage p) = (t1, Ok sv) ->
  spec_step t1 now' (SRemoveStorage p) = (t2, Ok sv') -> t2 = t.
Proof.
  intros t now now' p t1 t2 sv sv' C R.
  destruct (create_storage_ok_inv _ _ _ _ _ C) as (names & nm & m & kids & En & Hl & Hg & Hp & ->).
  destruct (remove_storage_ok_inv _ _ _ _ _ R) as (names' & En' & ->).
  assert (names' = names) by congruence. subst names'.
  eapply ins_rem_cancel; eassumption.
Qed.

Theorem stream_create_remove_tree : forall t now now' p t1 t2 sv sv',
  spec_step t now (SCreateStream p false) = (t1, Ok sv) ->
  spec_step t1 now' (SRemoveStream p) = (t2, Ok sv') -> t2 = t.
Proof.
  intros t now now' p t1 t2 sv sv' C R.
  destruct (create_stream_ok_inv _ _ _ _ _ C) as (names & nm & m & kids & En & Hl & Hg & Hp & ->).
  destruct (remove_stream_ok_inv _ _ _ _ _ R) as (names' & En' & ->).
  assert (names' = names) by congruence. subst names'.
  eapply ins_rem_cancel; eassumption.
Qed.

(* ================================================================== *)
(* 6. observations: a sorted tree is what can be seen along its chains *)
(* ================================================================== *)

(* what one node shows apart from its children *)
Inductive payload := PLeaf (st : N) (bs : list byte) | PDir (m : meta).
Definition payload_of (n : node) : payload :=
  match n with Leaf st bs => PLeaf st bs | Dir m _ => PDir m end.

(* the stored spelling and the payload of the node at chain [c]; [k] is the
   spelling under which the node [t] itself is stored *)
Fixpoint obs (t : node) (k : name) (c : list name) : option (name * payload) :=
  match c with
  | [] => Some (k, payload_of t)
  | x :: r =>
    match t with
    | Leaf _ _ => None
    | Dir _ kids => match find_kid x kids with Some (k', n) => obs n k' r | None => None end
    end
  end.

Definition name_eqb (x y : name) : bool := match cmp_names x y with Eq => true | _ => false end.

Fixpoint chain_eqb (a b : list name) : bool :=
  match a, b with
  | [], [] => true
  | x :: a', y :: b' => name_eqb x y && chain_eqb a' b'
  | _, _ => false
  end.

Lemma name_eqb_refl : forall x, name_eqb x x = true.
Proof. intros. unfold name_eqb. rewrite NamesProofs.cmp_names_refl. reflexivity. Qed.

Lemma chain_eqb_refl : forall a, chain_eqb a a = true.
Proof. induction a as [|x a IH]; cbn [chain_eqb]; [reflexivity|]. rewrite name_eqb_refl, IH. reflexivity. Qed.

Lemma name_eqb_true : forall x y, name_eqb x y = true <-> cmp_names x y = Eq.
Proof. intros. unfold name_eqb. destruct (cmp_names x y); split; congruence. Qed.

Lemma obs_equiv : forall c c' t k, chain_eqb c c' = true -> obs t k c = obs t k c'.
Proof.
  induction c as [|x r IH]; intros [|y r'] t k H; cbn [chain_eqb] in H; try discriminate H; [reflexivity|].
  apply andb_true_iff in H. destruct H as [H1 H2]. apply name_eqb_true in H1.
  cbn [obs]. destruct t as [st bs|m kids]; [reflexivity|].
  rewrite (find_kid_equiv x y kids H1). destruct (find_kid y kids) as [[k' n]|]; [|reflexivity].
  apply IH. exact H2.
Qed.

Lemma obs_none_get : forall c t k, obs t k c = None <-> get t c = None.
Proof.
  induction c as [|x r IH]; intros t k; cbn [obs get]; [split; discriminate|].
  destruct t as [st bs|m kids]; [tauto|].
  destruct (find_kid x kids) as [[k' n]|]; [apply IH|tauto].
Qed.

(* ---- extensionality ---- *)
Lemma sorted_find_ext : forall l1 l2, sorted_kids l1 -> sorted_kids l2 ->
  (forall x, find_kid x l1 = find_kid x l2) -> l1 = l2.
Proof.
  induction l1 as [|[k1 x1] t1 IH]; intros [|[k2 x2] t2] H1 H2 H.
  - reflexivity.
  - specialize (H k2). cbn [find_kid] in H. rewrite NamesProofs.cmp_names_refl in H. discriminate H.
  - specialize (H k1). cbn [find_kid] in H. rewrite NamesProofs.cmp_names_refl in H. discriminate H.
  - destruct H1 as [Hlt1 Hs1]. destruct H2 as [Hlt2 Hs2].
    assert (Hin1 : In (k1, x1) ((k2, x2) :: t2)).
    { assert (E : find_kid k1 ((k1, x1) :: t1) = Some (k1, x1))
        by (cbn [find_kid]; rewrite NamesProofs.cmp_names_refl; reflexivity).
      rewrite H in E. apply find_kid_stored in E. apply E. }
    assert (Hin2 : In (k2, x2) ((k1, x1) :: t1)).
    { assert (E : find_kid k2 ((k2, x2) :: t2) = Some (k2, x2))
        by (cbn [find_kid]; rewrite NamesProofs.cmp_names_refl; reflexivity).
      rewrite <- H in E. apply find_kid_stored in E. apply E. }
    assert (Heq : (k1, x1) = (k2, x2)).
    { destruct Hin1 as [Heq|Hin1]; [symmetry; exact Heq|].
      destruct Hin2 as [Heq|Hin2]; [exact Heq|].
      exfalso. unfold lt_all in *. rewrite Forall_forall in Hlt1, Hlt2.
      apply (cmp_lt_irrefl k1 k2); [apply (Hlt1 _ Hin2)|apply (Hlt2 _ Hin1)]. }
    injection Heq as <- <-. f_equal. apply IH; try assumption.
    intros x. specialize (H x). cbn [find_kid] in H. destruct (cmp_names x k1) eqn:E; try exact H.
    rewrite (lt_all_find_none x t1), (lt_all_find_none x t2); [reflexivity| |].
    + eapply lt_all_trans; [right; exact E|exact Hlt2].
    + eapply lt_all_trans; [right; exact E|exact Hlt1].
Qed.

Theorem obs_ext : forall t, wf_node t -> forall t' k, wf_node t' ->
  (forall c, obs t k c = obs t' k c) -> t = t'.
Proof.
  induction t as [st bs|m kids IH] using node_ind'; intros Hwf t' k Hwf' H.
  - specialize (H []). cbn [obs payload_of] in H. destruct t'; cbn [payload_of] in H; congruence.
  - pose proof (H []) as H0. cbn [obs payload_of] in H0.
    destruct t' as [st' bs'|m' kids']; cbn [payload_of] in H0; [discriminate H0|].
    injection H0 as <-. f_equal.
    inversion Hwf as [|? ? Hs Hall]; subst. inversion Hwf' as [|? ? Hs' Hall']; subst.
    apply sorted_find_ext; try assumption. intros x.
    pose proof (fun r => H (x :: r)) as Hx. cbn [obs] in Hx.
    destruct (find_kid x kids) as [[k1 n1]|] eqn:E1; destruct (find_kid x kids') as [[k2 n2]|] eqn:E2.
    + pose proof (Hx []) as E. cbn [obs] in E. injection E as <- _.
      apply find_kid_stored in E1. destruct E1 as [In1 _].
      apply find_kid_stored in E2. destruct E2 as [In2 _].
      rewrite Forall_forall in IH, Hall, Hall'.
      assert (En : n1 = n2) by exact (IH (k1, n1) In1 (Hall _ In1) n2 k1 (Hall' _ In2) Hx).
      rewrite En. reflexivity.
    + specialize (Hx []). discriminate Hx.
    + specialize (Hx []). discriminate Hx.
    + reflexivity.
Qed.

(* ---- observations after an update of one storage's children ---- *)
Lemma obs_update_core : forall (G : node -> node) nm (V : option (name * payload)) m kids kids',
  G (Dir m kids) = Dir m kids' ->
  (forall k c, obs (Dir m kids') k c = if chain_eqb c [nm] then V else obs (Dir m kids) k c) ->
  forall a t k c, get t a = Some (Dir m kids) ->
  obs (update t a G) k c = if chain_eqb c (a ++ [nm]) then V else obs t k c.
Proof.
  intros G nm V m kids kids' HG Hbase.
  induction a as [|y a' IH]; intros t k c Hg; cbn [get update app] in *.
  - injection Hg as ->. rewrite HG. apply Hbase.
  - destruct t as [st bs|m1 kids1]; [discriminate Hg|].
    destruct (find_kid y kids1) as [[k1 n1]|] eqn:Ef; [|discriminate Hg].
    destruct c as [|x r]; [reflexivity|].
    cbn [obs chain_eqb]. rewrite find_replace_gen. unfold name_eqb.
    destruct (cmp_names x y) eqn:E; cbn [andb].
    + rewrite Ef, (find_kid_equiv x y kids1 E), Ef. apply IH. exact Hg.
    + reflexivity.
    + reflexivity.
Qed.

Definition childless (n : node) : Prop := forall k x r, obs n k (x :: r) = None.

Lemma childless_leaf : forall st bs, childless (Leaf st bs).
Proof. intros st bs k x r. reflexivity. Qed.

Lemma childless_empty_dir : forall m, childless (Dir m []).
Proof. intros m k x r. reflexivity. Qed.

Lemma obs_ins_base : forall nm c0 m kids,
  find_kid nm kids = None -> childless c0 ->
  forall k c, obs (Dir m (insert_kid nm c0 kids)) k c =
              if chain_eqb c [nm] then Some (nm, payload_of c0) else obs (Dir m kids) k c.
Proof.
  intros nm c0 m kids Hn Hc k c. destruct c as [|x r]; [reflexivity|].
  cbn [obs chain_eqb]. rewrite find_insert_gen by exact Hn. unfold name_eqb.
  destruct (cmp_names x nm) eqn:E; cbn [andb]; try reflexivity.
  destruct r as [|x' r']; [reflexivity|]. cbn [chain_eqb].
  rewrite (Hc nm x' r'), (find_kid_equiv x nm kids E), Hn. reflexivity.
Qed.

Lemma obs_rem_base : forall nm k0 n0 m kids,
  sorted_kids kids -> find_kid nm kids = Some (k0, n0) -> childless n0 ->
  forall k c, obs (Dir m (remove_kid nm kids)) k c =
              if chain_eqb c [nm] then None else obs (Dir m kids) k c.
Proof.
  intros nm k0 n0 m kids Hs Hf Hc k c. destruct c as [|x r]; [reflexivity|].
  cbn [obs chain_eqb]. rewrite find_remove by exact Hs. unfold name_eqb.
  destruct (cmp_names x nm) eqn:E; cbn [andb]; try reflexivity.
  destruct r as [|x' r']; [reflexivity|]. cbn [chain_eqb].
  rewrite (find_kid_equiv x nm kids E), Hf, (Hc k0 x' r'). reflexivity.
Qed.

(* ---- the four operations of the specification, seen through [obs] ---- *)
Definition path_chain (p : list N) : option (list name) :=
  match name_chain_from_path p with Ok names => Some names | _ => None end.

(* creation: the chain was absent, now it shows the new node; nothing else changes *)
Definition creates_at (names : list name) (t t1 : node) : Prop :=
  (forall k, obs t k names = None) /\
  exists v, forall k c, obs t1 k c = if chain_eqb c names then Some v else obs t k c.

(* removal: the chain was present, now it is absent; nothing else changes *)
Definition removes_at (names : list name) (t t1 : node) : Prop :=
  (forall k, obs t k names <> None) /\
  forall k c, obs t1 k c = if chain_eqb c names then None else obs t k c.

Lemma ins_creates_at : forall t names nm c0 m kids,
  lastN names = Some nm -> get t names = None ->
  get t (parent_of names) = Some (Dir m kids) -> childless c0 ->
  creates_at names t (update t (parent_of names) (ins_fun nm c0)).
Proof.
  intros t names nm c0 m kids Hl Hg Hp Hc. split.
  - intros k. apply obs_none_get. exact Hg.
  - exists (nm, payload_of c0). intros k c.
    rewrite (lastN_some _ _ _ Hl) at 2. unfold parent_of in *.
    apply (obs_update_core (ins_fun nm c0) nm _ m kids (insert_kid nm c0 kids) eq_refl); [|exact Hp].
    apply obs_ins_base; [|exact Hc]. eapply get_last_none; eassumption.
Qed.

Lemma create_storage_obs : forall t now p t1 sv,
  spec_step t now (SCreateStorage p) = (t1, Ok sv) ->
  exists names, path_chain p = Some names /\ creates_at names t t1.
Proof.
  intros t now p t1 sv H.
  destruct (create_storage_ok_inv _ _ _ _ _ H) as (names & nm & m & kids & En & Hl & Hg & Hp & ->).
  exists names. split; [unfold path_chain; rewrite En; reflexivity|].
  eapply ins_creates_at; try eassumption. apply childless_empty_dir.
Qed.

Lemma create_stream_obs : forall t now p t1 sv,
  spec_step t now (SCreateStream p false) = (t1, Ok sv) ->
  exists names, path_chain p = Some names /\ creates_at names t t1.
Proof.
  intros t now p t1 sv H.
  destruct (create_stream_ok_inv _ _ _ _ _ H) as (names & nm & m & kids & En & Hl & Hg & Hp & ->).
  exists names. split; [unfold path_chain; rewrite En; reflexivity|].
  eapply ins_creates_at; try eassumption. apply childless_leaf.
Qed.

Lemma rem_removes_at : forall t names n0,
  wf_node t -> names <> [] -> get t names = Some n0 -> childless n0 ->
  removes_at names t (remove_at t names).
Proof.
  intros t names n0 Hwf Hne Hg Hc.
  destruct (lastN names) as [nm|] eqn:Hl; [|apply lastN_none in Hl; contradiction].
  destruct (get_last_some _ _ _ _ Hg Hl) as (m & kids & k0 & Hp & Hf).
  split.
  - intros k E. apply obs_none_get in E. congruence.
  - intros k c. unfold remove_at. rewrite Hl.
    rewrite (lastN_some _ _ _ Hl) at 2. unfold parent_of in *.
    apply (obs_update_core (rem_fun nm) nm None m kids (remove_kid nm kids) eq_refl); [|exact Hp].
    pose proof (wf_get _ _ _ Hwf Hp) as Hw. inversion Hw as [|? ? Hs _]; subst.
    eapply obs_rem_base; eassumption.
Qed.

Lemma remove_storage_obs : forall t now p t1 sv,
  wf_node t ->
  spec_step t now (SRemoveStorage p) = (t1, Ok sv) ->
  exists names, path_chain p = Some names /\ removes_at names t t1.
Proof.
  intros t now p t1 sv Hwf H. cbn [spec_step] in H. unfold with_names in H.
  destruct (name_chain_from_path p) as [names| | |] eqn:En; try discriminate H.
  destruct (get t names) as [[st bs|m kids]|] eqn:Hg; try discriminate H.
  destruct names as [|n0 nt] eqn:Enames; [discriminate H|]. rewrite <- Enames in *.
  destruct kids; [|discriminate H]. injection H as <- _.
  exists names. split; [unfold path_chain; rewrite En; reflexivity|].
  eapply rem_removes_at; [exact Hwf|rewrite Enames; discriminate|exact Hg|apply childless_empty_dir].
Qed.

Lemma remove_stream_obs : forall t now p t1 sv,
  wf_node t -> is_leaf t = false ->
  spec_step t now (SRemoveStream p) = (t1, Ok sv) ->
  exists names, path_chain p = Some names /\ removes_at names t t1.
Proof.
  intros t now p t1 sv Hwf Hroot H. cbn [spec_step] in H. unfold with_names in H.
  destruct (name_chain_from_path p) as [names| | |] eqn:En; try discriminate H.
  destruct (get t names) as [[st bs|m kids]|] eqn:Hg; try discriminate H.
  injection H as <- _.
  exists names. split; [unfold path_chain; rewrite En; reflexivity|].
  eapply rem_removes_at; [exact Hwf| |exact Hg|apply childless_leaf].
  intros ->. cbn [get] in Hg. injection Hg as ->. discriminate Hroot.
Qed.

(* ================================================================== *)
(* 7. cycles on the abstract tree                                      *)
(* ================================================================== *)

Definition op_path (o : op) : option (list N) :=
  match o with
  | OCreateStorage p | ORemoveStorage p | ORemoveStream p | OCreateNewStream _ p => Some p
  | _ => None
  end.

Definition path_touches (c : list name) (p : option (list N)) : bool :=
  match p with
  | Some p => match path_chain p with Some names => chain_eqb c names | None => false end
  | None => false
  end.

(* the operation addresses the chain [c] (under any spelling) *)
Definition touches (c : list name) (o : op) : bool := path_touches c (op_path o).

(* creations minus removals at the chain [c] *)
Fixpoint net (c : list name) (l : list (N * op)) : Z :=
  match l with
  | [] => 0
  | x :: t => (if touches c (snd x) then delta (snd x) else 0) + net c t
  end%Z.

(* the first operation of the list that addresses [c], if any, is a creation *)
Fixpoint first_touch_creates (c : list name) (l : list (N * op)) : Prop :=
  match l with
  | [] => True
  | x :: t => if touches c (snd x) then delta (snd x) = 1%Z else first_touch_creates c t
  end.

(* every entry the cycle removes was created by the cycle, and every entry it
   creates is removed again: chain by chain *)
Definition matched (cyc : list (N * op)) : Prop :=
  forall c, net c cyc = 0%Z /\ first_touch_creates c cyc.

Definition is_ns (o : op) : Prop :=
  match o with
  | OCreateStorage _ | OCreateNewStream _ _ | ORemoveStorage _ | ORemoveStream _ => True
  | _ => False
  end.

Lemma ns_op_is_ns : forall o, ns_op o -> is_ns o.
Proof. intros o H. destruct o; cbn [ns_op is_ns] in *; try contradiction; exact I. Qed.

(* the specification run along the list, defined when every call is accepted *)
Fixpoint srun (t : node) (l : list (N * op)) : option node :=
  match l with
  | [] => Some t
  | (now, o) :: r =>
    match HistoryRefine.spec_of o with
    | Some so => match spec_step t now so with (t1, Ok _) => srun t1 r | _ => None end
    | None => None
    end
  end.

Definition RK : name := ROOT_DIR_NAME.

Definition pres (c : list name) (t : node) : Z :=
  match obs t RK c with Some _ => 1 | None => 0 end%Z.

(* one accepted step, seen at the chain [c] *)
Lemma sstep_obs : forall o so t now t1 sv c,
  is_ns o -> wf_node t -> is_leaf t = false ->
  HistoryRefine.spec_of o = Some so -> spec_step t now so = (t1, Ok sv) ->
  pres c t1 = (pres c t + (if touches c o then delta o else 0))%Z /\
  (touches c o = false -> obs t1 RK c = obs t RK c) /\
  (touches c o = true -> delta o = 1%Z -> obs t RK c = None).
Proof.
  intros o so t now t1 sv c Hns Hwf Hroot Hso H.
  assert (Cre : forall p, op_path o = Some p -> delta o = 1%Z ->
            (exists names, path_chain p = Some names /\ creates_at names t t1) ->
            pres c t1 = (pres c t + (if touches c o then delta o else 0))%Z /\
            (touches c o = false -> obs t1 RK c = obs t RK c) /\
            (touches c o = true -> delta o = 1%Z -> obs t RK c = None)).
  { intros p Hp Hd (names & En & Hab & v & Hv). unfold touches, pres. rewrite Hp. cbn [path_touches].
    rewrite En, Hd, (Hv RK c).
    destruct (chain_eqb c names) eqn:E.
    - rewrite (obs_equiv _ _ _ _ E), Hab. split; [reflexivity|]. split; [discriminate|]. reflexivity.
    - split; [destruct (obs t RK c); lia|]. split; [reflexivity|discriminate]. }
  assert (Rem : forall p, op_path o = Some p -> delta o = (-1)%Z ->
            (exists names, path_chain p = Some names /\ removes_at names t t1) ->
            pres c t1 = (pres c t + (if touches c o then delta o else 0))%Z /\
            (touches c o = false -> obs t1 RK c = obs t RK c) /\
            (touches c o = true -> delta o = 1%Z -> obs t RK c = None)).
  { intros p Hp Hd (names & En & Hpr & Hv). unfold touches, pres. rewrite Hp. cbn [path_touches].
    rewrite En, Hd, (Hv RK c).
    destruct (chain_eqb c names) eqn:E.
    - rewrite (obs_equiv _ _ _ _ E). specialize (Hpr RK).
      destruct (obs t RK names); [|contradiction]. split; [reflexivity|]. split; discriminate.
    - split; [destruct (obs t RK c); lia|]. split; [reflexivity|discriminate]. }
  destruct o; cbn [is_ns] in Hns; try contradiction;
    cbn [HistoryRefine.spec_of MutRefine.ns_spec] in Hso; injection Hso as <-.
  - apply (Cre p eq_refl eq_refl). eapply create_storage_obs. exact H.
  - apply (Rem p eq_refl eq_refl). eapply remove_storage_obs; eassumption.
  - apply (Cre p eq_refl eq_refl). eapply create_stream_obs. exact H.
  - apply (Rem p eq_refl eq_refl). eapply remove_stream_obs; eassumption.
Qed.

Lemma srun_cons_inv : forall t now o r t',
  srun t ((now, o) :: r) = Some t' ->
  exists so t1 sv, HistoryRefine.spec_of o = Some so /\ spec_step t now so = (t1, Ok sv) /\
                   srun t1 r = Some t'.
Proof.
  intros t now o r t' H. cbn [srun] in H.
  destruct (HistoryRefine.spec_of o) as [so|]; [|discriminate H].
  destruct (spec_step t now so) as [t1 [sv| | |]] eqn:E; try discriminate H.
  exists so, t1, sv. auto.
Qed.

Lemma srun_good : forall l t t', wf_node t -> is_leaf t = false -> srun t l = Some t' ->
  wf_node t' /\ is_leaf t' = false.
Proof.
  induction l as [|[now o] r IH]; intros t t' Hwf Hroot H.
  - injection H as <-. auto.
  - destruct (srun_cons_inv _ _ _ _ _ H) as (so & t1 & sv & Hso & Hst & Hr).
    pose proof (wf_spec_step t now so Hwf) as W. pose proof (root_dir_spec_step t now so Hroot) as R.
    rewrite Hst in W, R. cbn [fst] in W, R. exact (IH _ _ W R Hr).
Qed.

Lemma srun_pres : forall c l t t',
  Forall (fun x => is_ns (snd x)) l -> wf_node t -> is_leaf t = false -> srun t l = Some t' ->
  pres c t' = (pres c t + net c l)%Z /\
  (first_touch_creates c l -> obs t' RK c = obs t RK c \/ obs t RK c = None).
Proof.
  intros c. induction l as [|[now o] r IH]; intros t t' Hall Hwf Hroot H.
  - injection H as <-. cbn [net first_touch_creates]. split; [lia|]. intros _. left. reflexivity.
  - inversion Hall as [|? ? Hns Hall']; subst. cbn [snd] in Hns.
    destruct (srun_cons_inv _ _ _ _ _ H) as (so & t1 & sv & Hso & Hst & Hr).
    pose proof (wf_spec_step t now so Hwf) as W. pose proof (root_dir_spec_step t now so Hroot) as R.
    rewrite Hst in W, R. cbn [fst] in W, R.
    destruct (sstep_obs o so t now t1 sv c Hns Hwf Hroot Hso Hst) as (P1 & P2 & P3).
    destruct (IH t1 t' Hall' W R Hr) as [Q1 Q2].
    cbn [net first_touch_creates snd]. split; [lia|].
    destruct (touches c o) eqn:T.
    + intros Hd. right. apply P3; [reflexivity|exact Hd].
    + intros Hf. rewrite <- (P2 eq_refl). exact (Q2 Hf).
Qed.

(* a matched cycle accepted by the specification gives back the tree it started from *)
Theorem matched_cycle_tree : forall cyc t t',
  Forall (fun x => is_ns (snd x)) cyc -> matched cyc ->
  wf_node t -> is_leaf t = false -> srun t cyc = Some t' -> t' = t.
Proof.
  intros cyc t t' Hall Hm Hwf Hroot H.
  destruct (srun_good _ _ _ Hwf Hroot H) as [Hwf' _].
  apply (obs_ext t' Hwf' t RK Hwf). intros c.
  destruct (Hm c) as [Hn Hf].
  destruct (srun_pres c cyc t t' Hall Hwf Hroot H) as [P Q]. rewrite Hn in P.
  destruct (Q Hf) as [E|E]; [exact E|].
  unfold pres in P. rewrite E in *. destruct (obs t' RK c); [lia|reflexivity].
Qed.

(* ================================================================== *)
(* 8. the model's run follows the specification's                      *)
(* ================================================================== *)

Lemma ns_spec_of : forall o, is_ns o -> exists so, HistoryRefine.spec_of o = Some so.
Proof. intros o H. destruct o; cbn [is_ns] in H; try contradiction; eexists; reflexivity. Qed.

Lemma ns_no_truncate : forall t o, is_ns o -> HistoryRefine.no_truncate t o.
Proof. intros t o H. destruct o; cbn [is_ns] in H; try contradiction; exact I. Qed.

Lemma run_rep : forall l f k t,
  Forall item_ok l -> k + N.of_nat (length l) <= 6000 ->
  HInv k (cs f) -> all_ok f l = true -> HistoryRefine.TableRep f t ->
  exists t', srun t l = Some t' /\ HistoryRefine.TableRep (fst (run_ops f l)) t'.
Proof.
  induction l as [|[now o] r IH]; intros f k t Hall Hlen HI Hok HT.
  - exists t. split; [reflexivity|exact HT].
  - inversion Hall as [|? ? [Hc Hnow] Hall']; subst. cbn [fst snd] in Hc, Hnow.
    destruct (all_ok_cons _ _ _ _ Hok) as [Hok1 Hok2]. cbn [length] in Hlen.
    pose proof (step_covered f now o k (ns_op_covered _ Hc) Hnow ltac:(lia) HI (or_introl Hok1)) as HI1.
    pose proof (ns_op_is_ns _ Hc) as Hns.
    destruct (ns_spec_of o Hns) as (so & Hso).
    assert (HS : HistoryRefine.Sim f t).
    { split; [exact HT|]. destruct HI as (_ & _ & (_ & Hd)). unfold NO_STREAM. lia. }
    destruct (step f now o) as [f1 r1] eqn:Est. cbn [fst snd] in *.
    destruct r1 as [v| | |]; try discriminate Hok1.
    destruct (HistoryRefine.step_forward f f1 t now o so v HS Hso (ns_no_truncate t o Hns) Est)
      as (t1 & sv & Hst & _ & HT1 & _).
    destruct (IH f1 (k + 1) t1 Hall' ltac:(lia) HI1 Hok2 HT1) as (t' & Hr & HT').
    exists t'. split.
    + cbn [srun]. rewrite Hso, Hst. exact Hr.
    + rewrite run_ops_cons, Est. exact HT'.
Qed.

Lemma TableRep_good : forall f t, HistoryRefine.TableRep f t -> wf_node t /\ is_leaf t = false.
Proof.
  intros f t (c & HT & _). split; [eapply QueryRefine.kids_sorted_of_rep; exact HT|].
  destruct (QueryRefine.NodeRep_root_dir _ _ _ _ _ HT) as (m & ks & ->). reflexivity.
Qed.

Lemma run_hinv : forall l f k,
  Forall item_ok l -> k + N.of_nat (length l) <= 6000 ->
  HInv k (cs f) -> all_ok f l = true -> HInv (k + N.of_nat (length l)) (cs (fst (run_ops f l))).
Proof. intros l f k Hall Hlen HI Hok. exact (proj2 (proj2 (run_any l f k Hall Hlen HI Hok))). Qed.

(* C15 for matched namespace cycles: every repetition returns the abstract
   tree, and from the second repetition on the sizes do not move *)
Theorem matched_cycle_stable : forall cyc f k t,
  balanced cyc -> matched cyc ->
  HInv k (cs f) -> k + 3 * N.of_nat (length cyc) <= 6000 -> HistoryRefine.TableRep f t ->
  let f1 := fst (run_ops f cyc) in
  let f2 := fst (run_ops f1 cyc) in
  let f3 := fst (run_ops f2 cyc) in
  AllOk f cyc -> AllOk f1 cyc -> AllOk f2 cyc ->
  (HistoryRefine.TableRep f1 t /\ HistoryRefine.TableRep f2 t /\ HistoryRefine.TableRep f3 t) /\
  nsect (cs f2) = nsect (cs f1) /\ lenN (img (cs f2)) = lenN (img (cs f1)) /\
  nsect (cs f3) = nsect (cs f2) /\ lenN (img (cs f3)) = lenN (img (cs f2)).
Proof.
  intros cyc f k t Hb Hm HI Hlen HT f1 f2 f3 O1 O2 O3.
  destruct (balanced_cycle_stable cyc f k Hb HI Hlen O1 O2 O3) as [(A1 & A2 & _) (B1 & B2 & _)].
  fold f1 f2 f3 in A1, A2, B1, B2.
  destruct Hb as [Hall Hbal].
  assert (Hns : Forall (fun x => is_ns (snd x)) cyc).
  { eapply Forall_impl; [|exact Hall]. intros x [Hx _]. apply ns_op_is_ns. exact Hx. }
  assert (Rep : forall g j, HInv j (cs g) -> j + N.of_nat (length cyc) <= 6000 -> AllOk g cyc ->
            HistoryRefine.TableRep g t -> HistoryRefine.TableRep (fst (run_ops g cyc)) t).
  { intros g j HJ Hj Og Hg.
    destruct (run_rep cyc g j t Hall Hj HJ Og Hg) as (t' & Hr & Hg').
    destruct (TableRep_good _ _ Hg) as [Hwf Hroot].
    rewrite (matched_cycle_tree cyc t t' Hns Hm Hwf Hroot Hr) in Hg'. exact Hg'. }
  pose proof (run_hinv cyc f k Hall ltac:(lia) HI O1) as HI1. fold f1 in HI1.
  set (n := N.of_nat (length cyc)) in *.
  pose proof (run_hinv cyc f1 (k + n) Hall ltac:(lia) HI1 O2) as HI2. fold f2 in HI2.
  pose proof (Rep f k HI ltac:(lia) O1 HT) as T1. fold f1 in T1.
  pose proof (Rep f1 (k + n) HI1 ltac:(lia) O2 T1) as T2. fold f2 in T2.
  pose proof (Rep f2 (k + n + n) HI2 ltac:(lia) O3 T2) as T3. fold f3 in T3.
  split; [split; [exact T1|split; [exact T2|exact T3]]|]. repeat split; assumption.
Qed.

(* ================================================================== *)
(* 9. entries created, then all removed                                *)
(* ================================================================== *)

Definition opath (x : N * op) : option (list N) := op_path (snd x).

(* a list of creations (storages and empty streams) followed by the removals
   of the same paths in any order.  The order constraints (a nested entry after
   its parent, children removed before their parents) and the kinds of the
   removals are what makes every call succeed; they are not part of the
   predicate because the theorems assume the calls succeed. *)
Definition net_zero_cycle (cyc : list (N * op)) : Prop :=
  Forall item_ok cyc /\
  exists cr rm, cyc = cr ++ rm /\
    Forall (fun x => delta (snd x) = 1%Z) cr /\
    Forall (fun x => delta (snd x) = (-1)%Z) rm /\
    Permutation (map opath cr) (map opath rm).

Fixpoint pcount (c : list name) (ps : list (option (list N))) : Z :=
  match ps with [] => 0 | p :: t => (if path_touches c p then 1 else 0) + pcount c t end%Z.

Lemma pcount_nonneg : forall c ps, (0 <= pcount c ps)%Z.
Proof. induction ps as [|p t IH]; cbn [pcount]; [lia|]. destruct (path_touches c p); lia. Qed.

Lemma pcount_perm : forall c a b, Permutation a b -> pcount c a = pcount c b.
Proof. intros c a b H. induction H; cbn [pcount]; lia. Qed.

Lemma net_app : forall c a b, net c (a ++ b) = (net c a + net c b)%Z.
Proof. induction a as [|x a IH]; intros b; cbn [app net]; [lia|]. rewrite IH. lia. Qed.

Lemma bal_app : forall a b, bal (a ++ b) = (bal a + bal b)%Z.
Proof. induction a as [|x a IH]; intros b; cbn [app bal]; [lia|]. rewrite IH. lia. Qed.

Lemma net_uniform : forall c d l, Forall (fun x => delta (snd x) = d) l ->
  net c l = (d * pcount c (map opath l))%Z.
Proof.
  intros c d. induction l as [|x l IH]; intro H; cbn [net map pcount]; [lia|].
  pose proof (Forall_inv H) as Hx. pose proof (Forall_inv_tail H) as Hl. cbv beta in Hx.
  rewrite (IH Hl), Hx. unfold touches. change (op_path (snd x)) with (opath x).
  destruct (path_touches c (opath x)); cbv iota; ring.
Qed.

Lemma bal_uniform : forall d l, Forall (fun x => delta (snd x) = d) l ->
  bal l = (d * Z.of_nat (length l))%Z.
Proof.
  intros d. induction l as [|x l IH]; intro H; cbn [bal length]; [lia|].
  pose proof (Forall_inv H) as Hx. pose proof (Forall_inv_tail H) as Hl. cbv beta in Hx.
  rewrite (IH Hl), Hx. lia.
Qed.

Lemma ftc_untouched : forall c l, pcount c (map opath l) = 0%Z -> first_touch_creates c l.
Proof.
  induction l as [|x l IH]; intro H; cbn [first_touch_creates map pcount] in *; [exact I|].
  pose proof (pcount_nonneg c (map opath l)). unfold touches. change (op_path (snd x)) with (opath x).
  destruct (path_touches c (opath x)); [lia|]. apply IH. lia.
Qed.

Lemma ftc_app_creates : forall c l1 l2, Forall (fun x => delta (snd x) = 1%Z) l1 ->
  (0 < pcount c (map opath l1))%Z \/ first_touch_creates c l2 ->
  first_touch_creates c (l1 ++ l2).
Proof.
  induction l1 as [|x l1 IH]; intros l2 H Hor; cbn [app first_touch_creates map pcount] in *.
  - destruct Hor as [Hc|Hf]; [lia|exact Hf].
  - inversion H as [|? ? Hx Hl]; subst. unfold touches. change (op_path (snd x)) with (opath x).
    destruct (path_touches c (opath x)); [exact Hx|].
    apply IH; [exact Hl|]. destruct Hor as [Hc|Hf]; [left; lia|right; exact Hf].
Qed.

Theorem net_zero_balanced : forall cyc, net_zero_cycle cyc -> balanced cyc.
Proof.
  intros cyc (Hall & cr & rm & -> & Hc & Hr & HP). split; [exact Hall|].
  rewrite bal_app, (bal_uniform _ _ Hc), (bal_uniform _ _ Hr).
  pose proof (Permutation_length HP) as L. rewrite !map_length in L. lia.
Qed.

Theorem net_zero_matched : forall cyc, net_zero_cycle cyc -> matched cyc.
Proof.
  intros cyc (Hall & cr & rm & -> & Hc & Hr & HP) c.
  pose proof (pcount_perm c _ _ HP) as E. split.
  - rewrite net_app, (net_uniform c _ _ Hc), (net_uniform c _ _ Hr). lia.
  - apply ftc_app_creates; [exact Hc|].
    pose proof (pcount_nonneg c (map opath cr)) as P.
    destruct (Z.eq_dec (pcount c (map opath cr)) 0) as [Z|Z]; [right|left; lia].
    apply ftc_untouched. lia.
Qed.

(* the form asked for *)
Theorem netzero_cycle_stable : forall cyc f k t,
  net_zero_cycle cyc ->
  HInv k (cs f) -> k + 3 * N.of_nat (length cyc) <= 6000 -> HistoryRefine.TableRep f t ->
  let f1 := fst (run_ops f cyc) in
  let f2 := fst (run_ops f1 cyc) in
  let f3 := fst (run_ops f2 cyc) in
  AllOk f cyc -> AllOk f1 cyc -> AllOk f2 cyc ->
  (HistoryRefine.TableRep f1 t /\ HistoryRefine.TableRep f2 t /\ HistoryRefine.TableRep f3 t) /\
  nsect (cs f2) = nsect (cs f1) /\ lenN (img (cs f2)) = lenN (img (cs f1)) /\
  nsect (cs f3) = nsect (cs f2) /\ lenN (img (cs f3)) = lenN (img (cs f2)).
Proof.
  intros cyc f k t H. apply matched_cycle_stable; [apply net_zero_balanced|apply net_zero_matched]; exact H.
Qed.

(* ================================================================== *)
(* 10. non-vacuity                                                     *)
(* ================================================================== *)

Module Example.
  Definition p_x : list N := [47; 120].                    (* "/x"   *)
  Definition p_y : list N := [47; 121].                    (* "/y"   *)
  Definition p_a : list N := [47; 97].                     (* "/a"   *)
  Definition p_ab : list N := [47; 97; 47; 98].            (* "/a/b" *)
  Definition p_s : list N := [47; 115].                    (* "/s"   *)
  Definition t0 : N := 132000000000000000.

  (* two storages that stay; then the cycle: a storage, a storage inside it and
     an empty stream are created, and removed in an order that is not the
     reverse of their creation *)
  Definition pre : list (N * op) := [(t0, OCreateStorage p_x); (t0, OCreateStorage p_y)].
  Definition creates : list (N * op) :=
    [(t0, OCreateStorage p_a); (t0, OCreateStorage p_ab); (t0, OCreateNewStream 0 p_s)].
  Definition removes : list (N * op) :=
    [(t0, ORemoveStorage p_ab); (t0, ORemoveStream p_s); (t0, ORemoveStorage p_a)].
  Definition cyc : list (N * op) := creates ++ removes.

  Definition f0 : fstate := fst (run_ops (init_fstate V3 1024 4) pre).
  (* notations, so that the statements below are literally instances of the theorem *)
  Notation f1 := (fst (run_ops f0 cyc)).
  Notation f2 := (fst (run_ops f1 cyc)).
  Notation f3 := (fst (run_ops f2 cyc)).

  Ltac scal := repeat (constructor; [left; reflexivity|]); constructor.
  Ltac items :=
    repeat (constructor; [split; [cbn [snd ns_op]|cbn [fst]; unfold t0, u64_max; lia]|]);
    try exact I; try scal.

  Lemma pre_ok : Forall item_ok pre.
  Proof. unfold pre. items. Qed.

  Lemma cyc_ok : Forall item_ok cyc.
  Proof. unfold cyc, creates, removes. cbn [app]. items. Qed.

  Lemma cyc_net_zero : net_zero_cycle cyc.
  Proof.
    split; [exact cyc_ok|]. exists creates, removes. split; [reflexivity|].
    split; [repeat constructor|]. split; [repeat constructor|].
    cbn [map creates removes opath op_path snd].
    apply (Permutation_cons_app [Some p_ab; Some p_s] [] (Some p_a)). apply Permutation_refl.
  Qed.

  (* file sizes in sectors (header included): the first repetition adds a
     directory sector, the second and third add nothing *)
  Example sizes :
    lenN (img (cs f0)) = 3 /\ lenN (img (cs f1)) = 4 /\
    lenN (img (cs f2)) = 4 /\ lenN (img (cs f3)) = 4 /\
    nsect (cs f0) = 2 /\ nsect (cs f1) = 3 /\ nsect (cs f2) = 3 /\ nsect (cs f3) = 3.
  Proof. vm_compute. repeat split; reflexivity. Qed.

  Example slots :
    map d_type (dirs (cs f0)) = [TRoot; TStorage; TStorage] /\
    map d_type (dirs (cs f1)) = [TRoot; TStorage; TStorage; TUnalloc; TUnalloc; TUnalloc].
  Proof. vm_compute. split; reflexivity. Qed.

  Lemma all_ok_pre : all_ok (init_fstate V3 1024 4) pre = true.
  Proof. vm_compute. reflexivity. Qed.
  Lemma all_ok_1 : AllOk f0 cyc. Proof. vm_compute. reflexivity. Qed.
  Lemma all_ok_2 : AllOk f1 cyc. Proof. vm_compute. reflexivity. Qed.
  Lemma all_ok_3 : AllOk f2 cyc. Proof. vm_compute. reflexivity. Qed.

  Lemma f0_hinv : HInv 2 (cs f0).
  Proof.
    exact (run_hinv pre (init_fstate V3 1024 4) 0 pre_ok ltac:(cbn; lia)
             (create_state_hinv V3) all_ok_pre).
  Qed.

  Lemma f0_rep : exists t, HistoryRefine.TableRep f0 t.
  Proof.
    destruct (run_rep pre (init_fstate V3 1024 4) 0 empty_tree pre_ok ltac:(cbn; lia)
                (create_state_hinv V3) all_ok_pre (proj1 (HistoryRefine.fresh_sim V3 1024 4)))
      as (t & _ & HT).
    exists t. exact HT.
  Qed.

  (* the theorem on this cycle: the tree represented before the cycle is the
     tree represented after each repetition, and the sizes are stable *)
  Theorem cycle_instance : exists t,
    HistoryRefine.TableRep f0 t /\
    (HistoryRefine.TableRep f1 t /\ HistoryRefine.TableRep f2 t /\ HistoryRefine.TableRep f3 t) /\
    nsect (cs f2) = nsect (cs f1) /\ lenN (img (cs f2)) = lenN (img (cs f1)) /\
    nsect (cs f3) = nsect (cs f2) /\ lenN (img (cs f3)) = lenN (img (cs f2)).
  Proof.
    destruct f0_rep as (t & HT). exists t. split; [exact HT|].
    exact (netzero_cycle_stable cyc f0 2 t cyc_net_zero f0_hinv ltac:(cbn; lia) HT
             all_ok_1 all_ok_2 all_ok_3).
  Qed.
End Example.

(* ================================================================== *)
(* 11. from a freshly created file                                     *)
(* ================================================================== *)

(* after any accepted history of namespace operations on a new file, a
   net-zero cycle returns the tree each time and stops growing the file after
   its first repetition *)
Corollary netzero_after_history : forall v mb nh pre cyc,
  Forall item_ok pre -> net_zero_cycle cyc ->
  N.of_nat (length pre) + 3 * N.of_nat (length cyc) <= 6000 ->
  AllOk (init_fstate v mb nh) pre ->
  let f := fst (run_ops (init_fstate v mb nh) pre) in
  let f1 := fst (run_ops f cyc) in
  let f2 := fst (run_ops f1 cyc) in
  let f3 := fst (run_ops f2 cyc) in
  AllOk f cyc -> AllOk f1 cyc -> AllOk f2 cyc ->
  exists t, HistoryRefine.TableRep f t /\
    (HistoryRefine.TableRep f1 t /\ HistoryRefine.TableRep f2 t /\ HistoryRefine.TableRep f3 t) /\
    nsect (cs f2) = nsect (cs f1) /\ lenN (img (cs f2)) = lenN (img (cs f1)) /\
    nsect (cs f3) = nsect (cs f2) /\ lenN (img (cs f3)) = lenN (img (cs f2)).
Proof.
  intros v mb nh pre cyc Hpre Hcyc Hlen Opre f f1 f2 f3 O1 O2 O3.
  pose proof (run_hinv pre (init_fstate v mb nh) 0 Hpre ltac:(lia) (create_state_hinv v) Opre) as HI.
  destruct (run_rep pre (init_fstate v mb nh) 0 empty_tree Hpre ltac:(lia)
              (create_state_hinv v) Opre (proj1 (HistoryRefine.fresh_sim v mb nh))) as (t & _ & HT).
  fold f in HI, HT. exists t. split; [exact HT|].
  exact (netzero_cycle_stable cyc f (0 + N.of_nat (length pre)) t Hcyc HI ltac:(lia) HT O1 O2 O3).
Qed.

(* ------------------------------------------------------------------ *)
Check insert_slots.
Check remove_slots.
Check create_storage_effect.
Check create_new_stream_effect.
Check remove_storage_effect.
Check remove_stream_effect.
Check storage_cycle_stable.
Check stream_cycle_stable.
Check balanced_cycle_stable.
Check obs_ext.
Check storage_create_remove_tree.
Check stream_create_remove_tree.
Check matched_cycle_tree.
Check matched_cycle_stable.
Check net_zero_balanced.
Check net_zero_matched.
Check netzero_cycle_stable.
Check netzero_after_history.
Check Example.sizes.
Check Example.cycle_instance.
Print Assumptions storage_cycle_stable.
Print Assumptions stream_cycle_stable.
Print Assumptions balanced_cycle_stable.
Print Assumptions matched_cycle_tree.
Print Assumptions matched_cycle_stable.
Print Assumptions netzero_cycle_stable.
Print Assumptions netzero_after_history.
Print Assumptions Example.sizes.
Print Assumptions Example.cycle_instance.
