(* MutTotal.v — property C11 for MUTATING operations.

   After a successful (strict or permissive) open — or create — every sequence of API
   calls (create / remove storages and streams, metadata setters, stream handle
   read / write / seek / set_len / flush / drop, read_to_end through a fresh handle (OCat),
   reopen, and all queries) returns Ok or Err, EXCEPT at ONE panic site (Ksites = 303).  The
   only side conditions (RunOk) are the caller's contract of BufRead::consume and the u32
   bound on the tables.  The exception is shown reachable by a concrete scenario that is
   evaluated at the end of the file (Module Scenarios: S303).

   History.  The first version of this file listed four sites (303, 403, 503, 705), needed
   "set_len below 2^64 - 4096" and "a removal that fails leaves a forest" as side conditions,
   excluded OCat, and exhibited a lookup that never terminates after two failed removals.
   Those findings were replayed on the crate and repaired there; the model mirrors the repairs:
     - 403 (dir_sector_go) and 503 (set_minifat) are InvalidData errors;
     - resize_stream refuses a length above MAX_REGULAR_SECTOR * sector_len before anything
       changes, so sector_len + new_len - 1 never overflows (old site 305): no condition on
       set_len any more;
     - remove_dir_entry puts the in-memory table back when it does not succeed: the forest
       (DirTree) holds in EVERY outcome of the remove_* calls, no "clean removal" condition;
     - flush_changes only adopts a LARGER length (first route to 705: a flush that shrank
       total_len below the position, S705);
     - a refill asks read_data_from_stream for at most total_len - position bytes (second
       route to 705, found by the second version of this file: a clean handle with a stale
       total_len read past it after another handle had grown the stream, S705b).
   With the last two, off + cap <= total_len (CapOk) is an invariant of every handle
   operation over ANY store (section 12b); it is part of the handle invariant HOk, and
   debug_assert!(old_pos <= total_len) of seek(Current) (site 705) is unreachable.
   Drop returns what the final flush raised when that is a panic (drop_result): covered.

   Judgement:  tot P m Q J  =  from every state satisfying P,
     - J holds of the resulting state in EVERY outcome (Ok, Err, Panic, OutOfFuel),
     - Q a holds of the resulting state when the outcome is Ok a,
     - the outcome is Ok, Err or Panic at a site of Ksites, provided the FAT and MiniFAT
       of the state in which the call ends have at most 2^32-5 entries (Bound: the
       model has no u32 wrap-around; Rust's `as u32` would wrap).

   Invariant:  MInv = Core DirTree  (section 3):  WalkSafe.AllSafe, the root entry
   (type, length multiple of 64), name length / no child below a stream for every entry,
   the directory forest (ReadonlyTotal.DirTree), MiniFAT free list in range,
   minifat_start = END_OF_CHAIN -> empty MiniFAT, dir_start <> END_OF_CHAIN.
   Handle invariant (section 14):  HOk n h = HBuf n h /\ CapOk h, where
   HBuf n h = h_id h < n /\ pos <= cap <= |data| (section 12; n <= length of the directory
   table — nothing about the entry the handle points to) and
   CapOk h = pos <= cap /\ off + cap <= total_len (section 12b).

   Sections: 0 judgement, 1 frames, 2 FAT layer, 3 invariant, 4 directory write-through,
   5 MiniFAT layer, 6 Store layer (read_data / write_data / resize for ANY id),
   7 count_directory_sectors, 8 slots, 9 forest + grafting, 10 insert_dir_entry,
   11 remove_dir_entry (inner: fine in every outcome, forest re-established when Ok;
   wrapper: table restored otherwise), 12 handles, 12b CapOk (site 705 unreachable),
   13 API, 13b read_to_end (api_cat: the fuel suffices because what was read lies in
   pairwise different places of the image), 15 open, 14 step, 16 runs
   (mutating_total_partial, mutating_total), 17 scenarios. *)
From Coq Require Import List NArith ZArith Bool Lia ZifyN ZifyBool Arith.
From Cfb.model Require Import Base Names Time DirEnt State Alloc Dir Mini Store Handle Open Cfb.
From Cfb.gen Require Import Consts.
From Cfb.proofs Require Import WalkProofs OpenTotal WalkSafe ReadonlyTotal.
Import ListNotations.
Open Scope N_scope.

(* ================================================================== *)
(* 0. the judgement                                                    *)
(* ================================================================== *)

(* the panic site that IS reachable after a successful open (see the scenario S303) *)
Definition Ksites : list N := [303].

Definition fineK {A} (r : res A) : Prop :=
  match r with
  | Ok _ | Err _ => True
  | Panic n => In n Ksites
  | OutOfFuel => False
  end.

Lemma fine_fineK {A} (r : res A) : fine r -> fineK r.
Proof. destruct r; cbn; auto; intros []. Qed.

Definition Bound (s : cstate) : Prop :=
  lenN (fat s) <= MAX_REGULAR_SECTOR + 1 /\ lenN (minifat s) <= MAX_REGULAR_SECTOR + 1.

Definition tot {A} (P : cstate -> Prop) (m : M A) (Q : A -> cstate -> Prop)
  (J : cstate -> Prop) : Prop :=
  forall s, P s ->
    J (fst (m s)) /\
    (forall a, snd (m s) = Ok a -> Q a (fst (m s))) /\
    (Bound (fst (m s)) -> fineK (snd (m s))).

Implicit Types P J : cstate -> Prop.

Lemma tot_spec {A} P (m : M A) (Q : A -> cstate -> Prop) J : tot P m Q J -> spec P m Q J.
Proof. intros H s Hs. destruct (H s Hs) as (H1 & H2 & _). split; assumption. Qed.

Lemma tot_intro {A} P (m : M A) (Q : A -> cstate -> Prop) J :
  spec P m Q J -> (forall s, P s -> Bound (fst (m s)) -> fineK (snd (m s))) -> tot P m Q J.
Proof. intros H1 H2 s Hs. destruct (H1 s Hs). repeat split; auto. Qed.

Lemma tot_bind {A B} P (m : M A) (Q : A -> cstate -> Prop) (f : A -> M B) (R : B -> cstate -> Prop) J :
  tot P m Q J -> (forall a, tot (Q a) (f a) R J) -> tot P (bind m f) R J.
Proof.
  intros Hm Hf s Hs. unfold bind. specialize (Hm s Hs). destruct (m s) as [s1 r].
  cbn [fst snd] in Hm. destruct Hm as (HI & HQ & HF).
  destruct r as [a|k|n|]; cbv beta iota; cbn [fst snd].
  - apply Hf. apply HQ. reflexivity.
  - split; [assumption|]. split; [discriminate|]. intros _. exact I.
  - split; [assumption|]. split; [discriminate|]. exact HF.
  - split; [assumption|]. split; [discriminate|]. exact HF.
Qed.

Lemma tot_conseq {A} (P P' : cstate -> Prop) (m : M A) (Q Q' : A -> cstate -> Prop) (J J' : cstate -> Prop) :
  tot P m Q J -> (forall s, P' s -> P s) -> (forall a s, Q a s -> Q' a s) -> (forall s, J s -> J' s) ->
  tot P' m Q' J'.
Proof.
  intros H HP HQ HI s Hs. destruct (H s (HP s Hs)) as (H1 & H2 & H3).
  split; [auto|]. split; [|assumption]. intros a Ha. auto.
Qed.

Lemma tot_pre {A} (P P' : cstate -> Prop) (m : M A) (Q : A -> cstate -> Prop) J :
  tot P m Q J -> (forall s, P' s -> P s) -> tot P' m Q J.
Proof. intros H HP. eapply tot_conseq; eauto. Qed.

Lemma tot_weakJ {A} P (m : M A) (Q : A -> cstate -> Prop) J J' :
  tot P m Q J -> (forall s, J s -> J' s) -> tot P m Q J'.
Proof. intros H HJ. eapply tot_conseq; [exact H| | |exact HJ]; auto. Qed.

Lemma tot_bind_lift_ok {A B} P (x : A) (f : A -> M B) (R : B -> cstate -> Prop) J :
  tot P (f x) R J -> tot P (bind (lift (Ok x)) f) R J.
Proof. intros H s Hs. exact (H s Hs). Qed.

Lemma tot_pure_pre {A} (p : Prop) P (m : M A) (Q : A -> cstate -> Prop) J :
  (p -> tot P m Q J) -> tot (fun s => p /\ P s) m Q J.
Proof. intros H s [Hp Hs]. apply (H Hp s Hs). Qed.

(* computations that leave the state alone *)
Lemma tot_pure {A} P (m : M A) (Q : A -> cstate -> Prop) J :
  (forall s, fst (m s) = s) ->
  (forall s, P s -> J s /\ (forall a, snd (m s) = Ok a -> Q a s) /\ (Bound s -> fineK (snd (m s)))) ->
  tot P m Q J.
Proof. intros Hst H s Hs. rewrite Hst. auto. Qed.

Lemma tot_ret {A} P (a : A) (Q : A -> cstate -> Prop) J : (forall s, P s -> J s /\ Q a s) -> tot P (ret a) Q J.
Proof.
  intros H. apply tot_pure; [reflexivity|]. intros s Hs. destruct (H s Hs).
  split; [assumption|]. split; [|intros _; exact I]. intros a' [= <-]. assumption.
Qed.

Lemma tot_fail {A} P k (Q : A -> cstate -> Prop) J : (forall s, P s -> J s) -> tot P (fail k) Q J.
Proof.
  intros H. apply tot_pure; [reflexivity|]. intros s Hs.
  split; [auto|]. split; [discriminate|intros _; exact I].
Qed.

(* a panic at a listed site *)
Lemma tot_panicK {A} P n (Q : A -> cstate -> Prop) J :
  In n Ksites -> (forall s, P s -> J s) -> tot P (panic n) Q J.
Proof.
  intros Hn H. apply tot_pure; [reflexivity|]. intros s Hs.
  split; [auto|]. split; [discriminate|intros _; exact Hn].
Qed.

(* a branch that is never taken *)
Lemma tot_absurd {A} (P : cstate -> Prop) (m : M A) (Q : A -> cstate -> Prop) J : (forall s, P s -> False) -> tot P m Q J.
Proof. intros H s Hs. destruct (H s Hs). Qed.

Lemma tot_lift {A} P (r : res A) (Q : A -> cstate -> Prop) J :
  fine r -> (forall s, P s -> J s /\ forall a, r = Ok a -> Q a s) -> tot P (lift r) Q J.
Proof.
  intros Hf H. apply tot_pure; [reflexivity|]. intros s Hs. destruct (H s Hs).
  split; [assumption|]. split; [assumption|]. intros _. apply fine_fineK. exact Hf.
Qed.

Lemma tot_modify P g (Q : unit -> cstate -> Prop) J :
  (forall s, P s -> J (g s) /\ Q tt (g s)) -> tot P (modify g) Q J.
Proof.
  intros H s Hs. destruct (H s Hs). unfold modify. cbn [fst snd]. split; [assumption|].
  split; [intros [] _; assumption|intros _; exact I].
Qed.

Lemma tot_put P s1 (Q : unit -> cstate -> Prop) J :
  (forall s, P s -> J s1 /\ Q tt s1) -> tot P (put s1) Q J.
Proof.
  intros H s Hs. destruct (H s Hs). unfold put. cbn [fst snd]. split; [assumption|].
  split; [intros [] _; assumption|intros _; exact I].
Qed.

(* [get]: the continuation runs in exactly the state it is given *)
Lemma tot_get_bind {B} P (f : cstate -> M B) (R : B -> cstate -> Prop) J :
  (forall s0, P s0 -> tot (fun s => s = s0) (f s0) R J) -> tot P (bind get f) R J.
Proof. intros H s Hs. apply (H s Hs s). reflexivity. Qed.

Lemma tot_get P (Q : cstate -> cstate -> Prop) J :
  (forall s, P s -> J s /\ Q s s) -> tot P get Q J.
Proof.
  intros H. apply tot_pure; [reflexivity|]. intros s Hs. destruct (H s Hs).
  split; [assumption|]. split; [|intros _; exact I]. intros a [= <-]. assumption.
Qed.

(* importing a [spec] (e.g. from WalkSafe) next to a [tot] *)
Lemma tot_and_spec {A} P P' (m : M A) (Q Q' : A -> cstate -> Prop) J J' :
  tot P m Q J -> spec P' m Q' J' ->
  tot (fun s => P s /\ P' s) m (fun a s => Q a s /\ Q' a s) (fun s => J s /\ J' s).
Proof.
  intros H1 H2 s [Hs Hs']. destruct (H1 s Hs) as (A1 & A2 & A3). destruct (H2 s Hs') as (B1 & B2).
  split; [split; assumption|]. split; [|assumption]. intros a Ha. split; auto.
Qed.

(* a computation of the res monad lifted; used for the pure walks *)
Lemma fineK_Ok {A} (a : A) : fineK (Ok a). Proof. exact I. Qed.

(* ================================================================== *)
(* 1. frames                                                           *)
(* ================================================================== *)

(* everything but the image, the sector count and the FAT *)
Definition eqf (s s' : cstate) : Prop :=
  ver s' = ver s /\ difat_ids s' = difat_ids s /\ difat s' = difat s /\ free s' = free s /\
  dirs s' = dirs s /\ dir_start s' = dir_start s /\ minifat s' = minifat s /\
  minifat_start s' = minifat_start s /\ mfree s' = mfree s.
Definition eqx (s s' : cstate) : Prop := eqf s s' /\ fat s' = fat s.

Lemma eqf_refl s : eqf s s. Proof. repeat split. Qed.
Lemma eqx_refl s : eqx s s. Proof. repeat split. Qed.
Lemma eqf_trans a b c : eqf a b -> eqf b c -> eqf a c.
Proof.
  unfold eqf. intros (a1&a2&a3&a4&a5&a6&a7&a8&a9) (b1&b2&b3&b4&b5&b6&b7&b8&b9).
  repeat split; congruence.
Qed.
Lemma eqx_trans a b c : eqx a b -> eqx b c -> eqx a c.
Proof. intros [H1 H2] [H3 H4]. split; [eapply eqf_trans; eauto|congruence]. Qed.
Lemma eqx_slen s s' : eqx s s' -> slen s' = slen s.
Proof. intros [(Hv & _) _]. unfold slen. rewrite Hv. reflexivity. Qed.

Definition xstable (P : cstate -> Prop) : Prop := forall s s', eqx s s' -> P s -> P s'.

Ltac xprim :=
  intros;
  repeat (cbv beta iota zeta;
          match goal with
          | |- context [if ?c then _ else _] => destruct c
          | |- context [match ?x with Some _ => _ | None => _ end] => destruct x
          end);
  cbv beta iota zeta;
  cbn [fst snd ver difat_ids difat fat free dirs dir_start minifat minifat_start mfree w_img w_nsect];
  repeat split; reflexivity.

Lemma seek_sector_state sid off s : fst (seek_sector sid off s) = s.
Proof. unfold seek_sector, bind, get, panic, fail, ret. cbv beta iota zeta.
  destruct (_ <? _); [reflexivity|]. destruct (_ <=? _); reflexivity. Qed.

Lemma sector_write_eqx sid off bs s : eqx s (fst (sector_write sid off bs s)).
Proof. unfold eqx, eqf, sector_write, seek_sector, bind, get, modify, panic, fail, ret. xprim. Qed.

Lemma header_write_eqx off bs s : eqx s (fst (header_write off bs s)).
Proof. unfold eqx, eqf, header_write, modify, panic. xprim. Qed.

Lemma init_sector_eqx sid i s : eqx s (fst (init_sector sid i s)).
Proof.
  unfold eqx, eqf, init_sector, sector_write, seek_sector, bind, get, modify, panic, fail, ret. xprim.
Qed.

Lemma header_write_fine off bs s : off < HEADER_LEN -> fine (snd (header_write off bs s)).
Proof. intros H. unfold header_write. destruct (N.leb_spec HEADER_LEN off); [lia|exact I]. Qed.

Lemma init_sector_fine sid i s : fine (snd (init_sector sid i s)).
Proof.
  unfold init_sector, bind at 1, get at 1. cbv beta iota.
  assert (Hsw : forall s1, slen s1 = slen s ->
            fine (snd ((do s2 <- get; sector_write sid 0 (init_bytes (ver s2) i)) s1))).
  { intros s1 E. unfold bind, get. cbv beta iota. apply sector_write_fine. lia. }
  unfold bind at 1. destruct (nsect s <? sid); [exact I|].
  destruct (sid =? nsect s).
  - unfold modify. cbv beta iota. apply Hsw. reflexivity.
  - unfold ret. cbv beta iota. apply Hsw. reflexivity.
Qed.

(* frame rules for [tot] *)
Lemma sector_write_tot P J sid off bs : xstable P -> xstable J ->
  tot (fun s => P s /\ J s /\ off <= slen s) (sector_write sid off bs) (fun _ => P) J.
Proof.
  intros Hst HJ. apply tot_intro.
  - intros s (Hs & Hj & _). pose proof (sector_write_eqx sid off bs s) as E.
    split; [eapply HJ; eauto|]. intros; eapply Hst; eauto.
  - intros s (_ & _ & Ho) _. apply fine_fineK, sector_write_fine. exact Ho.
Qed.

Lemma header_write_tot P off bs : xstable P -> off < HEADER_LEN ->
  tot P (header_write off bs) (fun _ => P) P.
Proof.
  intros Hst Ho. apply tot_intro.
  - intros s Hs. pose proof (Hst _ _ (header_write_eqx off bs s) Hs). auto.
  - intros s _ _. apply fine_fineK, header_write_fine. exact Ho.
Qed.

Lemma init_sector_tot P sid i : xstable P -> tot P (init_sector sid i) (fun _ => P) P.
Proof.
  intros Hst. apply tot_intro.
  - intros s Hs. pose proof (Hst _ _ (init_sector_eqx sid i s) Hs). auto.
  - intros s _ _. apply fine_fineK, init_sector_fine.
Qed.

Lemma seek_sector_tot P sid off :
  tot (fun s => P s /\ off <= slen s) (seek_sector sid off) (fun _ => P) P.
Proof.
  apply tot_pure; [apply seek_sector_state|]. intros s [Hs Ho].
  split; [assumption|]. split; [auto|]. intros _.
  destruct (seek_sector_spec sid off s Ho) as (r & E & Hr). rewrite E. apply fine_fineK. exact Hr.
Qed.

(* set_fat: everything but image and FAT is kept; the FAT either is kept (then
   the call did not succeed) or gets the cell *)
Lemma set_fat_cases i v s :
  let s' := fst (set_fat i v s) in
  eqf s s' /\
  ((fat s' = fat s /\ forall a, snd (set_fat i v s) <> Ok a) \/
   (i <= lenN (fat s) /\ fat s' = put_cell (fat s) i v)).
Proof.
  unfold set_fat, bind, get. cbv beta iota zeta.
  destruct (N.ltb_spec (lenN (fat s)) i) as [Hi|Hi].
  { cbn. split; [apply eqf_refl|left; split; [reflexivity|discriminate]]. }
  destruct (nthN (difat s) (i / fat_per_sector s)) as [fsid|].
  2:{ cbn. split; [apply eqf_refl|left; split; [reflexivity|discriminate]]. }
  pose proof (sector_write_eqx fsid (4 * (i mod fat_per_sector s)) (le_bytes 4 v) s) as Hfr.
  destruct (sector_write fsid (4 * (i mod fat_per_sector s)) (le_bytes 4 v) s) as [s1 r].
  cbn [fst] in Hfr. destruct Hfr as [Hq Hf].
  destruct r as [[]| | |]; cbv beta iota zeta; cbn [fst snd];
    try (split; [exact Hq|left; split; [exact Hf|discriminate]]).
  unfold modify. cbn [fst snd].
  split.
  - unfold eqf in *. cbn [ver difat_ids difat fat free dirs dir_start minifat minifat_start mfree w_fat]. exact Hq.
  - right. split; [exact Hi|]. cbn [fat w_fat]. unfold put_cell. rewrite Hf. reflexivity.
Qed.

Lemma tot_set_fat P (Q : unit -> cstate -> Prop) J i v :
  (forall s, P s -> i <= lenN (fat s)) ->
  (forall s s', P s -> eqf s s' -> fat s' = fat s -> J s') ->
  (forall s s', P s -> eqf s s' -> fat s' = put_cell (fat s) i v -> J s' /\ Q tt s') ->
  tot P (set_fat i v) Q J.
Proof.
  intros Hi H1 H2 s Hs. destruct (set_fat_cases i v s) as (Hq & Hd). split; [|split].
  - destruct Hd as [[Hd _]|[_ Hd]]; [eapply H1; eauto|eapply H2; eauto].
  - intros [] Ha. destruct Hd as [[_ Hd]|[_ Hd]]; [destruct (Hd tt Ha)|eapply H2; eauto].
  - intros _. apply fine_fineK, set_fat_fine. auto.
Qed.

(* ================================================================== *)
(* 2. the FAT layer (Alloc.v): fine + Safe in every outcome            *)
(* ================================================================== *)

Lemma xstable_true : xstable (fun _ => True). Proof. intros ? ? _ _. exact I. Qed.
Lemma xstable_Safe : xstable Safe.
Proof. intros s s' [(_&_&_&Hr&_) Hf] H. unfold Safe in *. rewrite Hf, Hr. exact H. Qed.
Lemma xstable_and P P' : xstable P -> xstable P' -> xstable (fun s => P s /\ P' s).
Proof. intros H1 H2 s s' E [A B]. split; eauto. Qed.
Lemma xstable_fat (G : list N -> Prop) : xstable (fun s => G (fat s)).
Proof. intros s s' [_ Hf] H. rewrite Hf. exact H. Qed.
Lemma xstable_fat_free (G : list N -> list N -> Prop) : xstable (fun s => G (fat s) (free s)).
Proof. intros s s' [(_&_&_&Hr&_) Hf] H. rewrite Hf, Hr. exact H. Qed.
Lemma xstable_eq s0 : xstable (fun s => eqx s0 s).
Proof. intros s s' E H. eapply eqx_trans; eauto. Qed.

(* frames with an independent all-outcome predicate *)
Lemma frame_tot {A} (m : M A) P J :
  (forall s, eqx s (fst (m s))) -> (forall s, P s -> fine (snd (m s))) ->
  xstable P -> xstable J ->
  tot (fun s => P s /\ J s) m (fun _ => P) J.
Proof.
  intros Hfr Hfi HP HJ s [Hs Hj]. split; [eapply HJ; eauto|]. split; [intros; eapply HP; eauto|].
  intros _. apply fine_fineK. auto.
Qed.

Lemma lenN_put_cell fat i v : lenN fat <= lenN (put_cell fat i v).
Proof.
  unfold put_cell. destruct (i =? lenN fat); [rewrite lenN_snoc; lia|rewrite lenN_updN; lia].
Qed.

Lemma hdr_off_difat di : di < NUM_DIFAT_HDR -> HDR_OFF_DIFAT_ARRAY + 4 * di < HEADER_LEN.
Proof. unfold NUM_DIFAT_HDR, HDR_OFF_DIFAT_ARRAY, HEADER_LEN. lia. Qed.

Lemma difat_idx_off s di :
  let per := difat_per_sector s in
  4 * (di - NUM_DIFAT_HDR - (di - NUM_DIFAT_HDR) / per * per) <= slen s.
Proof.
  cbv zeta. unfold difat_per_sector. set (x := di - NUM_DIFAT_HDR).
  destruct (slen_cases s) as [E|E]; rewrite E.
  - change ((512 - 4) / 4) with 127. pose proof (N.mod_lt x 127). pose proof (N.div_mod' x 127). lia.
  - change ((4096 - 4) / 4) with 1023. pose proof (N.mod_lt x 1023). pose proof (N.div_mod' x 1023). lia.
Qed.

Lemma slen_ge s : 512 <= slen s.
Proof. destruct (slen_cases s) as [E|E]; rewrite E; lia. Qed.

Lemma In_303 : In 303 Ksites. Proof. cbn. tauto. Qed.

(* frame leaves under a predicate that only reads the FAT (and what eqx keeps) *)
Ltac xst :=
  first [exact xstable_true | exact xstable_Safe | apply xstable_fat | apply xstable_fat_free
        | apply xstable_eq
        | apply xstable_and; xst ].

Ltac triv := try solve [intros; cbv beta in *; first [exact I | assumption | reflexivity | tauto | auto]].

(* frame leaves with a trivial all-outcome predicate *)
Lemma header_write_k P off bs : xstable P -> off < HEADER_LEN ->
  tot P (header_write off bs) (fun _ => P) (fun _ => True).
Proof.
  intros Hst Ho. eapply tot_conseq; [apply (frame_tot (header_write off bs) P (fun _ => True))| | |].
  - apply header_write_eqx. - intros. apply header_write_fine. exact Ho. - exact Hst. - exact xstable_true.
  - intros s Hs. split; [exact Hs|exact I]. - intros ? ? H; exact H. - intros ? H; exact H.
Qed.
Lemma init_sector_k P sid i : xstable P -> tot P (init_sector sid i) (fun _ => P) (fun _ => True).
Proof.
  intros Hst. eapply tot_conseq; [apply (frame_tot (init_sector sid i) P (fun _ => True))| | |].
  - apply init_sector_eqx. - intros. apply init_sector_fine. - exact Hst. - exact xstable_true.
  - intros s Hs. split; [exact Hs|exact I]. - intros ? ? H; exact H. - intros ? H; exact H.
Qed.
Lemma sector_write_k P sid off bs : xstable P -> (forall s, P s -> off <= slen s) ->
  tot P (sector_write sid off bs) (fun _ => P) (fun _ => True).
Proof.
  intros Hst Ho s Hs. pose proof (sector_write_eqx sid off bs s) as E.
  split; [exact I|]. split; [intros; eapply Hst; eauto|].
  intros _. apply fine_fineK, sector_write_fine. auto.
Qed.

Lemma xstable_ver v0 : xstable (fun s => ver s = v0).
Proof. intros s s' [(Hv&_) _] H. congruence. Qed.

(* append_fat_sector never panics except at 303, whatever the state *)
Lemma append_fat_sector_fn :
  tot (fun _ => True) append_fat_sector (fun _ _ => True) (fun _ => True).
Proof.
  unfold append_fat_sector. apply tot_get_bind. intros s0 _. cbv zeta.
  eapply tot_bind with (Q := fun _ s => eqx s0 s).
  { eapply tot_pre; [apply init_sector_k; apply xstable_eq|]. intros s ->. apply eqx_refl. }
  intros _.
  eapply tot_bind with (Q := fun _ s => fat s = fat s0 /\ ver s = ver s0).
  { apply tot_modify. intros s [(Hv&_) Hf]. cbn [fat ver w_difat]. auto. }
  intros _.
  eapply tot_bind with (Q := fun _ s => ver s = ver s0).
  { apply tot_set_fat.
    - intros s [Hf _]. rewrite Hf. lia.
    - auto.
    - intros s s' [_ Hv] (Hv' & _) _. split; [exact I|congruence]. }
  intros _.
  eapply tot_bind with (Q := fun _ s => True).
  2:{ intros _. apply tot_get_bind. intros s1 _.
      eapply tot_conseq; [apply (header_write_k (fun _ => True)); [exact xstable_true|reflexivity]| | |]; triv. }
  destruct (N.ltb_spec (lenN (difat s0)) NUM_DIFAT_HDR) as [Hdi|Hdi].
  { eapply tot_conseq; [apply (header_write_k (fun _ => True)); [exact xstable_true|apply hdr_off_difat; exact Hdi]| | |]; triv. }
  apply tot_get_bind. intros s1 Hv1. cbv zeta.
  set (dsi := (lenN (difat s0) - NUM_DIFAT_HDR) / difat_per_sector s1).
  eapply tot_bind with (Q := fun _ s => ver s = ver s0).
  { destruct (lenN (difat_ids s1) <=? dsi).
    2:{ apply tot_ret. intros s ->. auto. }
    eapply tot_bind with (Q := fun _ s => eqx s1 s).
    { eapply tot_pre; [apply init_sector_k; apply xstable_eq|]. intros s ->. apply eqx_refl. }
    intros _.
    eapply tot_bind with (Q := fun _ s => ver s = ver s0).
    { apply tot_set_fat.
      - intros s [_ Hf]. rewrite Hf. lia.
      - auto.
      - intros s s' [(Hv&_) _] (Hv' & _) _. split; [exact I|congruence]. }
    intros _. apply tot_get_bind. intros s2 Hv2.
    eapply tot_bind with (Q := fun _ s => ver s = ver s0).
    { destruct (lastN (difat_ids s2)) as [last_sid|].
      - eapply tot_pre; [apply (sector_write_k (fun s => ver s = ver s0) last_sid (slen s2 - 4))|].
        + apply xstable_ver.
        + intros s Hv. assert (E : slen s = slen s2) by (unfold slen; congruence).
          rewrite E. pose proof (slen_ge s2). lia.
        + intros s ->. auto.
      - apply tot_ret. intros s ->. auto. }
    intros _.
    eapply tot_bind with (Q := fun _ s => ver s = ver s0 /\ difat_ids s <> []).
    { apply tot_modify. intros s Hv. cbn [ver difat_ids w_difat_ids]. split; [exact I|]. split; [exact Hv|].
      destruct (difat_ids s); discriminate. }
    intros _. apply tot_get_bind. intros s3 [Hv3 Hne].
    destruct (difat_ids s3) as [|first rest]; [congruence|].
    eapply tot_conseq; [apply (header_write_k (fun s => ver s = ver s0)); [apply xstable_ver|reflexivity]| | |].
    - intros s ->. exact Hv3.
    - intros ? ? H; exact H. - auto. }
  intros _. apply tot_get_bind. intros s4 Hv4.
  destruct (nthN (difat_ids s4) dsi) as [dsid|]; [|apply tot_panicK; [exact In_303|auto]].
  eapply tot_conseq; [apply (sector_write_k (fun s => ver s = ver s0) dsid)| | |]; triv.
  - apply xstable_ver.
  - intros s Hv.
    assert (Hsl : slen s = slen s1) by (unfold slen; congruence).
    assert (Hper : difat_per_sector s1 = difat_per_sector s) by (unfold difat_per_sector, slen; congruence).
    unfold dsi. rewrite Hper. apply (difat_idx_off s).
  - intros s ->. exact Hv4.
Qed.

Lemma lastN_In {A} (l : list A) x : lastN l = Some x -> In x l.
Proof. intros H. rewrite (lastN_split _ _ H). apply in_or_app. right. left. reflexivity. Qed.

Lemma allocate_sector_fn i : tot Safe (allocate_sector i) (fun _ _ => True) (fun _ => True).
Proof.
  unfold allocate_sector. apply tot_get_bind. intros s0 HS.
  destruct (lastN (free s0)) as [sid|] eqn:El.
  - assert (Hsid : sid < lenN (fat s0)).
    { destruct HS as [_ [_ Hall]]. eapply nthN_Some_lt. apply Hall. apply lastN_In. exact El. }
    eapply tot_bind with (Q := fun _ s => fat s = fat s0).
    { apply tot_modify. intros s ->. cbn [fat w_free]. auto. }
    intros _. eapply tot_bind with (Q := fun _ s => True).
    { apply tot_set_fat; [intros s ->; lia|triv|intros; split; exact I]. }
    intros _. eapply tot_bind with (Q := fun _ s => True).
    { apply init_sector_k. exact xstable_true. }
    intros _. apply tot_ret; intros; split; exact I.
  - eapply tot_bind with (Q := fun _ s => True).
    { destruct (_ =? 0).
      - eapply tot_pre; [apply append_fat_sector_fn|]; triv.
      - apply tot_ret; intros; split; exact I. }
    intros _. apply tot_get_bind. intros s1 _. cbv zeta.
    eapply tot_bind with (Q := fun _ s => True).
    { apply tot_set_fat; [intros s ->; lia|triv|intros; split; exact I]. }
    intros _. eapply tot_bind with (Q := fun _ s => True).
    { apply init_sector_k. exact xstable_true. }
    intros _. apply tot_ret; intros; split; exact I.
Qed.

Lemma tot_fn {A} P (m : M A) (Q : A -> cstate -> Prop) J s :
  tot P m Q J -> P s -> Bound (fst (m s)) -> fineK (snd (m s)).
Proof. intros H Hs. apply (H s Hs). Qed.

Lemma allocate_sector_tot L i :
  tot (SL L) (allocate_sector i)
      (fun sid s => SL L s /\ nthN (fat s) sid = Some END_OF_CHAIN /\ ~ L sid) Safe.
Proof.
  apply tot_intro; [apply allocate_sector_spec|].
  intros s [Hs _]. apply (tot_fn _ _ _ _ _ (allocate_sector_fn i) Hs).
Qed.

Lemma Bound_EOC s x : Bound s -> x < lenN (fat s) -> x <> END_OF_CHAIN.
Proof. intros [H _] Hx. pose proof MAXREG_lt_EOC. lia. Qed.

(* extend_chain: the start only has to be a cell of the table *)
Lemma extend_chain_tot start i :
  tot (fun s => Safe s /\ (start <> END_OF_CHAIN \/ start < lenN (fat s))) (extend_chain start i)
      (fun sid s => Safe s /\ sid < lenN (fat s) /\ nthN (fat s) sid = Some END_OF_CHAIN) Safe.
Proof.
  unfold extend_chain. destruct (N.eqb_spec start END_OF_CHAIN) as [He|He].
  { (* only with a table of 2^32-5 entries *)
    intros s [Hs [Hn|Hlt]]; [contradiction|]. cbn [fst snd panic]. split; [exact Hs|]. split; [discriminate|].
    intros HB. exfalso. apply (Bound_EOC _ _ HB Hlt). exact He. }
  apply tot_get_bind. intros s0 [H0 _].
  eapply tot_bind with (Q := fun last s => Safe s /\ nthN (fat s) last = Some END_OF_CHAIN).
  { apply tot_lift; [apply find_last_fine|].
    intros s ->. split; [assumption|]. intros last Hl. split; [assumption|]. eapply find_last_go_Ok; eauto. }
  intros last.
  eapply tot_bind with
    (Q := fun sid s => Safe s /\ nthN (fat s) last = Some END_OF_CHAIN /\
                       nthN (fat s) sid = Some END_OF_CHAIN /\ last <> sid).
  { eapply tot_conseq; [apply (allocate_sector_tot (eq last) i)| | |auto].
    - intros s [Hs Hc]. split; [assumption|]. intros x <-. assumption.
    - intros sid s ([Hs HL] & Hc & Hne). repeat split; auto; apply Hs. }
  intros sid.
  eapply tot_bind with (Q := fun _ s => Safe s /\ sid < lenN (fat s) /\ nthN (fat s) sid = Some END_OF_CHAIN);
    [|intros ?; apply tot_ret; intros s H; split; [apply H|exact H]].
  apply tot_set_fat.
  - intros s (_ & Hl & _). apply nthN_Some_lt in Hl. lia.
  - intros s s' (Hs & _) (_&_&_&Hr&_) Hf. unfold Safe. rewrite Hf, Hr. exact Hs.
  - intros s s' ([Hw Hfi] & Hl & Hc & Hne) (_&_&_&Hr&_) Hf.
    pose proof (nthN_Some_lt _ _ _ Hl) as Hlt.
    assert (Hs' : Safe s').
    { unfold Safe. rewrite Hf, Hr. split.
      + unfold put_cell. destruct (N.eqb_spec last (lenN (fat s))) as [Heq|_]; [lia|].
        apply walksafe_link_to_end with END_OF_CHAIN; auto. pose proof MAXREG_lt_EOC. lia.
      + apply freeinv_put; [assumption|lia|]. right. intros Hin.
        destruct Hfi as [_ Hall]. apply Hall in Hin. rewrite Hin in Hl.
        apply EOC_ne_FREE. congruence. }
    split; [exact Hs'|]. split; [exact Hs'|].
    pose proof (nthN_Some_lt _ _ _ Hc) as Hlc. rewrite Hf. split.
    + pose proof (lenN_put_cell (fat s) last sid). lia.
    + rewrite nthN_put_cell_ne; [exact Hc|congruence|exact Hlc].
Qed.

Lemma begin_chain_tot i :
  tot Safe (begin_chain i)
      (fun sid s => Safe s /\ sid < lenN (fat s) /\ nthN (fat s) sid = Some END_OF_CHAIN) Safe.
Proof.
  unfold begin_chain.
  eapply tot_conseq; [apply (allocate_sector_tot (fun _ => False) i)| | |auto].
  - intros s Hs. split; [exact Hs|]. intros x [].
  - intros sid s ([Hs _] & Hc & _). split; [exact Hs|]. split; [|exact Hc]. eapply nthN_Some_lt; eauto.
Qed.

(* ---- what the FAT layer never touches ---- *)
Definition eqA (s s' : cstate) : Prop :=
  ver s' = ver s /\ dirs s' = dirs s /\ dir_start s' = dir_start s /\ minifat s' = minifat s /\
  minifat_start s' = minifat_start s /\ mfree s' = mfree s.
Lemma eqA_refl s : eqA s s. Proof. repeat split. Qed.
Lemma eqA_trans a b c : eqA a b -> eqA b c -> eqA a c.
Proof. unfold eqA. intros (a1&a2&a3&a4&a5&a6) (b1&b2&b3&b4&b5&b6). repeat split; congruence. Qed.
Lemma eqf_eqA s s' : eqf s s' -> eqA s s'.
Proof. unfold eqf, eqA. intros (a1&a2&a3&a4&a5&a6&a7&a8&a9). repeat split; assumption. Qed.
Lemma eqx_eqA s s' : eqx s s' -> eqA s s'.
Proof. intros [H _]. apply eqf_eqA. exact H. Qed.

Definition framesA {A} (m : M A) : Prop := forall s, eqA s (fst (m s)).
Definition astable (X : cstate -> Prop) : Prop := forall s s', eqA s s' -> X s -> X s'.

Lemma framesA_bind {A B} (m : M A) (f : A -> M B) :
  framesA m -> (forall a, framesA (f a)) -> framesA (bind m f).
Proof.
  intros H1 H2 s. unfold bind. specialize (H1 s). destruct (m s) as [s1 r]. cbn [fst] in H1.
  destruct r; cbn [fst]; try exact H1. eapply eqA_trans; [exact H1|apply H2].
Qed.
Lemma framesA_pure {A} (m : M A) : (forall s, fst (m s) = s) -> framesA m.
Proof. intros H s. rewrite H. apply eqA_refl. Qed.
Lemma framesA_modify g : (forall s, eqA s (g s)) -> framesA (modify g).
Proof. intros H s. apply H. Qed.
Lemma framesA_eqx {A} (m : M A) : (forall s, eqx s (fst (m s))) -> framesA m.
Proof. intros H s. apply eqx_eqA, H. Qed.
Lemma framesA_set_fat i v : framesA (set_fat i v).
Proof. intros s. destruct (set_fat_cases i v s) as [H _]. apply eqf_eqA. exact H. Qed.

Ltac fa_leaf :=
  idtac;
  match goal with
  | |- framesA (set_fat _ _) => apply framesA_set_fat
  | |- framesA (sector_write _ _ _) => apply framesA_eqx; intros ?; apply sector_write_eqx
  | |- framesA (header_write _ _) => apply framesA_eqx; intros ?; apply header_write_eqx
  | |- framesA (init_sector _ _) => apply framesA_eqx; intros ?; apply init_sector_eqx
  | |- framesA (modify _) => apply framesA_modify; intros ?; repeat split
  end.

Ltac fa_step tac :=
  cbv beta iota zeta;
  match goal with
  | |- framesA (bind _ _) => apply framesA_bind; [|intros ?]
  | |- framesA (ret _) => apply framesA_pure; reflexivity
  | |- framesA get => apply framesA_pure; reflexivity
  | |- framesA (fail _) => apply framesA_pure; reflexivity
  | |- framesA (panic _) => apply framesA_pure; reflexivity
  | |- framesA out_of_fuel => apply framesA_pure; reflexivity
  | |- framesA (lift _) => apply framesA_pure; reflexivity
  | |- framesA (next _) => apply framesA_pure; reflexivity
  | |- framesA (if ?c then _ else _) => destruct c
  | |- framesA (match ?x with _ => _ end) => destruct x
  | |- _ => first [tac | fa_leaf]
  end.

Lemma framesA_free_sector sid : framesA (free_sector sid).
Proof. unfold free_sector. repeat fa_step ltac:(fail). Qed.
Lemma framesA_free_chain_go : forall f sid, framesA (free_chain_go f sid).
Proof.
  induction f as [|f IH]; intros sid; cbn [free_chain_go]; [apply framesA_pure; reflexivity|].
  repeat fa_step ltac:(first [apply framesA_free_sector|apply IH]).
Qed.
Lemma framesA_free_chain start : framesA (free_chain start).
Proof. unfold free_chain. repeat fa_step ltac:(apply framesA_free_chain_go). Qed.
Lemma framesA_free_chain_after sid : framesA (free_chain_after sid).
Proof. unfold free_chain_after. repeat fa_step ltac:(apply framesA_free_chain). Qed.
Lemma framesA_append_fat_sector : framesA append_fat_sector.
Proof. unfold append_fat_sector. repeat fa_step ltac:(fail). Qed.
Lemma framesA_allocate_sector i : framesA (allocate_sector i).
Proof. unfold allocate_sector. repeat fa_step ltac:(apply framesA_append_fat_sector). Qed.
Lemma framesA_extend_chain start i : framesA (extend_chain start i).
Proof. unfold extend_chain. repeat fa_step ltac:(apply framesA_allocate_sector). Qed.
Lemma framesA_chain_new start i : framesA (chain_new start i).
Proof. unfold chain_new. repeat fa_step ltac:(fail). Qed.
Lemma framesA_chain_seek c pos : framesA (chain_seek c pos).
Proof. unfold chain_seek. repeat fa_step ltac:(fail). Qed.
Lemma framesA_chain_grow : forall n c, framesA (chain_grow n c).
Proof.
  induction n as [|n IH]; intros c; cbn [chain_grow]; [apply framesA_pure; reflexivity|].
  unfold begin_chain.
  repeat fa_step ltac:(first [apply framesA_extend_chain|apply framesA_allocate_sector|apply IH]).
Qed.
Lemma framesA_chain_set_len c n : framesA (chain_set_len c n).
Proof.
  unfold chain_set_len.
  repeat fa_step ltac:(first [apply framesA_free_chain|apply framesA_free_chain_after|apply framesA_chain_grow]).
Qed.
Lemma framesA_chain_write_go : forall f c bs, framesA (chain_write_go f c bs).
Proof.
  induction f as [|f IH]; intros c bs; cbn [chain_write_go]; [apply framesA_pure; reflexivity|].
  unfold begin_chain.
  repeat fa_step ltac:(first [apply framesA_extend_chain|apply framesA_allocate_sector|apply IH]).
Qed.
Lemma framesA_chain_write_all c bs : framesA (chain_write_all c bs).
Proof. unfold chain_write_all. repeat fa_step ltac:(apply framesA_chain_write_go). Qed.

(* ---- chains ---- *)
Definition LastOk (ids : list N) (s : cstate) : Prop :=
  forall l, lastN ids = Some l -> l < lenN (fat s).

Lemma lastN_snoc {A} (l : list A) x : lastN (l ++ [x]) = Some x.
Proof. unfold lastN. rewrite rev_unit. reflexivity. Qed.
Lemma lastN_nil {A} : lastN (@nil A) = None. Proof. reflexivity. Qed.

Lemma LastOk_snoc ids x s : x < lenN (fat s) -> LastOk (ids ++ [x]) s.
Proof. intros H l. rewrite lastN_snoc. intros [= <-]. exact H. Qed.

Lemma xstable_LastOk ids : xstable (LastOk ids).
Proof. intros s s' [_ Hf] H l Hl. rewrite Hf. auto. Qed.

Lemma mreach_len F fat : mreach F fat -> lenN F <= lenN fat.
Proof.
  induction 1 as [|fat i v _ IH _]; [lia|]. pose proof (lenN_put_cell fat i v). lia.
Qed.

Lemma mr_len {A} (m : M A) : (forall F, pres (MR F) m) -> forall s, lenN (fat s) <= lenN (fat (fst (m s))).
Proof.
  intros H s. destruct (H (fat s) s (mr_refl _)) as [Hm _]. apply mreach_len. exact Hm.
Qed.

Lemma LastOk_mono ids s s' : lenN (fat s) <= lenN (fat s') -> LastOk ids s -> LastOk ids s'.
Proof. intros Hle H l Hl. specialize (H l Hl). lia. Qed.

Lemma path_head fat start ids : path fat start ids -> start <> END_OF_CHAIN ->
  exists t, ids = start :: t.
Proof. intros Hp Hs. inversion Hp; subst; [contradiction|]. eauto. Qed.

Lemma path_LastOk s start ids : path (fat s) start ids -> LastOk ids s.
Proof.
  intros Hp l Hl. pose proof (path_lt _ _ _ Hp) as Hall. rewrite Forall_forall in Hall.
  apply Hall. apply lastN_In. exact Hl.
Qed.

Lemma chain_new_state start i s : fst (chain_new start i s) = s.
Proof.
  unfold chain_new, bind, get, lift, ret. cbv beta iota. destruct (chain_ids_of _ _); reflexivity.
Qed.

Lemma chain_new_tot P start i : (forall s, P s -> WalkSafe (fat s)) ->
  tot P (chain_new start i)
      (fun c s => P s /\ c_init c = i /\ c_off c = 0 /\ path (fat s) start (c_ids c)) P.
Proof.
  intros HW. apply tot_pure; [apply chain_new_state|]. intros s Hs. split; [exact Hs|].
  unfold chain_new, bind, get, lift, ret. cbv beta iota.
  pose proof (walksafe_walk_fine _ (HW s Hs) start) as Hf.
  destruct (chain_ids_of (fat s) start) as [ids| | |] eqn:E; cbn [snd fst]; try contradiction.
  - split; [|intros _; exact I]. intros c [= <-]. cbn [c_init c_off c_ids].
    repeat split; auto. apply chain_ids_path. exact E.
  - split; [discriminate|intros _; exact I].
Qed.

Lemma chain_seek_state c pos s : fst (chain_seek c pos s) = s.
Proof. unfold chain_seek, bind, get, fail, ret. cbv beta iota. destruct (_ <? _); reflexivity. Qed.

Lemma chain_seek_tot P c pos :
  tot P (chain_seek c pos)
      (fun c' s => P s /\ c_ids c' = c_ids c /\ c_init c' = c_init c /\ c_off c' = pos /\
                   pos <= chain_len (slen s) c) P.
Proof.
  apply tot_pure; [apply chain_seek_state|]. intros s Hs. split; [exact Hs|].
  unfold chain_seek, bind, get, fail, ret. cbv beta iota.
  destruct (N.ltb_spec (chain_len (slen s) c) pos); cbn [snd].
  - split; [discriminate|intros _; exact I].
  - split; [|intros _; exact I]. intros c' [= <-]. cbn [c_ids c_init c_off]. repeat split; auto.
Qed.

Lemma free_chain_tot ids start :
  tot (fun s => Safe s /\ LastOk ids s) (free_chain start) (fun _ s => Safe s /\ LastOk ids s) Safe.
Proof.
  apply tot_intro.
  - intros s [Hs Hl]. destruct (free_chain_safe start s Hs) as [H1 H2]. split; [exact H1|].
    intros a Ha. split; [eapply H2; eauto|].
    eapply LastOk_mono; [|exact Hl]. apply (mr_len (free_chain start)). intros F. apply free_chain_MR.
  - intros s _ _. apply fine_fineK, free_chain_fine.
Qed.

Lemma free_chain_after_tot ids sid :
  tot (fun s => Safe s /\ LastOk ids s) (free_chain_after sid) (fun _ s => Safe s /\ LastOk ids s) Safe.
Proof.
  apply tot_intro.
  - intros s [Hs Hl]. destruct (free_chain_after_safe sid s Hs) as [H1 H2]. split; [exact H1|].
    intros a Ha. split; [eapply H2; eauto|].
    eapply LastOk_mono; [|exact Hl]. apply (mr_len (free_chain_after sid)). intros F. apply free_chain_after_MR.
  - intros s _ _. apply fine_fineK, free_chain_after_fine.
Qed.

Definition Ext (c c' : chain) : Prop :=
  c_init c' = c_init c /\ exists ext, c_ids c' = c_ids c ++ ext.
Lemma Ext_refl c : Ext c c. Proof. split; [reflexivity|exists []; rewrite app_nil_r; reflexivity]. Qed.
Lemma Ext_trans a b c : Ext a b -> Ext b c -> Ext a c.
Proof.
  intros [H1 [e1 E1]] [H2 [e2 E2]]. split; [congruence|]. exists (e1 ++ e2).
  rewrite E2, E1, app_assoc. reflexivity.
Qed.

(* the step shared by chain_grow and chain_write_go *)
Lemma chain_extend_tot c :
  tot (fun s => Safe s /\ LastOk (c_ids c) s)
      (match lastN (c_ids c) with
       | Some last => extend_chain last (c_init c)
       | None => begin_chain (c_init c)
       end)
      (fun sid s => Safe s /\ sid < lenN (fat s)) Safe.
Proof.
  destruct (lastN (c_ids c)) as [last|] eqn:El.
  - eapply tot_conseq; [apply extend_chain_tot| | |auto].
    + intros s [Hs Hl]. split; [exact Hs|]. right. apply Hl. exact El.
    + intros sid s (Hs & Hlt & _). auto.
  - eapply tot_conseq; [apply begin_chain_tot| | |auto].
    + intros s [Hs _]. exact Hs.
    + intros sid s (Hs & Hlt & _). auto.
Qed.

Lemma chain_grow_tot : forall n c,
  tot (fun s => Safe s /\ LastOk (c_ids c) s) (chain_grow n c)
      (fun c' s => Safe s /\ LastOk (c_ids c') s /\ Ext c c' /\ c_off c' = c_off c /\
                   lenN (c_ids c') = lenN (c_ids c) + N.of_nat n) Safe.
Proof.
  induction n as [|n IH]; intros c; cbn [chain_grow].
  - apply tot_ret. intros s [Hs Hl]. split; [exact Hs|]. split; [exact Hs|]. split; [exact Hl|].
    split; [apply Ext_refl|]. split; [reflexivity|]. change (N.of_nat 0) with 0. lia.
  - eapply tot_bind; [apply chain_extend_tot|]. intros sid. cbv beta.
    eapply tot_conseq; [apply IH| | |auto].
    + intros s [Hs Hlt]. cbn [c_ids]. split; [exact Hs|]. apply LastOk_snoc. exact Hlt.
    + intros c' s (Hs & Hl & He & Ho & Hn). cbn [c_ids c_off c_init] in *.
      split; [exact Hs|]. split; [exact Hl|]. split; [|split; [exact Ho|]].
      * eapply Ext_trans; [|exact He]. split; [reflexivity|]. exists [sid]. reflexivity.
      * rewrite Hn, lenN_snoc. lia.
Qed.

Lemma slen_le s : slen s <= 4096.
Proof. destruct (slen_cases s) as [E|E]; rewrite E; lia. Qed.

Lemma csl_post c s : Safe s -> LastOk (c_ids c) s ->
  Safe s /\ (Safe s /\ LastOk (c_ids c) s /\ Ext c c /\ c_off c = c_off c).
Proof. intros H1 H2. split; [exact H1|]. split; [exact H1|]. split; [exact H2|]. split; [apply Ext_refl|reflexivity]. Qed.

Lemma chain_set_len_tot c new_len : new_len + 4096 < two64 ->
  tot (fun s => Safe s /\ LastOk (c_ids c) s) (chain_set_len c new_len)
      (fun c' s => Safe s /\ LastOk (c_ids c') s /\ Ext c c' /\ c_off c' = c_off c) Safe.
Proof.
  intros Hnl. unfold chain_set_len. apply tot_get_bind. intros s0 [H0 HL0]. cbv zeta.
  pose proof (slen_ge s0) as Hge. pose proof (slen_le s0) as Hle.
  destruct (N.leb_spec two64 (slen s0 + new_len - 1 + 1)); [lia|].
  set (new_num := (slen s0 + new_len - 1) / slen s0).
  destruct (N.eqb_spec new_num 0) as [Hz|Hz].
  { destruct (c_ids c) as [|first rest] eqn:Eids.
    - apply tot_ret. intros s ->. rewrite <- Eids in *. apply csl_post; assumption.
    - rewrite <- Eids in *. eapply tot_bind with (Q := fun _ s => Safe s /\ LastOk (c_ids c) s).
      + eapply tot_pre; [apply free_chain_tot|]. intros s ->. auto.
      + intros _. apply tot_ret. intros s [Hs Hl]. apply csl_post; assumption. }
  destruct (N.leb_spec new_num (lenN (c_ids c))) as [Hcur|Hcur].
  - eapply tot_bind with (Q := fun _ s => Safe s /\ LastOk (c_ids c) s).
    + destruct (N.ltb_spec new_num (lenN (c_ids c))) as [Hlt|Hlt].
      * destruct (nthN (c_ids c) (new_num - 1)) as [sid|] eqn:En.
        -- eapply tot_pre; [apply free_chain_after_tot|]. intros s ->. auto.
        -- apply nthN_None_ge in En. lia.
      * apply tot_ret. intros s ->. auto.
    + intros _. apply tot_ret. intros s [Hs Hl]. apply csl_post; assumption.
  - eapply tot_conseq; [apply chain_grow_tot| | |auto].
    + intros s ->. auto.
    + intros c' s (Hs & Hl & He & Ho & _). auto.
Qed.

Lemma framesA_pres {A} (m : M A) X : framesA m -> astable X -> pres X m.
Proof. intros Hf Hst s Hs. pose proof (Hst _ _ (Hf s) Hs). auto. Qed.

Lemma astable_slen sl : astable (fun s => slen s = sl).
Proof. intros s s' (Hv & _) H. unfold slen in *. rewrite Hv. exact H. Qed.
Lemma xstable_slen sl : xstable (fun s => slen s = sl).
Proof. intros s s' E H. rewrite (eqx_slen _ _ E). exact H. Qed.

Definition wneed (sl ow m : N) : nat :=
  if m =? 0 then 0%nat else N.to_nat ((ow + m + sl - 1) / sl).

Lemma wneed_step sl off m k f : 0 < sl -> 0 < m -> k = N.min m (sl - off mod sl) ->
  (wneed sl (off mod sl) m + 1 <= S f)%nat ->
  (wneed sl ((off + k) mod sl) (m - k) + 1 <= f)%nat.
Proof.
  intros Hsl Hm Hk Hf. unfold wneed in *.
  set (ow := off mod sl) in *.
  assert (How : ow < sl) by (apply N.mod_lt; lia).
  assert (Hdm : off = sl * (off / sl) + ow) by (apply N.div_mod'; lia).
  destruct (N.eqb_spec m 0) as [|_]; [lia|].
  destruct (N.eqb_spec (m - k) 0) as [|Hmk].
  - assert (1 <= (ow + m + sl - 1) / sl) by (apply N.div_le_lower_bound; lia). lia.
  - assert (Ek : k = sl - ow) by lia.
    assert (Eo : (off + k) mod sl = 0).
    { rewrite Hdm, Ek. replace (sl * (off / sl) + ow + (sl - ow)) with ((off / sl + 1) * sl) by lia.
      apply N.mod_mul. lia. }
    rewrite Eo.
    assert (Ed : (ow + m + sl - 1) / sl = 1 + (0 + (m - k) + sl - 1) / sl).
    { rewrite <- N.div_add_l by lia. f_equal. lia. }
    lia.
Qed.

Lemma wneed_fuel sl off m : 0 < sl ->
  (wneed sl (off mod sl) m + 1 <= S (S (S (N.to_nat (m / sl)))))%nat.
Proof.
  intros Hsl. unfold wneed. destruct (m =? 0); [generalize (N.to_nat (m / sl)); intros; lia|].
  set (ow := off mod sl).
  assert (How : ow < sl) by (apply N.mod_lt; lia).
  assert ((ow + m + sl - 1) / sl <= (m + 2 * sl) / sl) by (apply N.div_le_mono; lia).
  assert (E : (m + 2 * sl) / sl = m / sl + 2) by (apply N.div_add; lia).
  lia.
Qed.

Definition CW (sl : N) (c : chain) (s : cstate) : Prop :=
  Safe s /\ slen s = sl /\ LastOk (c_ids c) s.

Lemma xstable_CW sl c : xstable (CW sl c).
Proof.
  apply xstable_and; [exact xstable_Safe|]. apply xstable_and; [apply xstable_slen|apply xstable_LastOk].
Qed.

Lemma chain_extend_tot' sl c :
  tot (CW sl c)
      (match lastN (c_ids c) with
       | Some last => extend_chain last (c_init c)
       | None => begin_chain (c_init c)
       end)
      (fun sid s => Safe s /\ slen s = sl /\ sid < lenN (fat s)) Safe.
Proof.
  eapply tot_conseq.
  - apply (tot_and_spec _ (fun s => slen s = sl) _ _ (fun _ s => slen s = sl) _ (fun _ => True) (chain_extend_tot c)).
    eapply spec_conseq; [apply (framesA_pres _ (fun s => slen s = sl))| | |].
    + destruct (lastN (c_ids c)); [apply framesA_extend_chain|apply framesA_allocate_sector].
    + apply astable_slen.
    + intros s H; exact H.
    + intros a s H; exact H.
    + intros; exact I.
  - intros s (Hs & Hsl & Hl). auto.
  - intros sid s [[Hs Hlt] Hsl]. auto.
  - intros s [Hs _]. exact Hs.
Qed.

Lemma chain_write_go_tot sl : forall f c bs,
  tot (fun s => CW sl c s /\ c_off c <= chain_len sl c /\
                (wneed sl (c_off c mod sl) (lenN bs) + 1 <= f)%nat)
      (chain_write_go f c bs)
      (fun c' s => CW sl c' s /\ Ext c c' /\ c_off c' = c_off c + lenN bs /\
                   c_off c' <= chain_len sl c') Safe.
Proof.
  induction f as [|f IH]; intros c bs.
  { apply tot_absurd. intros s (_ & _ & Hf). lia. }
  cbn [chain_write_go]. destruct bs as [|b bs'].
  { apply tot_ret. intros s (HC & Ho & _). split; [apply HC|]. split; [exact HC|].
    split; [apply Ext_refl|]. cbn [lenN]. split; [lia|exact Ho]. }
  set (bs := b :: bs'). apply tot_get_bind. intros s0 (HC0 & Ho0 & Hf0). cbv zeta.
  assert (Hsl0 : slen s0 = sl) by apply HC0. rewrite Hsl0.
  assert (Hslpos : 0 < sl) by (rewrite <- Hsl0; apply slen_pos).
  assert (Hm : 0 < lenN bs) by (unfold bs; cbn [lenN]; lia).
  eapply tot_bind with
    (Q := fun c1 s => CW sl c1 s /\ Ext c c1 /\ c_off c1 = c_off c /\ c_off c1 < chain_len sl c1).
  { destruct (N.eqb_spec (c_off c) (chain_len sl c)) as [He|He].
    - eapply tot_bind; [eapply tot_pre; [apply (chain_extend_tot' sl c)|intros s ->; exact HC0]|].
      intros sid. apply tot_ret. intros s (Hs & Hsl & Hlt). split; [exact Hs|].
      cbn [c_ids c_off c_init]. split; [|split; [|split; [reflexivity|]]].
      + split; [exact Hs|]. split; [exact Hsl|]. apply LastOk_snoc. exact Hlt.
      + split; [reflexivity|]. exists [sid]. reflexivity.
      + unfold chain_len in *. cbn [c_ids]. rewrite lenN_snoc. lia.
    - apply tot_ret. intros s ->. split; [apply HC0|]. split; [exact HC0|].
      split; [apply Ext_refl|]. split; [reflexivity|lia]. }
  intros c1.
  apply (tot_pre (fun s => (Ext c c1 /\ c_off c1 = c_off c /\ c_off c1 < chain_len sl c1) /\ CW sl c1 s));
    [|intros s (Ha & Hb); split; assumption].
  apply tot_pure_pre. intros (He & Ho & Hlt).
  destruct (nthN (c_ids c1) (c_off c1 / sl)) as [sid|] eqn:En.
  2:{ exfalso. apply nthN_None_ge in En. unfold chain_len in Hlt.
      assert (sl * (c_off c1 / sl) <= c_off c1) by (apply N.mul_div_le; lia).
      assert (sl * lenN (c_ids c1) <= sl * (c_off c1 / sl)) by (apply N.mul_le_mono_l; exact En). lia. }
  set (ow := c_off c1 mod sl). set (k := N.min (lenN bs) (sl - ow)).
  assert (How : ow < sl) by (apply N.mod_lt; lia).
  eapply tot_bind with (Q := fun _ => CW sl c1).
  { eapply tot_conseq; [apply (sector_write_tot (CW sl c1) Safe sid ow (takeN k bs));
                          [apply xstable_CW|exact xstable_Safe]| | |].
    - intros s H. split; [exact H|]. split; [apply H|].
      destruct H as (_ & Hsl & _). rewrite Hsl. lia.
    - intros a s H; exact H.
    - intros s H; exact H. }
  intros _.
  eapply tot_conseq; [apply (IH (mkChain (c_init c1) (c_ids c1) (c_off c1 + k)) (dropN k bs))| | |].
  - intros s HC. cbn [c_ids c_off]. split; [exact HC|]. split.
    + unfold chain_len in *. cbn [c_ids].
      assert (Hdm : c_off c1 = sl * (c_off c1 / sl) + ow) by (apply N.div_mod'; lia).
      apply nthN_Some_lt in En.
      assert (sl * (c_off c1 / sl + 1) <= sl * lenN (c_ids c1)) by (apply N.mul_le_mono_l; lia).
      lia.
    + rewrite lenN_dropN. apply (wneed_step sl (c_off c1) (lenN bs) k f Hslpos Hm eq_refl).
      rewrite Ho. exact Hf0.
  - intros c' s (HC & He' & Ho' & Hle). cbn [c_ids c_off c_init] in *.
    split; [exact HC|]. split; [|split; [|exact Hle]].
    + eapply Ext_trans; [exact He|]. exact He'.
    + rewrite Ho', lenN_dropN, Ho. lia.
  - intros s H; exact H.
Qed.

Lemma chain_write_all_tot sl c bs :
  tot (fun s => CW sl c s /\ c_off c <= chain_len sl c) (chain_write_all c bs)
      (fun c' s => CW sl c' s /\ Ext c c' /\ c_off c' = c_off c + lenN bs /\
                   c_off c' <= chain_len sl c') Safe.
Proof.
  unfold chain_write_all. apply tot_get_bind. intros s0 (HC & Ho).
  eapply tot_pre; [apply chain_write_go_tot|]. intros s ->. split; [exact HC|]. split; [exact Ho|].
  destruct HC as (_ & Hsl & _). rewrite Hsl. apply wneed_fuel. rewrite <- Hsl. apply slen_pos.
Qed.

(* ================================================================== *)
(* 3. the invariant                                                    *)
(* ================================================================== *)
Definition KeepShape (e e' : dirent) : Prop :=
  d_left e' = d_left e /\ d_right e' = d_right e /\ d_child e' = d_child e /\ d_type e' = d_type e.
Definition Shape (ds ds' : list dirent) : Prop :=
  forall j e, nthN ds j = Some e -> exists e', nthN ds' j = Some e' /\ KeepShape e e'.

Definition EntOk (e : dirent) : Prop :=
  lenN (utf16 (d_name e)) <= MAX_NAME_LEN /\ (d_type e = TStream -> d_child e = NO_STREAM).
Definition RootOk (ds : list dirent) : Prop :=
  exists r, nthN ds ROOT_STREAM_ID = Some r /\ d_type r = TRoot /\ d_len r mod MINI_SECTOR_LEN = 0.
Definition MfOk (s : cstate) : Prop :=
  Forall (fun i => i < lenN (minifat s)) (mfree s) /\
  (minifat_start s = END_OF_CHAIN -> minifat s = []).

(* DT: the structural part of the directory invariant (DirTree, or True while a
   removal is under way) *)
Definition DirOk (DT : list dirent -> Prop) (ds : list dirent) : Prop :=
  RootOk ds /\ Forall EntOk ds /\ DT ds.
Definition Aux (DT : list dirent -> Prop) (s : cstate) : Prop :=
  DirOk DT (dirs s) /\ MfOk s /\ dir_start s <> END_OF_CHAIN.
Definition Core (DT : list dirent -> Prop) (s : cstate) : Prop := AllSafe s /\ Aux DT s.

Definition MInv : cstate -> Prop := Core DirTree.

Lemma astable_Aux DT : astable (Aux DT).
Proof.
  intros s s' (Hv & Hd & Hds & Hm & Hms & Hmf) H. unfold Aux, MfOk in *. rewrite Hd, Hds, Hm, Hms, Hmf. exact H.
Qed.

Lemma astable_and X Y : astable X -> astable Y -> astable (fun s => X s /\ Y s).
Proof. intros H1 H2 s s' E [A B]. split; eauto. Qed.

Lemma astable_dirs (G : list dirent -> Prop) : astable (fun s => G (dirs s)).
Proof. intros s s' (_ & Hd & _) H. rewrite Hd. exact H. Qed.

(* lifting a FAT-layer judgement (about Safe) to AllSafe and anything the FAT layer
   does not touch *)
Lemma lift_alloc {A} (m : M A) (X Pre : cstate -> Prop) (Post : A -> cstate -> Prop) :
  tot (fun s => Safe s /\ Pre s) m (fun a s => Safe s /\ Post a s) Safe ->
  pres (mf WalkSafe) m -> framesA m -> astable X ->
  tot (fun s => AllSafe s /\ X s /\ Pre s) m (fun a s => AllSafe s /\ X s /\ Post a s)
      (fun s => AllSafe s /\ X s).
Proof.
  intros Ht Hm Hf Hx s ([Hs Hw] & HX & Hp).
  destruct (Ht s (conj Hs Hp)) as (T1 & T2 & T3).
  destruct (Hm s Hw) as [M1 M2]. pose proof (Hx _ _ (Hf s) HX) as X1.
  split; [split; [split; assumption|assumption]|]. split; [|exact T3].
  intros a Ha. destruct (T2 a Ha) as [S1 P1]. split; [split; assumption|]. split; assumption.
Qed.

Definition AX (X : cstate -> Prop) (s : cstate) : Prop := AllSafe s /\ X s.

Lemma AX_walksafe X s : AX X s -> WalkSafe (fat s).
Proof. intros [[[H _] _] _]. exact H. Qed.

Lemma chain_write_all_ax X sl c bs : astable X ->
  tot (fun s => AllSafe s /\ X s /\ (slen s = sl /\ LastOk (c_ids c) s /\ c_off c <= chain_len sl c))
      (chain_write_all c bs)
      (fun c' s => AllSafe s /\ X s /\ (slen s = sl /\ LastOk (c_ids c') s /\ Ext c c' /\
                   c_off c' = c_off c + lenN bs /\ c_off c' <= chain_len sl c'))
      (AX X).
Proof.
  intros HX. apply lift_alloc; [|apply chain_write_all_mf|apply framesA_chain_write_all|exact HX].
  eapply tot_conseq; [apply (chain_write_all_tot sl c bs)| | |auto].
  - intros s (Hs & Hsl & Hl & Ho). split; [split; [exact Hs|split; assumption]|exact Ho].
  - intros c' s ((Hs & Hsl & Hl) & He & Ho & Hle). split; [exact Hs|].
    split; [exact Hsl|]. split; [exact Hl|]. split; [exact He|]. split; assumption.
Qed.

Lemma chain_set_len_ax X c new_len : astable X -> new_len + 4096 < two64 ->
  tot (fun s => AllSafe s /\ X s /\ LastOk (c_ids c) s) (chain_set_len c new_len)
      (fun c' s => AllSafe s /\ X s /\ (LastOk (c_ids c') s /\ Ext c c' /\ c_off c' = c_off c))
      (AX X).
Proof.
  intros HX Hn. apply lift_alloc; [|apply chain_set_len_mf|apply framesA_chain_set_len|exact HX].
  eapply tot_conseq; [apply (chain_set_len_tot c new_len Hn)| | |auto].
  - intros s H; exact H.
  - intros c' s (Hs & Hl & He & Ho). split; [exact Hs|]. split; [exact Hl|]. split; assumption.
Qed.

Lemma free_chain_ax X start : astable X ->
  tot (AX X) (free_chain start) (fun _ => AX X) (AX X).
Proof.
  intros HX.
  eapply tot_conseq;
    [apply (lift_alloc (free_chain start) X (fun _ => True) (fun _ _ => True));
       [|apply free_chain_mf|apply framesA_free_chain|exact HX]| | |].
  - eapply tot_conseq; [apply (free_chain_tot [] start)| | |auto].
    + intros s [Hs _]. split; [exact Hs|]. intros l Hl. discriminate Hl.
    + intros a s [Hs _]. split; [exact Hs|exact I].
  - intros s [H1 H2]. split; [exact H1|]. split; [exact H2|exact I].
  - intros a s (H1 & H2 & _). split; assumption.
  - intros s H; exact H.
Qed.

Lemma extend_chain_ax X start i : astable X ->
  tot (fun s => AllSafe s /\ X s /\ (start <> END_OF_CHAIN \/ start < lenN (fat s))) (extend_chain start i)
      (fun sid s => AllSafe s /\ X s /\ sid < lenN (fat s)) (AX X).
Proof.
  intros HX. apply lift_alloc; [|apply extend_chain_mf|apply framesA_extend_chain|exact HX].
  eapply tot_conseq; [apply (extend_chain_tot start i)| | |auto].
  - intros s H; exact H.
  - intros sid s (Hs & Hlt & _). auto.
Qed.

Lemma begin_chain_ax X i : astable X ->
  tot (AX X) (begin_chain i) (fun sid s => AllSafe s /\ X s /\ sid < lenN (fat s)) (AX X).
Proof.
  intros HX.
  eapply tot_conseq;
    [apply (lift_alloc (begin_chain i) X (fun _ => True) (fun sid s => sid < lenN (fat s)));
       [|apply begin_chain_mf|apply framesA_allocate_sector|exact HX]| | |].
  - eapply tot_conseq; [apply (begin_chain_tot i)| | |auto].
    + intros s [Hs _]. exact Hs.
    + intros sid s (Hs & Hlt & _). auto.
  - intros s [H1 H2]. split; [exact H1|]. split; [exact H2|exact I].
  - intros a s H; exact H.
  - intros s H; exact H.
Qed.

(* ================================================================== *)
(* 4. directory entries: reading and writing through                   *)
(* ================================================================== *)
Lemma dir_entry_state id s : fst (dir_entry id s) = s.
Proof. unfold dir_entry, bind, get, ret, panic. cbv beta iota. destruct (nthN _ _); reflexivity. Qed.

Lemma dir_entry_tot P id :
  tot (fun s => P s /\ id < lenN (dirs s)) (dir_entry id)
      (fun e s => P s /\ nthN (dirs s) id = Some e) P.
Proof.
  apply tot_pure; [apply dir_entry_state|]. intros s [Hs Hid]. split; [exact Hs|].
  unfold dir_entry, bind, get, ret, panic. cbv beta iota.
  destruct (nthN (dirs s) id) as [e|] eqn:E.
  - cbn [snd]. split; [|intros _; exact I]. intros a [= <-]. auto.
  - apply nthN_None_ge in E. lia.
Qed.

Lemma dir_per_sector_slen s : dir_per_sector (ver s) * DIR_ENTRY_LEN = slen s /\ 0 < dir_per_sector (ver s).
Proof.
  unfold dir_per_sector, slen, DIR_ENTRY_LEN. destruct (sector_len_cases (ver s)) as [E|E]; rewrite E.
  - change (512 / 128) with 4. lia.
  - change (4096 / 128) with 32. lia.
Qed.

Lemma dir_sector_go_fineK fat : forall n sid, fineK (dir_sector_go n fat sid).
Proof.
  induction n as [|n IH]; intros sid; cbn [dir_sector_go]; [exact I|].
  destruct (sid =? END_OF_CHAIN); [exact I|].
  pose proof (next_of_fine fat sid) as Hf.
  destruct (next_of fat sid) as [nx| | |]; cbn [rbind]; try contradiction; [apply IH|exact I].
Qed.

Lemma write_in_dir_entry_tot P J id off bs : xstable P -> xstable J -> off <= DIR_ENTRY_LEN ->
  tot (fun s => P s /\ J s) (write_in_dir_entry id off bs) (fun _ => P) J.
Proof.
  intros HP HJ Hoff. unfold write_in_dir_entry. apply tot_get_bind. intros s0 [H0 HJ0]. cbv zeta.
  eapply tot_bind with (Q := fun _ s => s = s0).
  { apply tot_pure; [reflexivity|]. intros s ->. split; [exact HJ0|]. split; [intros; reflexivity|].
    intros _. unfold lift. cbn [snd]. apply dir_sector_go_fineK. }
  intros sid.
  eapply tot_conseq; [apply (sector_write_tot P J); assumption| | |].
  - intros s ->. split; [exact H0|]. split; [exact HJ0|].
    destruct (dir_per_sector_slen s0) as [E Hpos]. unfold DIR_ENTRY_LEN in *.
    pose proof (N.mod_lt id (dir_per_sector (ver s0))). lia.
  - intros a s H; exact H.
  - intros s H; exact H.
Qed.

Lemma Forall_nthN {A} (Pp : A -> Prop) (l : list A) i x : Forall Pp l -> nthN l i = Some x -> Pp x.
Proof. intros H Hn. rewrite Forall_forall in H. apply H. eapply nthN_In; eauto. Qed.

Lemma write_dir_entry_tot X id : astable X ->
  (forall s, X s -> id < lenN (dirs s) /\ Forall EntOk (dirs s)) ->
  tot (AX X) (write_dir_entry id) (fun _ => AX X) (AX X).
Proof.
  intros HX Hid. unfold write_dir_entry. apply tot_get_bind. intros s0 H0.
  destruct (Hid s0 (proj2 H0)) as [Hlt Hent].
  eapply tot_bind.
  { eapply tot_conseq; [apply (chain_new_tot (fun s => s = s0) (dir_start s0) IDir)| | |].
    - intros s ->. eapply AX_walksafe; eauto.
    - intros s H; exact H.
    - intros c s H; exact H.
    - intros s ->. exact H0. }
  intros c1. cbv beta.
  apply (tot_pre (fun s => (c_init c1 = IDir /\ c_off c1 = 0 /\ path (fat s0) (dir_start s0) (c_ids c1)) /\ s = s0)).
  2:{ intros s (-> & A & B & C). auto. }
  apply tot_pure_pre. intros (Hi1 & Ho1 & Hp1).
  eapply tot_bind.
  { eapply tot_conseq; [apply (chain_seek_tot (fun s => s = s0) c1 (DIR_ENTRY_LEN * id))| | |].
    - intros s H; exact H.
    - intros c s H; exact H.
    - intros s ->. exact H0. }
  intros c2. cbv beta.
  apply (tot_pre (fun s => (c_ids c2 = c_ids c1 /\ c_off c2 = DIR_ENTRY_LEN * id /\
                            DIR_ENTRY_LEN * id <= chain_len (slen s0) c1) /\ s = s0)).
  2:{ intros s (-> & A & B & C & D). auto. }
  apply tot_pure_pre. intros (Hi2 & Ho2 & Hle2).
  eapply tot_bind.
  { eapply tot_conseq; [apply (dir_entry_tot (fun s => s = s0) id)| | |].
    - intros s ->. auto.
    - intros c s H; exact H.
    - intros s ->. exact H0. }
  intros e. cbv beta.
  apply (tot_pre (fun s => nthN (dirs s0) id = Some e /\ s = s0)).
  2:{ intros s (-> & A). auto. }
  apply tot_pure_pre. intros He.
  pose proof (Forall_nthN _ _ _ _ Hent He) as [Hname _].
  eapply tot_bind with (Q := fun _ s => s = s0).
  { destruct (N.ltb_spec MAX_NAME_LEN (lenN (utf16 (d_name e)))); [lia|].
    apply tot_ret. intros s ->. auto. }
  intros _.
  eapply tot_bind with (Q := fun _ => AX X); [|intros _; apply tot_ret; intros s H; auto].
  eapply tot_conseq; [apply (chain_write_all_ax X (slen s0) c2 (dirent_encode e) HX)| | |].
  - intros s ->. destruct H0 as [Ha Hx]. split; [exact Ha|]. split; [exact Hx|].
    split; [reflexivity|]. rewrite Hi2. split; [eapply path_LastOk; eauto|].
    rewrite Ho2. unfold chain_len in *. rewrite Hi2. exact Hle2.
  - intros c s (Ha & Hx & _). split; assumption.
  - intros s H; exact H.
Qed.

Lemma set_dir_entry_tot P J id e :
  (forall s, P s -> id < lenN (dirs s) /\ J (w_dirs s (updN (dirs s) id e))) ->
  tot P (set_dir_entry id e) (fun _ s => exists s0, P s0 /\ s = w_dirs s0 (updN (dirs s0) id e)) J.
Proof.
  intros H s Hs. destruct (H s Hs) as [Hid HJ]. unfold set_dir_entry, bind, get, put, panic. cbv beta iota.
  destruct (nthN (dirs s) id) as [e0|] eqn:E.
  - cbn [fst snd]. split; [exact HJ|]. split; [|intros _; exact I]. intros a _. exists s. auto.
  - apply nthN_None_ge in E. lia.
Qed.

Implicit Types X Y : cstate -> Prop.

Lemma AllSafe_w_dirs s ds : AllSafe s -> AllSafe (w_dirs s ds).
Proof. intros H. exact H. Qed.

Lemma with_dir_entry_mut_inner_tot2 (X X' : cstate -> Prop) id f : astable X' ->
  (forall s, X s -> id < lenN (dirs s)) ->
  (forall s, X' s -> id < lenN (dirs s) /\ Forall EntOk (dirs s)) ->
  (forall s e, X s -> nthN (dirs s) id = Some e -> X' (w_dirs s (updN (dirs s) id (f e)))) ->
  tot (AX X) (with_dir_entry_mut_inner id f) (fun _ => AX X') (fun s => AX X s \/ AX X' s).
Proof.
  intros HX' Hid Hid' Hupd. unfold with_dir_entry_mut_inner.
  eapply tot_bind.
  { eapply tot_conseq; [apply (dir_entry_tot (AX X) id)| | |].
    - intros s H. split; [exact H|]. apply Hid. apply H.
    - intros e s H; exact H.
    - intros s H. left. exact H. }
  intros e. cbv beta.
  eapply tot_bind with (Q := fun _ => AX X').
  { eapply tot_conseq; [apply (set_dir_entry_tot (fun s => AX X s /\ nthN (dirs s) id = Some e)
                                  (AX X') id (f e))| | |].
    - intros s [[Ha Hx] He]. split; [apply Hid; exact Hx|]. split; [exact Ha|]. apply Hupd; assumption.
    - intros s H; exact H.
    - intros a s (s0 & [[Ha Hx] He] & ->). split; [exact Ha|]. apply Hupd; assumption.
    - intros s H. right. exact H. }
  intros _.
  eapply tot_conseq; [apply (write_dir_entry_tot X' id HX' Hid')| | |].
  - intros s H; exact H.
  - intros a s H; exact H.
  - intros s H. right. exact H.
Qed.

(* whatever the inner run did, putting the table back gives a state the FAT layer cannot
   tell from the initial one *)
Lemma framesA_write_dir_entry id : framesA (write_dir_entry id).
Proof.
  unfold write_dir_entry, dir_entry.
  repeat fa_step ltac:(first [apply framesA_chain_new|apply framesA_chain_seek
                             |apply framesA_chain_write_all]).
Qed.

Lemma with_dir_entry_mut_inner_restore id f s :
  eqA s (w_dirs (fst (with_dir_entry_mut_inner id f s)) (dirs s)).
Proof.
  unfold with_dir_entry_mut_inner.
  unfold bind at 1. unfold dir_entry at 1. unfold bind at 1, get at 1.
  destruct (nthN (dirs s) id) as [e|] eqn:He; [|repeat split].
  unfold ret at 1. cbv beta iota.
  unfold bind at 1. unfold set_dir_entry at 1. unfold bind at 1, get at 1. rewrite He.
  unfold put at 1. cbv beta iota.
  pose proof (framesA_write_dir_entry id (w_dirs s (updN (dirs s) id (f e)))) as F.
  destruct (write_dir_entry id (w_dirs s (updN (dirs s) id (f e)))) as [s1 r]. cbn [fst] in *.
  destruct F as (F1 & F2 & F3 & F4 & F5 & F6).
  destruct r; cbn [fst]; unfold eqA; cbn [ver dirs dir_start minifat minifat_start mfree w_dirs] in *;
    repeat split; first [assumption|reflexivity].
Qed.

Lemma with_dir_entry_mut_tot2 (X X' : cstate -> Prop) id f : astable X -> astable X' ->
  (forall s, X s -> id < lenN (dirs s)) ->
  (forall s, X' s -> id < lenN (dirs s) /\ Forall EntOk (dirs s)) ->
  (forall s e, X s -> nthN (dirs s) id = Some e -> X' (w_dirs s (updN (dirs s) id (f e)))) ->
  tot (AX X) (with_dir_entry_mut id f) (fun _ => AX X') (fun s => AX X s \/ AX X' s).
Proof.
  intros HX HX' Hid Hid' Hupd s Hs.
  destruct (with_dir_entry_mut_inner_tot2 X X' id f HX' Hid Hid' Hupd s Hs) as (HJ & HQ & HF).
  pose proof (with_dir_entry_mut_inner_restore id f s) as HR.
  unfold with_dir_entry_mut. destruct (with_dir_entry_mut_inner id f s) as [s1 r]. cbn [fst snd] in *.
  assert (HA : AX X (w_dirs s1 (dirs s))).
  { split; [|exact (HX _ _ HR (proj2 Hs))].
    apply AllSafe_w_dirs. destruct HJ as [[H _]|[H _]]; exact H. }
  destruct r as [u|k|n|]; cbn [fst snd].
  - split; [exact HJ|]. split; [exact HQ|exact HF].
  - split; [left; exact HA|]. split; [discriminate|exact HF].
  - split; [left; exact HA|]. split; [discriminate|exact HF].
  - split; [left; exact HA|]. split; [discriminate|exact HF].
Qed.

Lemma with_dir_entry_mut_tot X id f : astable X ->
  (forall s, X s -> id < lenN (dirs s) /\ Forall EntOk (dirs s)) ->
  (forall s e, X s -> nthN (dirs s) id = Some e -> X (w_dirs s (updN (dirs s) id (f e)))) ->
  tot (AX X) (with_dir_entry_mut id f) (fun _ => AX X) (AX X).
Proof.
  intros HX Hid Hupd.
  eapply tot_conseq; [apply (with_dir_entry_mut_tot2 X X id f HX HX)| | |].
  - intros s H. apply Hid. exact H.
  - exact Hid.
  - exact Hupd.
  - intros s H; exact H.
  - intros a s H; exact H.
  - intros s [H|H]; exact H.
Qed.

(* ================================================================== *)
(* 5. the MiniFAT layer                                                *)
(* ================================================================== *)
Definition shape_closed (DT : list dirent -> Prop) : Prop :=
  forall ds id e e', DT ds -> nthN ds id = Some e -> KeepShape e e' -> d_name e' = d_name e ->
    DT (updN ds id e').
Definition snoc_closed (DT : list dirent -> Prop) : Prop :=
  forall ds, DT ds -> DT (ds ++ [dirent_unallocated]).

Lemma RootOk_lt ds : RootOk ds -> ROOT_STREAM_ID < lenN ds.
Proof. intros (r & Hr & _). eapply nthN_Some_lt; eauto. Qed.

Lemma mini_off_le s ms off : off < MINI_SECTOR_LEN ->
  ms mod (slen s / MINI_SECTOR_LEN) * MINI_SECTOR_LEN + off + (MINI_SECTOR_LEN - off) <= slen s.
Proof.
  unfold MINI_SECTOR_LEN. intros Hoff. destruct (slen_cases s) as [E|E]; rewrite E.
  - change (512 / 64) with 8. pose proof (N.mod_lt ms 8). lia.
  - change (4096 / 64) with 64. pose proof (N.mod_lt ms 64). lia.
Qed.

Lemma mini_locate_state ms off s : fst (mini_locate ms off s) = s.
Proof.
  unfold mini_locate. destruct (_ <=? _); [reflexivity|].
  unfold bind at 1. unfold root_entry. pose proof (dir_entry_state ROOT_STREAM_ID s) as E1.
  destruct (dir_entry ROOT_STREAM_ID s) as [s1 r1]. cbn [fst] in E1. subst s1.
  destruct r1 as [r| | |]; try reflexivity. cbv beta iota.
  unfold bind at 1. pose proof (chain_new_state (d_start r) IFat s) as E2.
  destruct (chain_new (d_start r) IFat s) as [s2 r2]. cbn [fst] in E2. subst s2.
  destruct r2 as [c| | |]; try reflexivity. cbv beta iota.
  unfold bind at 1, get at 1. cbv beta iota zeta.
  destruct (nthN _ _) as [sid|]; [|reflexivity].
  unfold bind. pose proof (seek_sector_state sid (ms mod (slen s / MINI_SECTOR_LEN) * MINI_SECTOR_LEN + off) s) as E3.
  destruct (seek_sector _ _ s) as [s3 r3]. cbn [fst] in E3. subst s3.
  destruct r3; reflexivity.
Qed.

Lemma mini_locate_tot P ms off :
  (forall s, P s -> WalkSafe (fat s) /\ RootOk (dirs s)) -> off < MINI_SECTOR_LEN ->
  tot P (mini_locate ms off)
      (fun r s => P s /\ snd r + (MINI_SECTOR_LEN - off) <= slen s) P.
Proof.
  intros HP Hoff. unfold mini_locate.
  destruct (N.leb_spec MINI_SECTOR_LEN off) as [Hx|Hx]; [lia|].
  eapply tot_bind.
  { eapply tot_conseq; [apply (dir_entry_tot P ROOT_STREAM_ID)| | |].
    - intros s Hs. split; [exact Hs|]. apply RootOk_lt. apply HP. exact Hs.
    - intros e s H; exact H.
    - intros s H; exact H. }
  intros r. cbv beta.
  eapply tot_bind.
  { eapply tot_conseq; [apply (chain_new_tot P (d_start r) IFat)| | |].
    - intros s Hs. apply HP. exact Hs.
    - intros s [Hs _]. exact Hs.
    - intros c s H; exact H.
    - intros s H; exact H. }
  intros c. cbv beta. apply tot_get_bind. intros s0 [H0 _]. cbv zeta.
  destruct (nthN (c_ids c) (ms / (slen s0 / MINI_SECTOR_LEN))) as [sid|].
  2:{ apply tot_fail. intros s ->. exact H0. }
  eapply tot_bind with (Q := fun _ s => s = s0).
  { eapply tot_conseq; [apply (seek_sector_tot (fun s => s = s0) sid)| | |].
    - intros s ->. split; [reflexivity|]. pose proof (mini_off_le s0 ms off Hoff). lia.
    - intros a s H; exact H.
    - intros s ->. exact H0. }
  intros _. apply tot_ret. intros s ->. split; [exact H0|]. split; [exact H0|]. cbn [snd].
  pose proof (mini_off_le s0 ms off Hoff). lia.
Qed.

Lemma path_EOC_nil fat ids : path fat END_OF_CHAIN ids -> ids = [].
Proof. intros H. inversion H; subst; [reflexivity|contradiction]. Qed.

Lemma astable_mfs v : astable (fun s => minifat_start s = v).
Proof. intros s s' (_&_&_&_&Hms&_) H. congruence. Qed.
Lemma astable_minifat (G : list N -> Prop) : astable (fun s => G (minifat s)).
Proof. intros s s' (_&_&_&Hm&_) H. rewrite Hm. exact H. Qed.

Lemma set_minifat_core X X' index value : astable X ->
  (forall s, X s -> index <= lenN (minifat s)) ->
  (forall s, X s -> minifat_start s <> END_OF_CHAIN ->
             X' (w_minifat s (put_cell (minifat s) index value))) ->
  tot (AX X) (set_minifat index value) (fun _ s => X' s) (fun s => X s \/ X' s).
Proof.
  intros HX Hidx Hupd. unfold set_minifat. apply tot_get_bind. intros s0 H0.
  destruct (N.ltb_spec (lenN (minifat s0)) index) as [Hlt|_].
  { pose proof (Hidx s0 (proj2 H0)). lia. }
  eapply tot_bind.
  { eapply tot_conseq; [apply (chain_new_tot (fun s => s = s0) (minifat_start s0) IFat)| | |].
    - intros s ->. eapply AX_walksafe; eauto.
    - intros s H; exact H.
    - intros c s H; exact H.
    - intros s ->. left. apply H0. }
  intros c1. cbv beta zeta.
  apply (tot_pre (fun s => (c_off c1 = 0 /\ path (fat s0) (minifat_start s0) (c_ids c1)) /\ s = s0)).
  2:{ intros s (-> & A & B & C). auto. }
  apply tot_pure_pre. intros (Ho1 & Hp1).
  destruct (N.ltb_spec (chain_len (slen s0) c1) (index * 4 + 4)) as [Hcl|Hcl].
  { apply tot_fail. intros s ->. left. apply H0. }
  assert (Hne : minifat_start s0 <> END_OF_CHAIN).
  { intros E. rewrite E in Hp1. apply path_EOC_nil in Hp1. unfold chain_len in Hcl. rewrite Hp1 in Hcl.
    cbn [lenN] in Hcl. lia. }
  eapply tot_bind.
  { eapply tot_conseq; [apply (chain_seek_tot (fun s => s = s0) c1 (index * 4))| | |].
    - intros s H; exact H.
    - intros c s H; exact H.
    - intros s ->. left. apply H0. }
  intros c2. cbv beta.
  apply (tot_pre (fun s => (c_ids c2 = c_ids c1 /\ c_off c2 = index * 4) /\ s = s0)).
  2:{ intros s (-> & A & B & C & D). auto. }
  apply tot_pure_pre. intros (Hi2 & Ho2).
  set (X2 := fun s => X s /\ minifat_start s = minifat_start s0).
  assert (HX2 : astable X2) by (apply astable_and; [exact HX|apply astable_mfs]).
  eapply tot_bind with (Q := fun _ => AX X2).
  { eapply tot_conseq; [apply (chain_write_all_ax X2 (slen s0) c2 (le_bytes 4 value) HX2)| | |].
    - intros s ->. destruct H0 as [Ha Hx]. split; [exact Ha|]. split; [split; [exact Hx|reflexivity]|].
      split; [reflexivity|]. rewrite Hi2. split; [eapply path_LastOk; eauto|].
      rewrite Ho2. unfold chain_len in *. rewrite Hi2. lia.
    - intros c s (Ha & Hx & _). split; assumption.
    - intros s [_ [Hx _]]. left. exact Hx. }
  intros _. apply tot_modify. intros s [_ [Hx Hms]].
  assert (X' (w_minifat s (put_cell (minifat s) index value))).
  { apply Hupd; [exact Hx|]. rewrite Hms. exact Hne. }
  split; [right; assumption|assumption].
Qed.

Lemma set_minifat_tot X X' index value : astable X ->
  (forall s, X s -> index <= lenN (minifat s)) ->
  (forall s, X s -> minifat_start s <> END_OF_CHAIN ->
             X' (w_minifat s (put_cell (minifat s) index value))) ->
  pres AllSafe (set_minifat index value) ->
  tot (AX X) (set_minifat index value) (fun _ => AX X') (fun s => AX X s \/ AX X' s).
Proof.
  intros HX Hidx Hupd Hpres.
  eapply tot_conseq;
    [apply (tot_and_spec _ _ _ _ _ _ _ (set_minifat_core X X' index value HX Hidx Hupd) Hpres)| | |].
  - intros s H. split; [exact H|apply H].
  - intros a s [H1 H2]. split; assumption.
  - intros s [[H|H] H2]; [left|right]; split; assumption.
Qed.

(* ---- updating one directory entry ---- *)
Lemma Forall_updN {A} (Pp : A -> Prop) (l : list A) i v : Forall Pp l -> Pp v -> Forall Pp (updN l i v).
Proof.
  revert i. induction l as [|x t IH]; intros i Hl Hv; cbn [updN]; [constructor|].
  inversion Hl; subst. destruct (i =? 0); constructor; auto.
Qed.

Lemma In_nthN {A} (l : list A) x : In x l -> exists i, nthN l i = Some x.
Proof.
  intros H. apply In_nth_error in H. destruct H as [k Hk]. exists (N.of_nat k).
  rewrite nthN_nth_error, Nat2N.id. exact Hk.
Qed.

Lemma KeepShape_refl e : KeepShape e e. Proof. repeat split. Qed.
Lemma Shape_refl ds : Shape ds ds.
Proof. intros j e H. exists e. split; [exact H|apply KeepShape_refl]. Qed.
Lemma Shape_trans a b c : Shape a b -> Shape b c -> Shape a c.
Proof.
  intros H1 H2 j e He. destruct (H1 j e He) as (e1 & He1 & K1). destruct (H2 j e1 He1) as (e2 & He2 & K2).
  exists e2. split; [exact He2|]. unfold KeepShape in *. destruct K1 as (a1&a2&a3&a4), K2 as (b1&b2&b3&b4).
  repeat split; congruence.
Qed.

Lemma Shape_updN ds id e e' : nthN ds id = Some e -> KeepShape e e' -> Shape ds (updN ds id e').
Proof.
  intros He Hk j ej Hj. destruct (N.eq_dec j id) as [->|Hne].
  - exists e'. split; [apply nthN_updN_eq; eapply nthN_Some_lt; eauto|]. congruence.
  - exists ej. split; [rewrite nthN_updN_ne; assumption|apply KeepShape_refl].
Qed.

Lemma Shape_snoc ds e : Shape ds (ds ++ [e]).
Proof.
  intros j ej Hj. exists ej. split; [|apply KeepShape_refl].
  rewrite nthN_app_l; [exact Hj|eapply nthN_Some_lt; eauto].
Qed.

Lemma DirOk_upd DT ds id e e' : shape_closed DT -> DirOk DT ds ->
  nthN ds id = Some e -> KeepShape e e' -> d_name e' = d_name e -> EntOk e' ->
  (id = ROOT_STREAM_ID -> d_len e' mod MINI_SECTOR_LEN = 0) ->
  DirOk DT (updN ds id e').
Proof.
  intros Hsc (HR & HE & HD) He Hk Hnm Hok Hroot. split; [|split].
  - destruct HR as (r & Hr & Ht & Hl). destruct (N.eq_dec id ROOT_STREAM_ID) as [->|Hne].
    + exists e'. split; [apply nthN_updN_eq; eapply nthN_Some_lt; eauto|].
      assert (r = e) by congruence. subst r. destruct Hk as (_&_&_&Hty). split; [congruence|auto].
    + exists r. split; [rewrite nthN_updN_ne; [exact Hr|congruence]|auto].
  - apply Forall_updN; assumption.
  - eapply Hsc; eauto.
Qed.

Lemma EntOk_payload e e' : EntOk e -> KeepShape e e' -> d_name e' = d_name e -> EntOk e'.
Proof.
  intros [H1 H2] (_&_&Hc&Ht) Hn. split; [rewrite Hn; exact H1|]. rewrite Ht, Hc. exact H2.
Qed.

Lemma Aux_upd DT s id e e' : shape_closed DT -> Aux DT s ->
  nthN (dirs s) id = Some e -> KeepShape e e' -> d_name e' = d_name e ->
  (id = ROOT_STREAM_ID -> d_len e' mod MINI_SECTOR_LEN = 0) ->
  Aux DT (w_dirs s (updN (dirs s) id e')).
Proof.
  intros Hsc (HD & HM & Hs) He Hk Hn Hroot. split; [|split; [exact HM|exact Hs]].
  cbn [dirs w_dirs]. eapply DirOk_upd; eauto.
  eapply EntOk_payload; eauto. destruct HD as (_ & HE & _). eapply Forall_nthN; eauto.
Qed.

Lemma Aux_dirs DT s : Aux DT s -> ROOT_STREAM_ID < lenN (dirs s) /\ Forall EntOk (dirs s).
Proof. intros ((HR & HE & _) & _). split; [apply RootOk_lt; exact HR|exact HE]. Qed.

Definition dstable (Y : cstate -> Prop) : Prop :=
  astable Y /\ forall s ds, Y s -> Y (w_dirs s ds).

Lemma set_start_len_shape e st ln : KeepShape e (set_start_len e st ln).
Proof. repeat split. Qed.

Definition AY (DT : list dirent -> Prop) (Y : cstate -> Prop) (s : cstate) : Prop := Aux DT s /\ Y s.

Lemma astable_AY DT Y : dstable Y -> astable (AY DT Y).
Proof. intros [H _]. apply astable_and; [apply astable_Aux|exact H]. Qed.

Lemma root_entry_tot P :
  (forall s, P s -> RootOk (dirs s)) ->
  tot P root_entry (fun r s => P s /\ nthN (dirs s) ROOT_STREAM_ID = Some r /\
                               d_type r = TRoot /\ d_len r mod MINI_SECTOR_LEN = 0) P.
Proof.
  intros HP. unfold root_entry.
  eapply tot_conseq; [apply (dir_entry_tot P ROOT_STREAM_ID)| | |].
  - intros s Hs. split; [exact Hs|]. apply RootOk_lt. auto.
  - intros r s [Hs Hr]. split; [exact Hs|]. split; [exact Hr|].
    destruct (HP s Hs) as (r' & Hr' & Ht & Hl). assert (r' = r) by congruence. subst r'. auto.
  - intros s H; exact H.
Qed.

Lemma root_update_tot DT Y (g : dirent -> N) (h : dirent -> N) : shape_closed DT -> dstable Y ->
  (forall e, d_len e mod MINI_SECTOR_LEN = 0 -> h e mod MINI_SECTOR_LEN = 0) ->
  tot (AX (AY DT Y)) (with_dir_entry_mut ROOT_STREAM_ID (fun e => set_start_len e (g e) (h e)))
      (fun _ => AX (AY DT Y)) (AX (AY DT Y)).
Proof.
  intros Hsc HY Hh. apply with_dir_entry_mut_tot.
  - apply astable_AY. exact HY.
  - intros s [Ha _]. apply Aux_dirs in Ha. exact Ha.
  - intros s e [Ha Hy] He. split; [|apply HY; exact Hy].
    apply (Aux_upd DT s _ e _ Hsc Ha He (set_start_len_shape _ _ _) eq_refl).
    intros _. cbn [d_len set_start_len]. apply Hh.
    destruct Ha as (((r & Hr & _ & Hl) & _) & _). assert (r = e) by congruence. subst r. exact Hl.
Qed.

Lemma append_mini_sector_tot DT Y : shape_closed DT -> dstable Y ->
  tot (AX (AY DT Y)) append_mini_sector (fun _ => AX (AY DT Y)) (AX (AY DT Y)).
Proof.
  intros Hsc HY. pose proof (astable_AY DT Y HY) as HXs. unfold append_mini_sector.
  eapply tot_bind.
  { apply (root_entry_tot (AX (AY DT Y))). intros s [_ [((HR & _) & _) _]]. exact HR. }
  intros r. cbv beta zeta.
  apply (tot_pre (fun s => (d_len r mod MINI_SECTOR_LEN = 0) /\ AX (AY DT Y) s)).
  2:{ intros s (H & _ & _ & Hl). auto. }
  apply tot_pure_pre. intros Hl.
  eapply tot_bind with (Q := fun _ => AX (AY DT Y)).
  { rewrite Hl. cbn [N.eqb negb]. apply tot_ret. auto. }
  intros _.
  (* the root entry must be able to record the new length: refused with the state as it was *)
  apply tot_get_bind. intros sb Hsb.
  eapply tot_bind with (Q := fun _ => AX (AY DT Y)).
  { destruct (_ <? _); [apply tot_fail|apply tot_ret]; intros s ->; auto. }
  intros _.
  eapply tot_bind with (Q := fun _ => AX (AY DT Y)).
  2:{ intros new_start.
      apply (root_update_tot DT Y (fun _ => new_start) (fun e => d_len e + MINI_SECTOR_LEN) Hsc HY).
      intros e He. unfold MINI_SECTOR_LEN in *. rewrite N.add_mod by lia. rewrite He. reflexivity. }
  destruct (N.eqb_spec (d_start r) END_OF_CHAIN) as [Hs|Hs].
  - eapply tot_bind with (Q := fun _ => AX (AY DT Y)).
    { destruct (negb _); [apply tot_fail|apply tot_ret]; auto. }
    intros _. eapply tot_conseq; [apply (begin_chain_ax (AY DT Y) IZero HXs)| | |].
    + intros s H; exact H.
    + intros sid s (Ha & Hx & _). split; assumption.
    + intros s H; exact H.
  - eapply tot_bind.
    { eapply tot_conseq; [apply (chain_new_tot (AX (AY DT Y)) (d_start r) IZero)| | |].
      - intros s H. eapply AX_walksafe; eauto.
      - intros s H; exact H.
      - intros c s H; exact H.
      - intros s H; exact H. }
    intros c. cbv beta. apply tot_get_bind. intros s0 (H0 & _ & _ & Hp).
    eapply tot_bind with (Q := fun _ => AX (AY DT Y)); [|intros _; apply tot_ret; auto].
    destruct (_ <=? _); [|apply tot_ret; intros s ->; auto].
    eapply tot_bind with (Q := fun _ => AX (AY DT Y)); [|intros _; apply tot_ret; auto].
    eapply tot_conseq; [apply (extend_chain_ax (AY DT Y) (d_start r) IZero HXs)| | |].
    + intros s ->. destruct H0 as [Ha Hx]. split; [exact Ha|]. split; [exact Hx|]. left. exact Hs.
    + intros sid s (Ha & Hx & _). split; assumption.
    + intros s H; exact H.
Qed.

Lemma AX_Aux DT s : AX (Aux DT) s <-> Core DT s.
Proof. reflexivity. Qed.

Lemma set_minifat_allsafe i v : marker v -> pres AllSafe (set_minifat i v).
Proof. intros Hv. apply pres_both; [apply set_minifat_safe|apply set_minifat_marker_mf; exact Hv]. Qed.

Lemma Forall_pop_last {A} (Pp : A -> Prop) (l : list A) : Forall Pp l -> Forall Pp (pop_last l).
Proof.
  intros H. rewrite Forall_forall in *. intros x Hx. apply H.
  destruct (lastN l) as [y|] eqn:E.
  - rewrite (lastN_split _ _ E). apply in_or_app. left. exact Hx.
  - unfold lastN in E. destruct (rev l) eqn:Er; [|discriminate].
    assert (l = []) by (rewrite <- (rev_involutive l), Er; reflexivity). subst l. destruct Hx.
Qed.

Lemma length_pop_last {A} (l : list A) x : lastN l = Some x -> length l = S (length (pop_last l)).
Proof. intros H. rewrite (lastN_split _ _ H) at 1. rewrite app_length. cbn. lia. Qed.

Lemma Aux_w_mfree DT s l : Aux DT s -> Forall (fun i => i < lenN (minifat s)) l -> Aux DT (w_mfree s l).
Proof. intros (HD & (_ & HM) & Hs) Hl. split; [exact HD|]. split; [split; [exact Hl|exact HM]|exact Hs]. Qed.

Lemma pop_free_mini_tot DT Y : (forall s l, Y s -> Y (w_mfree s l)) -> forall f,
  tot (fun s => AX (AY DT Y) s /\ (length (mfree s) < f)%nat) (pop_free_mini f)
      (fun got s => AX (AY DT Y) s /\ forall idx, got = Some idx -> idx < lenN (minifat s))
      (AX (AY DT Y)).
Proof.
  intros HY. induction f as [|f IH]; cbn [pop_free_mini].
  { apply tot_absurd. intros s [_ H]. lia. }
  apply tot_get_bind. intros s0 [H0 Hf0].
  destruct (lastN (mfree s0)) as [idx|] eqn:El.
  2:{ apply tot_ret. intros s ->. split; [exact H0|]. split; [exact H0|]. discriminate. }
  assert (Hidx : idx < lenN (minifat s0)).
  { destruct H0 as [_ [(_ & (HM & _) & _) _]]. rewrite Forall_forall in HM. apply HM. apply lastN_In. exact El. }
  set (s1 := w_mfree s0 (pop_last (mfree s0))).
  assert (H1 : AX (AY DT Y) s1).
  { destruct H0 as [Ha [Hx Hy]]. split; [exact Ha|]. split; [|apply HY; exact Hy].
    apply Aux_w_mfree; [exact Hx|]. apply Forall_pop_last. apply Hx. }
  eapply tot_bind with (Q := fun _ s => s = s1).
  { apply tot_put. intros s _. auto. }
  intros _. destruct (nthN (minifat s0) idx) as [v|] eqn:En.
  2:{ apply nthN_None_ge in En. lia. }
  destruct (v =? FREE_SECTOR).
  - apply tot_ret. intros s ->. split; [exact H1|]. split; [exact H1|]. intros i [= <-]. exact Hidx.
  - eapply tot_pre; [apply IH|]. intros s ->. split; [exact H1|].
    unfold s1. cbn [mfree w_mfree]. pose proof (length_pop_last _ _ El). lia.
Qed.

Lemma xstable_AllSafe : xstable AllSafe.
Proof.
  intros s s' [(_&_&_&Hr&_&_&Hm&_) Hf] H. unfold AllSafe, Safe in *. rewrite Hf, Hr, Hm. exact H.
Qed.
Lemma xstable_Aux DT : xstable (Aux DT).
Proof. intros s s' E. apply astable_Aux. apply eqx_eqA. exact E. Qed.
Lemma xstable_Core DT : xstable (Core DT).
Proof. apply xstable_and; [exact xstable_AllSafe|apply xstable_Aux]. Qed.

Lemma Aux_put_minifat DT s i v : Aux DT s -> minifat_start s <> END_OF_CHAIN ->
  Aux DT (w_minifat s (put_cell (minifat s) i v)).
Proof.
  intros (HD & (HM & _) & Hs) Hne. split; [exact HD|]. split; [|exact Hs]. split.
  - cbn [minifat mfree w_minifat]. eapply Forall_impl; [|exact HM]. intros a Ha. cbv beta in *.
    pose proof (lenN_put_cell (minifat s) i v). lia.
  - cbn [minifat_start w_minifat]. intros E. contradiction.
Qed.

Lemma dstable_minifat (G : list N -> Prop) : dstable (fun s => G (minifat s)).
Proof. split; [apply astable_minifat|intros s ds H; exact H]. Qed.

Lemma Core_AY DT s : Core DT s <-> AX (AY DT (fun _ => True)) s.
Proof. unfold Core, AX, AY. tauto. Qed.

Lemma allocate_mini_sector_tot DT v : shape_closed DT -> marker v ->
  tot (Core DT) (allocate_mini_sector v) (fun ms s => Core DT s /\ ms < lenN (minifat s)) (Core DT).
Proof.
  intros Hsc Hv. unfold allocate_mini_sector. apply tot_get_bind. intros s0 H0.
  eapply tot_bind with
    (Q := fun got s => Core DT s /\ forall idx, got = Some idx -> idx < lenN (minifat s)).
  { eapply tot_conseq; [apply (pop_free_mini_tot DT (fun _ => True)); auto| | |].
    - intros s ->. split; [apply Core_AY; exact H0|]. lia.
    - intros got s [H1 H2]. split; [apply Core_AY; exact H1|exact H2].
    - intros s H. apply Core_AY. exact H. }
  intros [idx|].
  - (* reuse a free mini sector *)
    set (X := fun s => Aux DT s /\ idx < lenN (minifat s)).
    assert (HX : astable X) by (apply astable_and; [apply astable_Aux|apply (astable_minifat (fun m => idx < lenN m))]).
    eapply tot_bind with (Q := fun _ => AX X).
    { eapply tot_conseq; [apply (set_minifat_tot X X idx v HX)| | |].
      - intros s [_ H]. lia.
      - intros s [Ha Hi] Hne. split; [apply Aux_put_minifat; assumption|].
        cbn [minifat w_minifat]. pose proof (lenN_put_cell (minifat s) idx v). lia.
      - apply set_minifat_allsafe. exact Hv.
      - intros s [[Ha Hx] Hi]. split; [exact Ha|]. split; [exact Hx|]. apply Hi. reflexivity.
      - intros a s H; exact H.
      - intros s [[Ha [Hx _]]|[Ha [Hx _]]]; split; assumption. }
    intros _. apply tot_ret. intros s [Ha [Hx Hi]]. split; [split; assumption|]. split; [split; assumption|exact Hi].
  - (* grow the MiniFAT *)
    apply (tot_pre (Core DT)); [|intros s [H _]; exact H].
    apply tot_get_bind. intros s1 H1. cbv zeta.
    eapply tot_bind with (Q := fun _ => Core DT).
    { destruct (N.eqb_spec (minifat_start s1) END_OF_CHAIN) as [Hms|Hms].
      - assert (Hnil : minifat s1 = []) by (apply H1; exact Hms).
        eapply tot_bind with (Q := fun _ s => s = s1).
        { rewrite Hnil. cbn [lenN N.eqb negb]. apply tot_ret. intros s ->. split; [exact H1|reflexivity]. }
        intros _.
        set (X := fun s => Aux DT s /\ minifat s = []).
        assert (HX : astable X) by (apply astable_and; [apply astable_Aux|apply (astable_minifat (fun m => m = []))]).
        eapply tot_bind with (Q := fun _ => AX X).
        { eapply tot_conseq; [apply (begin_chain_ax X IFat HX)| | |].
          - intros s ->. destruct H1 as [Ha Hx]. split; [exact Ha|]. split; assumption.
          - intros sid s (Ha & Hx & _). split; assumption.
          - intros s [Ha [Hx _]]. split; assumption. }
        intros sid.
        (* the header is written first; the chain start is remembered after *)
        assert (HXx : xstable (AX X)).
        { apply xstable_and; [exact xstable_AllSafe|].
          intros s s' E. apply HX. apply eqx_eqA. exact E. }
        eapply tot_bind with (Q := fun _ => AX X).
        { eapply tot_conseq; [apply (header_write_tot (AX X)); [exact HXx|reflexivity]| | |].
          + intros s H; exact H.
          + intros a s H; exact H.
          + intros s [Ha [Hx _]]. split; assumption. }
        intros _.
        apply tot_modify. intros s [Ha [(HD & (HM & _) & Hs) Hn]].
        assert (Core DT (w_minifat_start s sid)).
        { split; [exact Ha|]. split; [exact HD|]. split; [|exact Hs]. split; [exact HM|].
          intros _. exact Hn. }
        split; assumption.
      - eapply tot_bind.
        { eapply tot_conseq; [apply (chain_new_tot (fun s => s = s1) (minifat_start s1) IFat)| | |].
          - intros s ->. apply H1.
          - intros s H; exact H.
          - intros c s H; exact H.
          - intros s ->. exact H1. }
        intros c. cbv beta.
        apply (tot_pre (fun s => path (fat s1) (minifat_start s1) (c_ids c) /\ s = s1)).
        2:{ intros s (-> & _ & _ & Hp). auto. }
        apply tot_pure_pre. intros Hp.
        destruct (_ <=? _); [|apply tot_ret; intros s ->; auto].
        eapply tot_bind with (Q := fun _ => Core DT).
        { eapply tot_conseq; [apply (extend_chain_ax (Aux DT) (minifat_start s1) IFat (astable_Aux DT))| | |].
          - intros s ->. destruct H1 as [Ha Hx]. split; [exact Ha|]. split; [exact Hx|]. left. exact Hms.
          - intros sid s (Ha & Hx & _). split; assumption.
          - intros s H; exact H. }
        intros _. eapply tot_bind with (Q := fun _ => Core DT).
        { eapply tot_conseq; [apply (chain_new_tot (Core DT) (minifat_start s1) IFat)| | |].
          - intros s H. apply H.
          - intros s H; exact H.
          - intros c2 s [H _]; exact H.
          - intros s H; exact H. }
        intros c2. eapply tot_conseq; [apply (header_write_tot (Core DT)); [apply xstable_Core|reflexivity]| | |].
        + intros s H; exact H. + intros a s H; exact H. + intros s H; exact H. }
    intros _. apply tot_get_bind. intros s2 H2. cbv zeta.
    set (Y := fun s => minifat s = minifat s2).
    set (Yn := fun s => lenN (minifat s2) < lenN (minifat s)).
    assert (HYd : dstable Y) by (apply (dstable_minifat (fun m => m = minifat s2))).
    assert (HX : astable (AY DT Y)) by (apply astable_AY; exact HYd).
    eapply tot_bind with (Q := fun _ s => s = s2).
    { eapply tot_conseq; [apply (root_entry_tot (fun s => s = s2))| | |].
      - intros s ->. destruct H2 as [_ [(HR & _) _]]. exact HR.
      - intros s H; exact H.
      - intros r s [H _]; exact H.
      - intros s ->. exact H2. }
    intros r.
    (* the mini stream grows first (unless it already reaches past the new mini sector) ... *)
    eapply tot_bind with (Q := fun _ => AX (AY DT Y)).
    { destruct (d_len r <? _).
      - eapply tot_conseq; [apply (append_mini_sector_tot DT Y Hsc HYd)| | |].
        + intros s ->. destruct H2 as [Ha Hx]. split; [exact Ha|]. split; [exact Hx|reflexivity].
        + intros a s H; exact H.
        + intros s [Ha [Hx _]]. split; assumption.
      - apply tot_ret. intros s ->. destruct H2 as [Ha Hx].
        split; [split; assumption|]. split; [exact Ha|]. split; [exact Hx|reflexivity]. }
    (* ... then the MiniFAT entry is added *)
    intros _. eapply tot_bind with (Q := fun _ => AX (AY DT Yn)).
    { eapply tot_conseq; [apply (set_minifat_tot (AY DT Y) (AY DT Yn) (lenN (minifat s2)) v HX)| | |].
      - intros s [_ H]. unfold Y in H. rewrite H. lia.
      - intros s [Ha Hi] Hne. split; [apply Aux_put_minifat; assumption|].
        unfold Yn, Y in *. cbn [minifat w_minifat]. rewrite Hi. unfold put_cell. rewrite N.eqb_refl, lenN_snoc. lia.
      - apply set_minifat_allsafe. exact Hv.
      - intros s H; exact H.
      - intros a s H; exact H.
      - intros s [[Ha [Hx _]]|[Ha [Hx _]]]; split; assumption. }
    intros _. apply tot_ret. intros s [Ha [Hx Hy]]. split; [split; assumption|]. split; [split; assumption|exact Hy].
Qed.

Lemma Bound_EOC_m s x : Bound s -> x < lenN (minifat s) -> x <> END_OF_CHAIN.
Proof. intros [_ H] Hx. pose proof MAXREG_lt_EOC. lia. Qed.

Lemma extend_mini_chain_allsafe start : pres AllSafe (extend_mini_chain start).
Proof. apply pres_both; [apply extend_mini_chain_safe|apply extend_mini_chain_mf]. Qed.

Lemma extend_mini_chain_core DT start : shape_closed DT ->
  tot (fun s => Core DT s /\ (start <> END_OF_CHAIN \/ start < lenN (minifat s)))
      (extend_mini_chain start)
      (fun ms s => Aux DT s /\ ms < lenN (minifat s)) (Aux DT).
Proof.
  intros Hsc. unfold extend_mini_chain. destruct (N.eqb_spec start END_OF_CHAIN) as [He|He].
  { intros s [Hs Hor]. cbn [fst snd panic]. split; [apply Hs|]. split; [discriminate|].
    intros HB. exfalso. destruct Hor as [Hne|Hlt]; [contradiction|].
    apply (Bound_EOC_m _ _ HB Hlt). exact He. }
  apply tot_get_bind. intros s0 [H0 _].
  eapply tot_bind with (Q := fun last s => s = s0 /\ nthN (minifat s0) last = Some END_OF_CHAIN).
  { apply tot_lift; [apply find_last_fine|]. intros s ->. split; [apply H0|]. intros last Hl.
    split; [reflexivity|]. eapply find_last_go_Ok; eauto. }
  intros last.
  apply (tot_pre (fun s => nthN (minifat s0) last = Some END_OF_CHAIN /\ s = s0)); [|intros s [-> H]; auto].
  apply tot_pure_pre. intros Hlast.
  eapply tot_bind with
    (Q := fun ms s => Core DT s /\ ms < lenN (minifat s) /\ last < lenN (minifat s)).
  { eapply tot_conseq;
      [apply (tot_and_spec _ _ _ _ _ _ _ (allocate_mini_sector_tot DT END_OF_CHAIN Hsc marker_EOC)
                (allocate_mini_sector_spec (eq last) END_OF_CHAIN marker_EOC))| | |].
    - intros s ->. split; [exact H0|]. split; [apply H0|]. intros x <-. exact Hlast.
    - intros ms s [[Hc Hlt] ([_ HL] & _ & _)]. split; [exact Hc|]. split; [exact Hlt|].
      eapply nthN_Some_lt. apply HL. reflexivity.
    - intros s [[_ Ha] _]. exact Ha. }
  intros ms. set (X := fun s => Aux DT s /\ ms < lenN (minifat s) /\ last < lenN (minifat s)).
  assert (HX : astable X).
  { apply astable_and; [apply astable_Aux|apply (astable_minifat (fun m => ms < lenN m /\ last < lenN m))]. }
  eapply tot_bind with (Q := fun _ s => Aux DT s /\ ms < lenN (minifat s));
    [|intros _; apply tot_ret; intros s H; split; [apply H|exact H]].
  eapply tot_conseq;
    [apply (set_minifat_core X (fun s => Aux DT s /\ ms < lenN (minifat s)) last ms HX)| | |].
  - intros s (_ & _ & H). lia.
  - intros s (Ha & Hm & Hl) Hne. split; [apply Aux_put_minifat; assumption|].
    cbn [minifat w_minifat]. pose proof (lenN_put_cell (minifat s) last ms). lia.
  - intros s [[Ha Hx] Hm]. split; [exact Ha|]. split; [exact Hx|exact Hm].
  - intros a s H; exact H.
  - intros s [[Hx _]|[Hx _]]; exact Hx.
Qed.

Lemma tot_add_pres {A} (P : cstate -> Prop) (m : M A) (Q : A -> cstate -> Prop) J K :
  tot P m Q J -> pres K m ->
  tot (fun s => P s /\ K s) m (fun a s => Q a s /\ K s) (fun s => J s /\ K s).
Proof. intros H1 H2. apply (tot_and_spec _ _ _ _ _ _ _ H1 H2). Qed.

Lemma extend_mini_chain_tot DT start : shape_closed DT ->
  tot (fun s => Core DT s /\ (start <> END_OF_CHAIN \/ start < lenN (minifat s)))
      (extend_mini_chain start)
      (fun ms s => Core DT s /\ ms < lenN (minifat s)) (Core DT).
Proof.
  intros Hsc.
  eapply tot_conseq;
    [apply (tot_add_pres _ _ _ _ _ (extend_mini_chain_core DT start Hsc) (extend_mini_chain_allsafe start))| | |].
  - intros s H. split; [exact H|apply H].
  - intros ms s [[Hx Hlt] Ha]. split; [split; assumption|exact Hlt].
  - intros s [Hx Ha]. split; assumption.
Qed.

Lemma nfree_strip : forall l n, nfree (fst (strip_free l n)) = nfree l.
Proof.
  unfold nfree. induction l as [|x t IH]; intros n; cbn [strip_free]; [reflexivity|].
  specialize (IH n). destruct (strip_free t n) as [t' k]. cbn [fst] in IH.
  destruct t' as [|y t''].
  - destruct (N.eqb_spec x FREE_SECTOR) as [->|Hx]; cbn [fst filter].
    + rewrite N.eqb_refl. cbn [negb]. exact IH.
    + destruct (N.eqb_spec x FREE_SECTOR); [contradiction|]. cbn [negb length]. rewrite <- IH. reflexivity.
  - cbn [fst filter]. destruct (negb (x =? FREE_SECTOR)); cbn [length]; rewrite <- IH; reflexivity.
Qed.

Lemma strip_nil : forall l n, l = [] -> fst (strip_free l n) = [].
Proof. intros l n ->. reflexivity. Qed.

Lemma free_mini_sector_allsafe ms : pres AllSafe (free_mini_sector ms).
Proof. apply pres_both; [apply free_mini_sector_safe|apply free_mini_sector_mf]. Qed.

Lemma Forall_filter_lt (l : list N) n : Forall (fun i => i < n) (filter (fun i => i <? n) l).
Proof.
  apply Forall_forall. intros x Hx. apply filter_In in Hx. destruct Hx as [_ Hx].
  apply N.ltb_lt. exact Hx.
Qed.

Lemma free_mini_sector_tot DT ms n0 : shape_closed DT ->
  tot (fun s => Core DT s /\ ms < lenN (minifat s) /\ nfree (minifat s) = n0)
      (free_mini_sector ms)
      (fun _ s => Core DT s /\ (nfree (minifat s) < n0)%nat) (Core DT).
Proof.
  intros Hsc. unfold free_mini_sector. apply tot_get_bind. intros s0 (H0 & Hms & Hn0).
  destruct (nthN (minifat s0) ms) as [v|] eqn:En.
  2:{ apply nthN_None_ge in En. lia. }
  destruct (N.eqb_spec v FREE_SECTOR) as [Hv|Hv].
  { apply tot_fail. intros s ->. exact H0. }
  set (m1 := put_cell (minifat s0) ms FREE_SECTOR).
  assert (Hm1 : (nfree m1 < n0)%nat /\ lenN m1 = lenN (minifat s0)).
  { unfold m1, put_cell. destruct (N.eqb_spec ms (lenN (minifat s0))); [lia|].
    split; [rewrite <- Hn0; eapply nfree_updN; eauto|apply lenN_updN]. }
  set (X := fun s => Aux DT s /\ minifat s = minifat s0).
  set (X1 := fun s => Aux DT s /\ minifat s = m1).
  assert (HX : astable X) by (apply astable_and; [apply astable_Aux|apply (astable_minifat (fun m => m = minifat s0))]).
  eapply tot_bind with (Q := fun _ => AX X1).
  { eapply tot_conseq; [apply (set_minifat_tot X X1 ms FREE_SECTOR HX)| | |].
    - intros s [_ H]. rewrite H. lia.
    - intros s [Ha Hi] Hne. split; [apply Aux_put_minifat; assumption|].
      cbn [minifat w_minifat]. rewrite Hi. reflexivity.
    - apply set_minifat_allsafe. exact marker_FREE.
    - intros s ->. destruct H0 as [Ha Hx]. split; [exact Ha|]. split; [exact Hx|reflexivity].
    - intros a s H; exact H.
    - intros s [[Ha [Hx _]]|[Ha [Hx _]]]; split; assumption. }
  intros _.
  eapply tot_bind with (Q := fun _ => AX X1).
  { apply tot_modify. intros s [Ha [Hx Hm]].
    assert (AX X1 (w_mfree s (mfree s ++ [ms]))).
    { split; [exact Ha|]. split; [|exact Hm]. apply Aux_w_mfree; [exact Hx|].
      apply Forall_app. split; [apply Hx|]. constructor; [|constructor]. rewrite Hm. lia. }
    split; [destruct H as [A [B _]]; split; assumption|exact H]. }
  intros _.
  eapply tot_bind.
  { eapply tot_conseq; [apply (root_entry_tot (AX X1))| | |].
    - intros s [_ [((HR & _) & _) _]]. exact HR.
    - intros s H; exact H.
    - intros r s H; exact H.
    - intros s [Ha [Hx _]]. split; assumption. }
  intros r. cbv beta.
  apply (tot_pre (fun s => (d_len r mod MINI_SECTOR_LEN = 0) /\ AX X1 s)).
  2:{ intros s (H & _ & _ & Hl). auto. }
  apply tot_pure_pre. intros Hl.
  eapply tot_bind with (Q := fun _ => AX X1).
  { rewrite Hl. cbn [N.eqb negb]. apply tot_ret. intros s H. split; [|exact H].
    destruct H as [A [B _]]; split; assumption. }
  intros _. apply tot_get_bind. intros s2 [Ha2 [Hx2 Hm2]].
  pose proof (nfree_strip (minifat s2) 0) as Hns.
  pose proof (walksafe_strip_free (minifat s2) 0 (proj2 Ha2)) as Hws.
  destruct (strip_free (minifat s2) 0) as [mf' k] eqn:Es. cbn [fst] in Hns, Hws. cbv beta iota zeta.
  set (s3 := w_mfree (w_minifat s2 mf') (filter (fun i => i <? lenN mf') (mfree s2))).
  set (Y3 := fun s => minifat s = mf').
  assert (H3 : AX (AY DT Y3) s3).
  { split; [split; [apply Ha2|exact Hws]|]. split; [|reflexivity].
    destruct Hx2 as (HD & (HM & HS) & Hds). split; [exact HD|]. split; [|exact Hds]. split.
    - apply Forall_filter_lt.
    - intros E. cbn [minifat_start] in E. specialize (HS E).
      change (minifat s3) with mf'. pose proof (strip_nil _ 0 HS) as Hnil. rewrite Es in Hnil. exact Hnil. }
  assert (Hfin : forall s, AX (AY DT Y3) s -> Core DT s /\ (nfree (minifat s) < n0)%nat).
  { intros s [Ha [Hx Hy]]. split; [split; assumption|]. unfold Y3 in Hy. rewrite Hy, Hns, Hm2. apply Hm1. }
  eapply tot_bind with (Q := fun _ => AX (AY DT Y3)).
  { apply tot_put. intros s _. split; [|exact H3]. destruct H3 as [A [B _]]; split; assumption. }
  intros _. destruct (negb _).
  - eapply tot_conseq;
      [apply (root_update_tot DT Y3 (fun e => d_start e) (fun _ => d_len r - k * MINI_SECTOR_LEN) Hsc
                (dstable_minifat (fun m => m = mf')))| | |].
    + intros e _. unfold MINI_SECTOR_LEN in *.
      assert (E : d_len r - k * 64 = 64 * (d_len r / 64 - k)).
      { pose proof (N.div_mod' (d_len r) 64). lia. }
      rewrite E, N.mul_comm. apply N.mod_mul. lia.
    + intros s H; exact H.
    + intros a s H. apply Hfin. exact H.
    + intros s [Ha [Hx _]]. split; assumption.
  - apply tot_ret. intros s H. split; [|apply Hfin; exact H]. destruct H as [A [B _]]; split; assumption.
Qed.

Lemma next_mini_tot P ms :
  tot P (next_mini ms) (fun nx s => P s /\ next_of (minifat s) ms = Ok nx) P.
Proof.
  apply tot_pure; [reflexivity|]. intros s Hs. split; [exact Hs|].
  unfold next_mini, next_mini_of, bind, get, lift. cbn [snd]. split; [auto|].
  intros _. apply fine_fineK, next_of_fine.
Qed.

Lemma free_mini_chain_go_tot DT : shape_closed DT -> forall f ms,
  tot (fun s => Core DT s /\ (nfree (minifat s) < f)%nat) (free_mini_chain_go f ms)
      (fun _ => Core DT) (Core DT).
Proof.
  intros Hsc. induction f as [|f IH]; intros ms; cbn [free_mini_chain_go].
  { apply tot_absurd. intros s [_ H]. lia. }
  destruct (ms =? END_OF_CHAIN); [apply tot_ret; intros s [H _]; auto|].
  eapply tot_bind.
  { eapply tot_conseq; [apply (next_mini_tot (fun s => Core DT s /\ (nfree (minifat s) < S f)%nat) ms)| | |].
    - intros s H; exact H.
    - intros nx s H; exact H.
    - intros s [H _]; exact H. }
  intros nx. cbv beta.
  eapply tot_bind with (Q := fun _ s => Core DT s /\ (nfree (minifat s) < f)%nat).
  { intros s ((Hc & Hf) & Hn).
    destruct (free_mini_sector_tot DT ms (nfree (minifat s)) Hsc s) as (A & B & C).
    { split; [exact Hc|]. split; [eapply next_of_lt; eauto|reflexivity]. }
    split; [exact A|]. split; [|exact C]. intros a Ha. destruct (B a Ha) as [B1 B2]. split; [exact B1|lia]. }
  intros _. apply IH.
Qed.

Lemma free_mini_chain_tot DT start : shape_closed DT ->
  tot (Core DT) (free_mini_chain start) (fun _ => Core DT) (Core DT).
Proof.
  intros Hsc. unfold free_mini_chain. apply tot_get_bind. intros s0 H0.
  eapply tot_pre; [apply free_mini_chain_go_tot; exact Hsc|].
  intros s ->. split; [exact H0|]. pose proof (nfree_le (minifat s0)). lia.
Qed.

Lemma free_mini_chain_after_tot DT ms : shape_closed DT ->
  tot (Core DT) (free_mini_chain_after ms) (fun _ => Core DT) (Core DT).
Proof.
  intros Hsc. unfold free_mini_chain_after.
  eapply tot_bind; [apply (next_mini_tot (Core DT) ms)|]. intros nx. cbv beta.
  set (X := fun s => Aux DT s /\ ms < lenN (minifat s)).
  assert (HX : astable X) by (apply astable_and; [apply astable_Aux|apply (astable_minifat (fun m => ms < lenN m))]).
  eapply tot_bind with (Q := fun _ => Core DT); [|intros _; apply free_mini_chain_tot; exact Hsc].
  eapply tot_conseq; [apply (set_minifat_tot X (Aux DT) ms END_OF_CHAIN HX)| | |].
  - intros s [_ H]. lia.
  - intros s [Ha Hi] Hne. apply Aux_put_minifat; assumption.
  - apply set_minifat_allsafe. exact marker_EOC.
  - intros s [[Ha Hx] Hn]. split; [exact Ha|]. split; [exact Hx|]. eapply next_of_lt; eauto.
  - intros a s H; exact H.
  - intros s [[Ha [Hx _]]|H]; [split; assumption|exact H].
Qed.

(* ---- mini chains ---- *)
Definition MLastOk (ids : list N) (s : cstate) : Prop :=
  forall l, lastN ids = Some l -> l <> END_OF_CHAIN \/ l < lenN (minifat s).
Definition LastNE (ids : list N) : Prop := forall l, lastN ids = Some l -> l <> END_OF_CHAIN.

Lemma MLastOk_snoc ids x s : x < lenN (minifat s) -> MLastOk (ids ++ [x]) s.
Proof. intros H l. rewrite lastN_snoc. intros [= <-]. right. exact H. Qed.
Lemma LastNE_MLastOk ids s : LastNE ids -> MLastOk ids s.
Proof. intros H l Hl. left. apply H. exact Hl. Qed.
Lemma xstable_MLastOk ids : xstable (MLastOk ids).
Proof. intros s s' [(_&_&_&_&_&_&Hm&_) _] H l Hl. rewrite Hm. auto. Qed.

Lemma path_ne fat start ids : path fat start ids -> Forall (fun x => x <> END_OF_CHAIN) ids.
Proof. induction 1; constructor; assumption. Qed.
Lemma path_LastNE fat start ids : path fat start ids -> LastNE ids.
Proof.
  intros Hp l Hl. pose proof (path_ne _ _ _ Hp) as Hall. rewrite Forall_forall in Hall.
  apply Hall. apply lastN_In. exact Hl.
Qed.

Lemma mchain_new_state start s : fst (mchain_new start s) = s.
Proof.
  unfold mchain_new, bind, get, lift, ret. cbv beta iota. destruct (chain_ids_of _ _); reflexivity.
Qed.

Lemma mchain_new_tot P start : (forall s, P s -> WalkSafe (minifat s)) ->
  tot P (mchain_new start)
      (fun c s => P s /\ mc_off c = 0 /\ path (minifat s) start (mc_ids c)) P.
Proof.
  intros HW. apply tot_pure; [apply mchain_new_state|]. intros s Hs. split; [exact Hs|].
  unfold mchain_new, bind, get, lift, ret. cbv beta iota.
  pose proof (walksafe_walk_fine _ (HW s Hs) start) as Hf.
  destruct (chain_ids_of (minifat s) start) as [ids| | |] eqn:E; cbn [snd fst]; try contradiction.
  - split; [|intros _; exact I]. intros c [= <-]. cbn [mc_off mc_ids].
    repeat split; auto. apply chain_ids_path. exact E.
  - split; [discriminate|intros _; exact I].
Qed.

Lemma mchain_seek_tot P c pos :
  tot P (mchain_seek c pos)
      (fun c' s => P s /\ mc_ids c' = mc_ids c /\ mc_off c' = pos /\ pos <= mchain_len c) P.
Proof.
  unfold mchain_seek. destruct (N.ltb_spec (mchain_len c) pos).
  - apply tot_fail. auto.
  - apply tot_ret. intros s Hs. split; [exact Hs|]. cbn [mc_ids mc_off]. auto.
Qed.

Definition MExt (c c' : mchain) : Prop := exists ext, mc_ids c' = mc_ids c ++ ext.
Lemma MExt_refl c : MExt c c. Proof. exists []. rewrite app_nil_r. reflexivity. Qed.
Lemma MExt_trans a b c : MExt a b -> MExt b c -> MExt a c.
Proof. intros [e1 E1] [e2 E2]. exists (e1 ++ e2). rewrite E2, E1, app_assoc. reflexivity. Qed.

Lemma mchain_extend_tot DT c : shape_closed DT ->
  tot (fun s => Core DT s /\ MLastOk (mc_ids c) s)
      (match lastN (mc_ids c) with
       | Some last => extend_mini_chain last
       | None => begin_mini_chain
       end)
      (fun ms s => Core DT s /\ ms < lenN (minifat s)) (Core DT).
Proof.
  intros Hsc. destruct (lastN (mc_ids c)) as [last|] eqn:El.
  - eapply tot_pre; [apply (extend_mini_chain_tot DT last Hsc)|].
    intros s [Hs Hl]. split; [exact Hs|]. apply Hl. exact El.
  - unfold begin_mini_chain. eapply tot_pre; [apply (allocate_mini_sector_tot DT END_OF_CHAIN Hsc marker_EOC)|].
    intros s [Hs _]. exact Hs.
Qed.

Lemma mchain_grow_tot DT : shape_closed DT -> forall n c,
  tot (fun s => Core DT s /\ MLastOk (mc_ids c) s) (mchain_grow n c)
      (fun c' s => Core DT s /\ MLastOk (mc_ids c') s /\ MExt c c' /\ mc_off c' = mc_off c) (Core DT).
Proof.
  intros Hsc. induction n as [|n IH]; intros c; cbn [mchain_grow].
  - apply tot_ret. intros s [Hs Hl]. split; [exact Hs|]. split; [exact Hs|]. split; [exact Hl|].
    split; [apply MExt_refl|reflexivity].
  - eapply tot_bind; [apply mchain_extend_tot; exact Hsc|]. intros ms. cbv beta.
    eapply tot_conseq; [apply IH| | |auto].
    + intros s [Hs Hlt]. cbn [mc_ids]. split; [exact Hs|]. apply MLastOk_snoc. exact Hlt.
    + intros c' s (Hs & Hl & He & Ho). cbn [mc_ids mc_off] in *.
      split; [exact Hs|]. split; [exact Hl|]. split; [|exact Ho].
      eapply MExt_trans; [|exact He]. exists [ms]. reflexivity.
Qed.

Lemma mchain_set_len_tot DT c new_len : shape_closed DT -> new_len < MINI_STREAM_CUTOFF ->
  LastNE (mc_ids c) ->
  tot (Core DT) (mchain_set_len c new_len)
      (fun c' s => Core DT s /\ MLastOk (mc_ids c') s /\ MExt c c' /\ mc_off c' = mc_off c) (Core DT).
Proof.
  intros Hsc Hnl Hne. unfold mchain_set_len.
  destruct (N.leb_spec MINI_STREAM_CUTOFF new_len) as [Hx|_]; [lia|]. cbv zeta.
  assert (Hpost : forall s, Core DT s ->
            Core DT s /\ (Core DT s /\ MLastOk (mc_ids c) s /\ MExt c c /\ mc_off c = mc_off c)).
  { intros s Hs. split; [exact Hs|]. split; [exact Hs|]. split; [apply LastNE_MLastOk; exact Hne|].
    split; [apply MExt_refl|reflexivity]. }
  set (new_num := (MINI_SECTOR_LEN + new_len - 1) / MINI_SECTOR_LEN).
  destruct (N.eqb_spec new_num 0) as [Hz|Hz].
  { case_eq (mc_ids c); [intros Eids|intros first rest Eids].
    - apply tot_ret. exact Hpost.
    - eapply tot_bind; [apply (free_mini_chain_tot DT first Hsc)|].
      intros ?. apply tot_ret. exact Hpost. }
  destruct (N.leb_spec new_num (lenN (mc_ids c))) as [Hcur|Hcur].
  - eapply tot_bind with (Q := fun _ => Core DT); [|intros _; apply tot_ret; exact Hpost].
    destruct (N.ltb_spec new_num (lenN (mc_ids c))) as [Hlt|Hlt].
    + destruct (nthN (mc_ids c) (new_num - 1)) as [ms|] eqn:En.
      * apply free_mini_chain_after_tot. exact Hsc.
      * apply nthN_None_ge in En. lia.
    + apply tot_ret. auto.
  - eapply tot_pre; [apply mchain_grow_tot; exact Hsc|].
    intros s Hs. split; [exact Hs|]. apply LastNE_MLastOk. exact Hne.
Qed.

Lemma sector_read_exact_tot P sid off n :
  tot (fun s => P s /\ off <= slen s) (sector_read_exact sid off n) (fun bs s => P s /\ lenN bs = n) P.
Proof.
  intros s [Hs Ho]. destruct (sector_read_exact_spec sid off n s Ho) as (r & E & Hr).
  pose proof (sector_read_exact_len sid off n s) as Hlen. rewrite E in *. cbn [fst snd].
  split; [exact Hs|]. split; [|intros _; apply fine_fineK; exact Hr].
  intros bs ->. split; [exact Hs|]. destruct (Hlen s bs eq_refl) as [_ H]. exact H.
Qed.

Lemma mchain_read_go_tot P : (forall s, P s -> WalkSafe (fat s) /\ RootOk (dirs s)) ->
  forall f c n acc,
  mc_off c <= mchain_len c ->
  (wneed MINI_SECTOR_LEN (mc_off c mod MINI_SECTOR_LEN) (N.min n (mchain_len c - mc_off c)) + 1 <= f)%nat ->
  tot P (mchain_read_go f c n acc) (fun r s => P s /\ lenN (snd r) = lenN acc + n) P.
Proof.
  intros HP. induction f as [|f IH]; intros c n acc Hoff Hf; [lia|].
  cbn [mchain_read_go]. destruct (N.eqb_spec n 0) as [Hn|Hn].
  { apply tot_ret. intros s Hs. split; [exact Hs|]. split; [exact Hs|]. cbn [snd]. lia. }
  cbv zeta.
  destruct (N.ltb_spec (mchain_len c) (mc_off c)) as [Hx|_]; [lia|].
  set (m := N.min n (mchain_len c - mc_off c)) in *.
  destruct (N.eqb_spec m 0) as [Hm|Hm]; [apply tot_fail; auto|].
  assert (H64 : 0 < MINI_SECTOR_LEN) by reflexivity.
  destruct (nthN (mc_ids c) (mc_off c / MINI_SECTOR_LEN)) as [ms|] eqn:En.
  2:{ exfalso. apply nthN_None_ge in En. unfold mchain_len in *.
      assert (MINI_SECTOR_LEN * (mc_off c / MINI_SECTOR_LEN) <= mc_off c) by (apply N.mul_div_le; lia).
      assert (MINI_SECTOR_LEN * lenN (mc_ids c) <= MINI_SECTOR_LEN * (mc_off c / MINI_SECTOR_LEN))
        by (apply N.mul_le_mono_l; exact En). lia. }
  set (ow := mc_off c mod MINI_SECTOR_LEN) in *. set (k := N.min m (MINI_SECTOR_LEN - ow)).
  assert (How : ow < MINI_SECTOR_LEN) by (apply N.mod_lt; lia).
  eapply tot_bind; [apply (mini_locate_tot P ms ow HP How)|].
  intros [sid o]. cbv beta iota. cbn [snd].
  eapply tot_bind.
  { eapply tot_pre; [apply (sector_read_exact_tot P sid o k)|]. intros s [Hs Ho]. split; [exact Hs|lia]. }
  intros bs. cbv beta.
  apply (tot_pre (fun s => lenN bs = k /\ P s)); [|intros s [A B]; auto].
  apply tot_pure_pre. intros Hbs.
  assert (Hk : k <= m /\ k <= MINI_SECTOR_LEN - ow /\ 0 < k) by (unfold k; lia).
  assert (Hroom : mc_off c + k <= mchain_len c).
  { unfold mchain_len in *.
    assert (Hdm : mc_off c = MINI_SECTOR_LEN * (mc_off c / MINI_SECTOR_LEN) + ow) by (apply N.div_mod'; lia).
    apply nthN_Some_lt in En.
    assert (MINI_SECTOR_LEN * (mc_off c / MINI_SECTOR_LEN + 1) <= MINI_SECTOR_LEN * lenN (mc_ids c))
      by (apply N.mul_le_mono_l; lia).
    unfold MINI_SECTOR_LEN in *. lia. }
  eapply tot_conseq; [apply (IH (mkMChain (mc_ids c) (mc_off c + k)) (n - k) (acc ++ bs)); cbn [mc_ids mc_off]| | |].
  - exact Hroom.
  - assert (Em : N.min (n - k) (mchain_len c - (mc_off c + k)) = m - k) by (unfold m; lia).
    unfold mchain_len in Em |- *. cbn [mc_ids]. rewrite Em.
    apply (wneed_step MINI_SECTOR_LEN (mc_off c) m k f H64); [lia|reflexivity|exact Hf].
  - intros s H; exact H.
  - intros r s [Hs Hl]. split; [exact Hs|]. rewrite Hl, lenN_app, Hbs. unfold m in Hk. lia.
  - intros s H; exact H.
Qed.

Lemma wneed_mono sl ow m m' : 0 < sl -> m <= m' -> (wneed sl ow m <= wneed sl ow m')%nat.
Proof.
  intros Hsl Hm. unfold wneed. destruct (N.eqb_spec m 0); [lia|]. destruct (N.eqb_spec m' 0); [lia|].
  assert ((ow + m + sl - 1) / sl <= (ow + m' + sl - 1) / sl) by (apply N.div_le_mono; lia). lia.
Qed.

Lemma mchain_read_exact_tot P c n : (forall s, P s -> WalkSafe (fat s) /\ RootOk (dirs s)) ->
  mc_off c <= mchain_len c ->
  tot P (mchain_read_exact c n) (fun r s => P s /\ lenN (snd r) = n) P.
Proof.
  intros HP Hoff. unfold mchain_read_exact.
  eapply tot_conseq; [apply mchain_read_go_tot; [exact HP|exact Hoff|]| | |];
    [|intros s H; exact H|intros r s [H1 H2]; split; [exact H1|cbn [lenN] in H2; lia]|intros s H; exact H].
  assert (H64 : 0 < MINI_SECTOR_LEN) by reflexivity.
  pose proof (wneed_mono MINI_SECTOR_LEN (mc_off c mod MINI_SECTOR_LEN)
                (N.min n (mchain_len c - mc_off c)) n H64 ltac:(lia)).
  pose proof (wneed_fuel MINI_SECTOR_LEN (mc_off c) n H64). lia.
Qed.

Definition MW (DT : list dirent -> Prop) (c : mchain) (s : cstate) : Prop :=
  Core DT s /\ MLastOk (mc_ids c) s.

Lemma xstable_MW DT c : xstable (MW DT c).
Proof. apply xstable_and; [apply xstable_Core|apply xstable_MLastOk]. Qed.

Lemma Core_ws DT s : Core DT s -> WalkSafe (fat s) /\ RootOk (dirs s).
Proof. intros [[[H _] _] ((HR & _) & _)]. auto. Qed.

Lemma mchain_write_go_tot DT : shape_closed DT -> forall f c bs,
  tot (fun s => MW DT c s /\ mc_off c <= mchain_len c /\
                (wneed MINI_SECTOR_LEN (mc_off c mod MINI_SECTOR_LEN) (lenN bs) + 1 <= f)%nat)
      (mchain_write_go f c bs)
      (fun c' s => MW DT c' s /\ MExt c c' /\ mc_off c' = mc_off c + lenN bs /\
                   mc_off c' <= mchain_len c') (Core DT).
Proof.
  intros Hsc. induction f as [|f IH]; intros c bs.
  { apply tot_absurd. intros s (_ & _ & Hf). lia. }
  cbn [mchain_write_go]. destruct bs as [|b bs'].
  { apply tot_ret. intros s (HC & Ho & _). split; [apply HC|]. split; [exact HC|].
    split; [apply MExt_refl|]. cbn [lenN]. split; [lia|exact Ho]. }
  set (bs := b :: bs').
  apply (tot_pre (fun s => (mc_off c <= mchain_len c /\
            (wneed MINI_SECTOR_LEN (mc_off c mod MINI_SECTOR_LEN) (lenN bs) + 1 <= S f)%nat) /\ MW DT c s));
    [|intros s (A & B & C); auto].
  apply tot_pure_pre. intros (Ho0 & Hf0).
  assert (H64 : 0 < MINI_SECTOR_LEN) by reflexivity.
  assert (Hm : 0 < lenN bs) by (unfold bs; cbn [lenN]; lia).
  eapply tot_bind with
    (Q := fun c1 s => (MExt c c1 /\ mc_off c1 = mc_off c /\ mc_off c1 < mchain_len c1) /\ MW DT c1 s).
  { destruct (N.eqb_spec (mc_off c) (mchain_len c)) as [He|He].
    - eapply tot_bind; [apply (mchain_extend_tot DT c Hsc)|].
      intros ms. apply tot_ret. intros s (Hs & Hlt). split; [exact Hs|].
      cbn [mc_ids mc_off]. split; [split; [|split; [reflexivity|]]|].
      + exists [ms]. reflexivity.
      + unfold mchain_len in *. cbn [mc_ids]. rewrite lenN_snoc. unfold MINI_SECTOR_LEN in *. lia.
      + split; [exact Hs|]. apply MLastOk_snoc. exact Hlt.
    - apply tot_ret. intros s HC. split; [apply HC|]. split; [|exact HC].
      split; [apply MExt_refl|]. split; [reflexivity|lia]. }
  intros c1. apply tot_pure_pre. intros (He & Ho & Hlt).
  destruct (nthN (mc_ids c1) (mc_off c1 / MINI_SECTOR_LEN)) as [ms|] eqn:En.
  2:{ exfalso. apply nthN_None_ge in En. unfold mchain_len in Hlt.
      assert (MINI_SECTOR_LEN * (mc_off c1 / MINI_SECTOR_LEN) <= mc_off c1) by (apply N.mul_div_le; lia).
      assert (MINI_SECTOR_LEN * lenN (mc_ids c1) <= MINI_SECTOR_LEN * (mc_off c1 / MINI_SECTOR_LEN))
        by (apply N.mul_le_mono_l; exact En). lia. }
  set (ow := mc_off c1 mod MINI_SECTOR_LEN). set (k := N.min (lenN bs) (MINI_SECTOR_LEN - ow)).
  assert (How : ow < MINI_SECTOR_LEN) by (apply N.mod_lt; lia).
  eapply tot_bind.
  { eapply tot_conseq; [apply (mini_locate_tot (MW DT c1) ms ow)| | |].
    - intros s [Hs _]. apply (Core_ws DT). exact Hs.
    - exact How.
    - intros s H; exact H.
    - intros r s H; exact H.
    - intros s [H _]; exact H. }
  intros [sid o]. cbv beta iota. cbn [snd].
  eapply tot_bind with (Q := fun _ => MW DT c1).
  { eapply tot_conseq; [apply (sector_write_tot (MW DT c1) (Core DT) sid o (takeN k bs));
                          [apply xstable_MW|apply xstable_Core]| | |].
    - intros s [H Hle]. split; [exact H|]. split; [apply H|lia].
    - intros a s H; exact H.
    - intros s H; exact H. }
  intros ?.
  eapply tot_conseq; [apply (IH (mkMChain (mc_ids c1) (mc_off c1 + k)) (dropN k bs))| | |].
  - intros s HC. cbn [mc_ids mc_off]. split; [exact HC|]. split.
    + unfold mchain_len in *. cbn [mc_ids].
      assert (Hdm : mc_off c1 = MINI_SECTOR_LEN * (mc_off c1 / MINI_SECTOR_LEN) + ow) by (apply N.div_mod'; lia).
      apply nthN_Some_lt in En.
      assert (MINI_SECTOR_LEN * (mc_off c1 / MINI_SECTOR_LEN + 1) <= MINI_SECTOR_LEN * lenN (mc_ids c1))
        by (apply N.mul_le_mono_l; lia).
      lia.
    + rewrite lenN_dropN. apply (wneed_step MINI_SECTOR_LEN (mc_off c1) (lenN bs) k f H64 Hm eq_refl).
      rewrite Ho. exact Hf0.
  - intros c' s (HC & He' & Ho' & Hle). cbn [mc_ids mc_off] in *.
    split; [exact HC|]. split; [|split; [|exact Hle]].
    + eapply MExt_trans; [exact He|]. exact He'.
    + rewrite Ho', lenN_dropN, Ho. lia.
  - intros s H; exact H.
Qed.

Lemma mchain_write_all_tot DT c bs : shape_closed DT ->
  tot (fun s => MW DT c s /\ mc_off c <= mchain_len c) (mchain_write_all c bs)
      (fun c' s => MW DT c' s /\ MExt c c' /\ mc_off c' = mc_off c + lenN bs /\
                   mc_off c' <= mchain_len c') (Core DT).
Proof.
  intros Hsc. unfold mchain_write_all. eapply tot_pre; [apply mchain_write_go_tot; exact Hsc|].
  intros s (HC & Ho). split; [exact HC|]. split; [exact Ho|].
  apply wneed_fuel. reflexivity.
Qed.

(* ================================================================== *)
(* 6. the Store layer (stream bytes), for an ARBITRARY entry id        *)
(* ================================================================== *)
Lemma tot_of_ro {A} P (m : M A) (Q : A -> Prop) :
  (forall s, P s -> ro m s Q) -> tot P m (fun a s => P s /\ Q a) P.
Proof.
  intros H s Hs. destruct (H s Hs) as (r & E & Hf & HQ). rewrite E. cbn [fst snd].
  split; [exact Hs|]. split; [|intros _; apply fine_fineK; exact Hf].
  intros a ->. split; [exact Hs|]. apply HQ. reflexivity.
Qed.

Lemma stream_entry_tot P id :
  tot (fun s => P s /\ id < lenN (dirs s)) (stream_entry id)
      (fun p s => P s /\ exists e, nthN (dirs s) id = Some e /\ d_type e = TStream /\
                                   p = (d_start e, d_len e)) P.
Proof.
  unfold stream_entry. eapply tot_bind; [apply (dir_entry_tot P id)|]. intros e. cbv beta.
  destruct (d_type e) eqn:Et; cbn [objtype_eqb negb].
  1,2,4: apply tot_fail; intros s [Hs _]; exact Hs.
  apply tot_ret. intros s [Hs He]. split; [exact Hs|]. split; [exact Hs|]. exists e. auto.
Qed.

Lemma chain_read_exact_state c n s : fst (chain_read_exact c n s) = s.
Proof. unfold chain_read_exact, bind, get. cbv beta iota. apply chain_read_go_state. Qed.

Lemma chain_read_exact_tot P c n :
  tot (fun s => P s /\ c_off c <= chain_len (slen s) c) (chain_read_exact c n)
      (fun r s => P s /\ lenN (snd r) = n) P.
Proof.
  apply tot_pure; [apply chain_read_exact_state|]. intros s [Hs Ho]. split; [exact Hs|].
  split; [|intros _; apply fine_fineK, chain_read_exact_fine_gen; exact Ho].
  intros [c' bs] Ha. split; [exact Hs|]. cbn [snd].
  unfold chain_read_exact, bind, get in Ha. cbv beta iota in Ha.
  destruct (chain_read_go _ c n [] s) as [s1 r1] eqn:E. cbn [snd] in Ha. subst r1.
  apply chain_read_go_len in E. cbn [lenN] in E. lia.
Qed.

Definition SafeR (s : cstate) : Prop := AllSafe s /\ RootOk (dirs s).

Lemma read_data_tot P id off buflen : (forall s, P s -> SafeR s) ->
  tot (fun s => P s /\ id < lenN (dirs s)) (read_data id off buflen)
      (fun bs s => P s /\ lenN bs <= buflen) P.
Proof.
  intros HP. unfold read_data.
  eapply tot_bind; [apply (stream_entry_tot P id)|]. intros [start len]. cbv beta iota zeta.
  apply (tot_pre P); [|intros s [H _]; exact H].
  set (n := if len <=? off then 0 else N.min (len - off) buflen).
  assert (Hn : n <= buflen) by (unfold n; destruct (len <=? off); lia).
  destruct (N.eqb_spec n 0) as [Hz|Hz].
  { apply tot_ret. intros s Hs. split; [exact Hs|]. split; [exact Hs|]. cbn [lenN]. lia. }
  destruct (len <? MINI_STREAM_CUTOFF).
  - eapply tot_bind.
    { apply (mchain_new_tot P start). intros s Hs. apply (HP s Hs). }
    intros c. cbv beta. apply (tot_pre P); [|intros s [H _]; exact H].
    eapply tot_bind; [apply (mchain_seek_tot P c off)|]. intros c1. cbv beta.
    apply (tot_pre (fun s => (mc_ids c1 = mc_ids c /\ mc_off c1 = off /\ off <= mchain_len c) /\ P s));
      [|intros s (A & B); auto].
    apply tot_pure_pre. intros (Hi & Ho & Hle).
    eapply tot_bind.
    { apply (mchain_read_exact_tot P c1 n).
      - intros s Hs. destruct (HP s Hs) as [[[Hw _] _] HR]. auto.
      - unfold mchain_len in *. rewrite Hi, Ho. exact Hle. }
    intros [c2 bs]. cbv beta iota. apply tot_ret. intros s [Hs Hl]. cbn [snd] in Hl.
    split; [exact Hs|]. split; [exact Hs|lia].
  - eapply tot_bind.
    { apply (chain_new_tot P start IZero). intros s Hs. apply (HP s Hs). }
    intros c. cbv beta. apply (tot_pre P); [|intros s [H _]; exact H].
    eapply tot_bind; [apply (chain_seek_tot P c off)|]. intros c1. cbv beta.
    eapply tot_bind with (Q := fun r s => P s /\ lenN (snd r) = n).
    { eapply tot_pre; [apply (chain_read_exact_tot P c1 n)|].
      intros s (Hs & Hi & _ & Ho & Hle). split; [exact Hs|]. unfold chain_len in *. rewrite Hi, Ho. exact Hle. }
    intros [c2 bs]. cbv beta iota. apply tot_ret. intros s [Hs Hl]. cbn [snd] in Hl.
    split; [exact Hs|]. split; [exact Hs|lia].
Qed.

Definition IsStream (id : N) (ds : list dirent) : Prop :=
  exists e, nthN ds id = Some e /\ d_type e = TStream.

Lemma IsStream_shape id ds ds' : IsStream id ds -> Shape ds ds' -> IsStream id ds'.
Proof.
  intros (e & He & Ht) Hs. destruct (Hs id e He) as (e' & He' & (_&_&_&Hty)). exists e'. split; [exact He'|congruence].
Qed.
Lemma IsStream_upd id ds j e e' : IsStream id ds -> nthN ds j = Some e -> KeepShape e e' ->
  d_name e' = d_name e -> IsStream id (updN ds j e').
Proof. intros H He Hk _. eapply IsStream_shape; [exact H|]. eapply Shape_updN; eauto. Qed.

Lemma shape_closed_and DT (D : list dirent -> Prop) : shape_closed DT -> shape_closed D ->
  shape_closed (fun ds => DT ds /\ D ds).
Proof. intros H1 H2 ds id e e' [A B] He Hk Hn. split; eauto. Qed.

Lemma Core_strengthen DT (D : list dirent -> Prop) s : Core DT s -> D (dirs s) -> Core (fun ds => DT ds /\ D ds) s.
Proof. intros [Ha ((HR & HE & HD) & HM & Hs)] Hd. split; [exact Ha|]. split; [|split; assumption]. repeat split; assumption. Qed.
Lemma Core_weaken DT (D : list dirent -> Prop) s : Core (fun ds => DT ds /\ D ds) s -> Core DT s /\ D (dirs s).
Proof. intros [Ha ((HR & HE & HD & Hd) & HM & Hs)]. split; [|exact Hd]. split; [exact Ha|]. split; [|split; assumption]. repeat split; assumption. Qed.

Lemma Core_SafeR DT s : Core DT s -> SafeR s.
Proof. intros [Ha ((HR & _) & _)]. split; assumption. Qed.

Lemma chain_write_all_core DT sl c bs :
  tot (fun s => Core DT s /\ (slen s = sl /\ LastOk (c_ids c) s /\ c_off c <= chain_len sl c))
      (chain_write_all c bs)
      (fun c' s => Core DT s /\ (slen s = sl /\ LastOk (c_ids c') s /\ Ext c c' /\
                   c_off c' = c_off c + lenN bs /\ c_off c' <= chain_len sl c'))
      (Core DT).
Proof.
  eapply tot_conseq; [apply (chain_write_all_ax (Aux DT) sl c bs (astable_Aux DT))| | |].
  - intros s [[Ha Hx] H]. split; [exact Ha|]. split; [exact Hx|exact H].
  - intros c' s (Ha & Hx & H). split; [split; assumption|exact H].
  - intros s H; exact H.
Qed.

Lemma update_entry_tot DT id start len : shape_closed DT ->
  tot (fun s => Core DT s /\ IsStream id (dirs s)) (update_entry id start len) (fun _ => Core DT) (Core DT).
Proof.
  intros Hsc. unfold update_entry.
  set (X := fun s => Aux DT s /\ IsStream id (dirs s)).
  assert (HX : astable X) by (apply astable_and; [apply astable_Aux|apply (astable_dirs (IsStream id))]).
  eapply tot_conseq; [apply (with_dir_entry_mut_tot X id (fun e => set_start_len e start len) HX)| | |].
  - intros s [Ha (e & He & _)]. split; [eapply nthN_Some_lt; eauto|apply Aux_dirs in Ha; apply Ha].
  - intros s e [Ha (e0 & He0 & Ht0)] He. assert (e0 = e) by congruence. subst e0. split.
    + apply (Aux_upd DT s id e _ Hsc Ha He (set_start_len_shape _ _ _) eq_refl).
      intros ->. destruct Ha as (((r & Hr & Htr & _) & _) & _). assert (r = e) by congruence. subst r. congruence.
    + cbn [dirs w_dirs]. exists (set_start_len e start len).
      split; [apply nthN_updN_eq; eapply nthN_Some_lt; eauto|exact Ht0].
  - intros s [[Ha Hx] Hi]. split; [exact Ha|]. split; assumption.
  - intros a s [Ha [Hx _]]. split; assumption.
  - intros s [Ha [Hx _]]. split; assumption.
Qed.

Lemma mchain_start_ext c c' start t : mc_ids c = start :: t -> MExt c c' -> mchain_start c' = start.
Proof. intros Hc [ext He]. unfold mchain_start. rewrite He, Hc. reflexivity. Qed.
Lemma chain_start_ext c c' start t : c_ids c = start :: t -> Ext c c' -> chain_start c' = start.
Proof. intros Hc [_ [ext He]]. unfold chain_start. rewrite He, Hc. reflexivity. Qed.

Lemma MLastOk_nil s : MLastOk [] s. Proof. intros l H. discriminate H. Qed.
Lemma LastOk_nil s : LastOk [] s. Proof. intros l H. discriminate H. Qed.

(* a fresh mini chain holding [buf] *)
Lemma wd_new_mini DT buf : shape_closed DT ->
  tot (Core DT)
      (do c <- mchain_new END_OF_CHAIN; do c <- mchain_write_all c buf; ret (mchain_start c))
      (fun _ => Core DT) (Core DT).
Proof.
  intros Hsc.
  eapply tot_bind; [apply (mchain_new_tot (Core DT) END_OF_CHAIN); intros s H; apply H|].
  intros c. cbv beta.
  apply (tot_pre (fun s => (mc_off c = 0 /\ mc_ids c = []) /\ Core DT s)).
  2:{ intros s (H & Ho & Hp). split; [|exact H]. split; [exact Ho|]. eapply path_EOC_nil; eauto. }
  apply tot_pure_pre. intros (Ho & Hi).
  eapply tot_bind with (Q := fun _ => Core DT); [|intros c'; apply tot_ret; auto].
  eapply tot_conseq; [apply (mchain_write_all_tot DT c buf Hsc)| | |].
  - intros s H. split; [split; [exact H|rewrite Hi; apply MLastOk_nil]|]. rewrite Ho. lia.
  - intros c' s ([H _] & _). exact H.
  - intros s H; exact H.
Qed.

Lemma tot_fix {A B} (g : cstate -> B) P (m : M A) (Q : A -> cstate -> Prop) J :
  (forall b, tot (fun s => P s /\ g s = b) m Q J) -> tot P m Q J.
Proof. intros H s Hs. apply (H (g s) s). split; [exact Hs|reflexivity]. Qed.

(* a fresh regular chain holding [tmp ++ buf] (written in two calls), then set to a length *)
Lemma fresh_regular_tot DT sl :
  tot (fun s => Core DT s /\ slen s = sl) (chain_new END_OF_CHAIN IZero)
      (fun c s => Core DT s /\ (slen s = sl /\ LastOk (c_ids c) s /\ c_off c <= chain_len sl c)) (Core DT).
Proof.
  eapply tot_conseq; [apply (chain_new_tot (fun s => Core DT s /\ slen s = sl) END_OF_CHAIN IZero)| | |].
  - intros s [H _]. apply H.
  - intros s H; exact H.
  - intros c s ([H Hsl] & _ & Ho & Hp). split; [exact H|]. split; [exact Hsl|].
    apply path_EOC_nil in Hp. rewrite Hp, Ho. split; [apply LastOk_nil|lia].
  - intros s [H _]; exact H.
Qed.

Lemma cw_step DT sl c bs :
  tot (fun s => Core DT s /\ (slen s = sl /\ LastOk (c_ids c) s /\ c_off c <= chain_len sl c))
      (chain_write_all c bs)
      (fun c' s => Core DT s /\ (slen s = sl /\ LastOk (c_ids c') s /\ c_off c' <= chain_len sl c')) (Core DT).
Proof.
  eapply tot_conseq; [apply (chain_write_all_core DT sl c bs)| | |].
  - intros s H; exact H.
  - intros c' s (H & Hsl & Hl & _ & _ & Ho). split; [exact H|]. split; [exact Hsl|]. split; assumption.
  - intros s H; exact H.
Qed.

Lemma wd_new_regular DT tmp buf :
  tot (Core DT)
      (do c <- chain_new END_OF_CHAIN IZero; do c <- chain_write_all c tmp;
       do c <- chain_write_all c buf; ret (chain_start c))
      (fun _ => Core DT) (Core DT).
Proof.
  apply (tot_fix slen). intros sl.
  eapply tot_bind; [apply fresh_regular_tot|]. intros c. cbv beta.
  eapply tot_bind; [apply cw_step|]. intros c1. cbv beta.
  eapply tot_bind; [apply cw_step|]. intros c2. cbv beta.
  apply tot_ret. intros s [H _]. auto.
Qed.

Lemma wd_new_regular1 DT buf :
  tot (Core DT)
      (do c <- chain_new END_OF_CHAIN IZero; do c <- chain_write_all c buf; ret (chain_start c))
      (fun _ => Core DT) (Core DT).
Proof.
  apply (tot_fix slen). intros sl.
  eapply tot_bind; [apply fresh_regular_tot|]. intros c. cbv beta.
  eapply tot_bind; [apply cw_step|]. intros c1. cbv beta.
  apply tot_ret. intros s [H _]. auto.
Qed.

(* the bound check at the head of resize_stream: the rest only runs when it passed *)
Lemma tot_get_check {B} P (c : cstate -> bool) k (m : M B) (Q : B -> cstate -> Prop) J :
  (forall s, P s -> J s) ->
  ((exists s0, c s0 = false) -> tot P m Q J) ->
  tot P (bind get (fun s0 => bind (if c s0 then fail k else ret tt) (fun _ => m))) Q J.
Proof.
  intros HJ Hm s Hs. unfold bind, get. cbv beta iota. destruct (c s) eqn:E.
  - unfold fail. cbv beta iota. cbn [fst snd]. split; [auto|]. split; [discriminate|intros _; exact I].
  - unfold ret. cbv beta iota. apply Hm; eauto.
Qed.

(* the same with a second refusal on the same snapshot *)
Lemma tot_get_check2 {B} P (c c2 : cstate -> bool) k k2 (m : M B) (Q : B -> cstate -> Prop) J :
  (forall s, P s -> J s) ->
  ((exists s0, c s0 = false) -> tot P m Q J) ->
  tot P (bind get (fun s0 => bind (if c s0 then fail k else ret tt)
                               (fun _ => bind (if c2 s0 then fail k2 else ret tt) (fun _ => m)))) Q J.
Proof.
  intros HJ Hm s Hs. unfold bind, get. cbv beta iota. destruct (c s) eqn:E.
  - unfold fail. cbv beta iota. cbn [fst snd]. split; [auto|]. split; [discriminate|intros _; exact I].
  - unfold ret. cbv beta iota. destruct (c2 s) eqn:E2.
    + unfold fail. cbv beta iota. cbn [fst snd]. split; [auto|]. split; [discriminate|intros _; exact I].
    + cbv beta iota. apply Hm; eauto.
Qed.

Lemma write_data_tot DT id off buf : shape_closed DT ->
  tot (fun s => Core DT s /\ id < lenN (dirs s)) (write_data id off buf) (fun _ => Core DT) (Core DT).
Proof.
  intros Hsc0. unfold write_data.
  eapply tot_bind; [apply (stream_entry_tot (Core DT) id)|]. intros [old_start old_len]. cbv beta iota zeta.
  set (DT' := fun ds => DT ds /\ IsStream id ds).
  assert (Hsc : shape_closed DT') by (apply shape_closed_and; [exact Hsc0|intros ds j e e'; apply IsStream_upd]).
  assert (Hw : forall s, Core DT' s -> Core DT s) by (intros s H; apply Core_weaken in H; apply H).
  apply (tot_conseq (Core DT') _ _ (fun _ => Core DT') _ (Core DT')); [| |intros _ s; apply Hw|exact Hw].
  2:{ intros s (H & e & He & Ht & _). apply Core_strengthen; [exact H|]. exists e. auto. }
  eapply tot_bind with (Q := fun _ s => Core DT' s /\ off <= old_len).
  { destruct (N.ltb_spec old_len off); [apply tot_fail; auto|apply tot_ret; auto]. }
  intros ?. apply (tot_pre (fun s => off <= old_len /\ Core DT' s)); [|intros s [A B]; auto].
  apply tot_pure_pre. intros Hoff.
  apply (tot_get_check _ (fun s0 => N.min (MAX_REGULAR_SECTOR * slen s0) (stream_len_mask (ver s0))
                                    <? N.max old_len (off + lenN buf))); [auto|]. intros _.
  eapply tot_bind with (Q := fun _ => Core DT').
  2:{ intros new_start. eapply tot_pre; [apply (update_entry_tot DT' id _ _ Hsc)|].
      intros s H. split; [exact H|]. apply Core_weaken in H. apply H. }
  destruct (N.eqb_spec old_start END_OF_CHAIN) as [Hst|Hst].
  - (* no chain yet *)
    eapply tot_bind with (Q := fun _ => Core DT').
    { destruct (N.eqb_spec old_len 0) as [Hz|Hz]; cbn [negb]; [|apply tot_fail; auto].
      destruct (N.eqb_spec off 0) as [Hz'|Hz']; cbn [negb]; [apply tot_ret; auto|lia]. }
    intros ?. destruct (_ <? MINI_STREAM_CUTOFF).
    + apply wd_new_mini. exact Hsc.
    + apply wd_new_regular1.
  - destruct (N.ltb_spec old_len MINI_STREAM_CUTOFF) as [Hold|Hold].
    + destruct (N.ltb_spec (N.max old_len (off + lenN buf)) MINI_STREAM_CUTOFF) as [Hnew|Hnew].
      * (* mini -> mini *)
        eapply tot_bind; [apply (mchain_new_tot (Core DT') old_start); intros s H; apply H|].
        intros c. cbv beta.
        apply (tot_pre (fun s => (mc_off c = 0 /\ (exists t, mc_ids c = old_start :: t) /\ LastNE (mc_ids c)) /\ Core DT' s)).
        2:{ intros s (H & Ho & Hp). split; [|exact H]. split; [exact Ho|].
            split; [eapply path_head; eauto|eapply path_LastNE; eauto]. }
        apply tot_pure_pre. intros (Ho & [t Ht] & Hne).
        eapply tot_bind; [apply (mchain_seek_tot (Core DT') c off)|]. intros c1. cbv beta.
        apply (tot_pre (fun s => (mc_ids c1 = mc_ids c /\ mc_off c1 = off /\ off <= mchain_len c) /\ Core DT' s));
          [|intros s (A & B); auto].
        apply tot_pure_pre. intros (Hi & Ho1 & Hle).
        eapply tot_bind.
        { eapply tot_pre; [apply (mchain_write_all_tot DT' c1 buf Hsc)|].
          intros s H. split; [split; [exact H|rewrite Hi; apply LastNE_MLastOk; exact Hne]|].
          unfold mchain_len in *. rewrite Hi, Ho1. exact Hle. }
        intros c2. cbv beta.
        apply (tot_pre (fun s => MExt c1 c2 /\ Core DT' s)); [|intros s ([A _] & B & _); auto].
        apply tot_pure_pre. intros He.
        assert (Hs2 : mchain_start c2 = old_start).
        { eapply mchain_start_ext; [|exact He]. rewrite Hi. exact Ht. }
        rewrite Hs2, N.eqb_refl. cbn [negb].
        eapply tot_bind with (Q := fun _ => Core DT'); [apply tot_ret; auto|]. intros ?. apply tot_ret. auto.
      * (* mini -> regular *)
        eapply tot_bind with (Q := fun _ => Core DT').
        { destruct (N.leb_spec MINI_STREAM_CUTOFF off); [lia|apply tot_ret; auto]. }
        intros ?.
        eapply tot_bind; [apply (mchain_new_tot (Core DT') old_start); intros s H; apply H|].
        intros c. cbv beta.
        apply (tot_pre (fun s => mc_off c = 0 /\ Core DT' s)); [|intros s (H & Ho & _); auto].
        apply tot_pure_pre. intros Ho.
        eapply tot_bind with (Q := fun _ => Core DT').
        { eapply tot_conseq; [apply (mchain_read_exact_tot (Core DT') c off)| | |].
          - intros s H. apply (Core_ws DT'). exact H.
          - rewrite Ho. lia.
          - intros s H; exact H.
          - intros r s [H _]; exact H.
          - intros s H; exact H. }
        intros [c1 tmp]. cbv beta iota.
        eapply tot_bind; [apply (free_mini_chain_tot DT' _ Hsc)|]. intros ?.
        apply wd_new_regular.
    + (* regular -> regular *)
      eapply tot_bind with (Q := fun _ => Core DT').
      { destruct (N.ltb_spec (N.max old_len (off + lenN buf)) MINI_STREAM_CUTOFF); [lia|apply tot_ret; auto]. }
      intros ?. apply (tot_fix slen). intros sl.
      eapply tot_bind.
      { eapply tot_weakJ; [apply (chain_new_tot (fun s => Core DT' s /\ slen s = sl) old_start IZero)|].
        - intros s [H _]. apply H.
        - intros s [H _]. exact H. }
      intros c. cbv beta.
      apply (tot_pre (fun s => (c_off c = 0 /\ (exists t, c_ids c = old_start :: t)) /\
                               (Core DT' s /\ slen s = sl /\ LastOk (c_ids c) s))).
      2:{ intros s ([H Hsl] & _ & Ho & Hp). split; [split; [exact Ho|eapply path_head; eauto]|].
          split; [exact H|]. split; [exact Hsl|eapply path_LastOk; eauto]. }
      apply tot_pure_pre. intros (Ho & [t Ht]).
      eapply tot_bind;
        [eapply tot_weakJ; [apply (chain_seek_tot (fun s => Core DT' s /\ slen s = sl /\ LastOk (c_ids c) s) c off)|
                            intros s [H _]; exact H]|].
      intros c1. cbv beta.
      apply (tot_pre (fun s => (c_ids c1 = c_ids c /\ c_off c1 = off /\ off <= chain_len sl c) /\
                               (Core DT' s /\ slen s = sl /\ LastOk (c_ids c) s))).
      2:{ intros s ((H & Hsl & Hl) & Hi & _ & Ho1 & Hle). rewrite Hsl in Hle. auto. }
      apply tot_pure_pre. intros (Hi & Ho1 & Hle).
      eapply tot_bind.
      { eapply tot_pre; [apply (chain_write_all_core DT' sl c1 buf)|].
        intros s (H & Hsl & Hl). split; [exact H|]. split; [exact Hsl|].
        rewrite Hi. split; [exact Hl|]. rewrite Ho1. unfold chain_len in *. rewrite Hi. exact Hle. }
      intros c2. cbv beta.
      apply (tot_pre (fun s => Ext c1 c2 /\ Core DT' s)); [|intros s (H & _ & _ & He & _); auto].
      apply tot_pure_pre. intros He.
      assert (Hs2 : chain_start c2 = old_start).
      { eapply chain_start_ext; [|exact He]. rewrite Hi. exact Ht. }
      rewrite Hs2, N.eqb_refl. cbn [negb].
      eapply tot_bind with (Q := fun _ => Core DT'); [apply tot_ret; auto|]. intros ?. apply tot_ret. auto.
Qed.

Lemma zero_fill_mchain_tot DT c from to : shape_closed DT ->
  tot (MW DT c) (zero_fill_mchain c from to) (fun c' s => Core DT s /\ MExt c c') (Core DT).
Proof.
  intros Hsc. unfold zero_fill_mchain. destruct (from <? to).
  2:{ apply tot_ret. intros s [H _]. split; [exact H|]. split; [exact H|apply MExt_refl]. }
  eapply tot_bind; [eapply tot_weakJ; [apply (mchain_seek_tot (MW DT c) c from)|intros s [H _]; exact H]|].
  intros c1. cbv beta.
  apply (tot_pre (fun s => (mc_ids c1 = mc_ids c /\ mc_off c1 = from /\ from <= mchain_len c) /\ MW DT c s));
    [|intros s (A & B); auto].
  apply tot_pure_pre. intros (Hi & Ho & Hle).
  eapply tot_conseq; [apply (mchain_write_all_tot DT c1 _ Hsc)| | |].
  - intros s [H Hl]. split; [split; [exact H|rewrite Hi; exact Hl]|].
    unfold mchain_len in *. rewrite Hi, Ho. exact Hle.
  - intros c' s ([H _] & [ext He] & _). split; [exact H|]. exists ext. rewrite He, Hi. reflexivity.
  - intros s H; exact H.
Qed.

Lemma zero_fill_chain_tot DT sl c from to :
  tot (fun s => Core DT s /\ slen s = sl /\ LastOk (c_ids c) s) (zero_fill_chain c from to)
      (fun c' s => Core DT s /\ Ext c c') (Core DT).
Proof.
  unfold zero_fill_chain. destruct (from <? to).
  2:{ apply tot_ret. intros s [H _]. split; [exact H|]. split; [exact H|apply Ext_refl]. }
  eapply tot_bind;
    [eapply tot_weakJ; [apply (chain_seek_tot (fun s => Core DT s /\ slen s = sl /\ LastOk (c_ids c) s) c from)|
                        intros s [H _]; exact H]|].
  intros c1. cbv beta.
  apply (tot_pre (fun s => (c_ids c1 = c_ids c /\ c_init c1 = c_init c /\ c_off c1 = from /\ from <= chain_len sl c) /\
                           (Core DT s /\ slen s = sl /\ LastOk (c_ids c) s))).
  2:{ intros s ((H & Hsl & Hl) & Hi & Hin & Ho1 & Hle). rewrite Hsl in Hle. auto. }
  apply tot_pure_pre. intros (Hi & Hin & Ho & Hle).
  eapply tot_conseq; [apply (chain_write_all_core DT sl c1 _)| | |].
  - intros s (H & Hsl & Hl). split; [exact H|]. split; [exact Hsl|].
    rewrite Hi. split; [exact Hl|]. rewrite Ho. unfold chain_len in *. rewrite Hi. exact Hle.
  - intros c' s (H & _ & _ & [Hin' [ext He]] & _). split; [exact H|]. split; [congruence|].
    exists ext. rewrite He, Hi. reflexivity.
  - intros s H; exact H.
Qed.

Lemma chain_set_len_core DT c new_len : new_len + 4096 < two64 ->
  tot (fun s => Core DT s /\ LastOk (c_ids c) s) (chain_set_len c new_len)
      (fun c' s => Core DT s /\ (LastOk (c_ids c') s /\ Ext c c' /\ c_off c' = c_off c)) (Core DT).
Proof.
  intros Hn. eapply tot_conseq; [apply (chain_set_len_ax (Aux DT) c new_len (astable_Aux DT) Hn)| | |].
  - intros s [[Ha Hx] H]. split; [exact Ha|]. split; [exact Hx|exact H].
  - intros c' s (Ha & Hx & H). split; [split; assumption|exact H].
  - intros s H; exact H.
Qed.

Lemma free_chain_core DT start : tot (Core DT) (free_chain start) (fun _ => Core DT) (Core DT).
Proof. apply (free_chain_ax (Aux DT) start (astable_Aux DT)). Qed.

Lemma resize_bound s0 new_len : (MAX_REGULAR_SECTOR * slen s0 <? new_len) = false -> new_len + 4096 < two64.
Proof.
  intros H. apply N.ltb_ge in H.
  assert (Hm : MAX_REGULAR_SECTOR * 4096 + 4096 < two64) by (vm_compute; reflexivity).
  destruct (slen_cases s0) as [E|E]; rewrite E in H; lia.
Qed.

Lemma resize_tot DT id new_len : shape_closed DT ->
  tot (fun s => Core DT s /\ id < lenN (dirs s)) (resize id new_len) (fun _ => Core DT) (Core DT).
Proof.
  intros Hsc0. unfold resize.
  eapply tot_bind; [apply (stream_entry_tot (Core DT) id)|]. intros [old_start old_len]. cbv beta iota zeta.
  set (DT' := fun ds => DT ds /\ IsStream id ds).
  assert (Hsc : shape_closed DT') by (apply shape_closed_and; [exact Hsc0|intros ds j e e'; apply IsStream_upd]).
  assert (Hw : forall s, Core DT' s -> Core DT s) by (intros s H; apply Core_weaken in H; apply H).
  apply (tot_conseq (Core DT') _ _ (fun _ => Core DT') _ (Core DT')); [| |intros ? s; apply Hw|exact Hw].
  2:{ intros s (H & e & He & Ht & _). apply Core_strengthen; [exact H|]. exists e. auto. }
  apply (tot_get_check2 _ (fun s0 => MAX_REGULAR_SECTOR * slen s0 <? new_len)
                          (fun s0 => stream_len_mask (ver s0) <? new_len)); [auto|].
  intros [sb Hsb]. pose proof (resize_bound sb new_len Hsb) as Hnl. clear sb Hsb.
  eapply tot_bind with (Q := fun _ => Core DT').
  2:{ intros new_start. eapply tot_pre; [apply (update_entry_tot DT' id _ _ Hsc)|].
      intros s H. split; [exact H|]. apply Core_weaken in H. apply H. }
  destruct (N.eqb_spec old_start END_OF_CHAIN) as [Hst|Hst].
  - (* no chain yet *)
    eapply tot_bind with (Q := fun _ => Core DT').
    { destruct (negb _); [apply tot_fail; auto|apply tot_ret; auto]. }
    intros ?. destruct (N.ltb_spec new_len MINI_STREAM_CUTOFF) as [Hnew|Hnew].
    + eapply tot_bind; [apply (mchain_new_tot (Core DT') END_OF_CHAIN); intros s H; apply H|].
      intros c. cbv beta.
      apply (tot_pre (fun s => mc_ids c = [] /\ Core DT' s)).
      2:{ intros s (H & Ho & Hp). split; [|exact H]. eapply path_EOC_nil; eauto. }
      apply tot_pure_pre. intros Hi.
      eapply tot_bind.
      { apply (mchain_set_len_tot DT' c new_len Hsc Hnew). rewrite Hi. intros l Hl. discriminate Hl. }
      intros c1. cbv beta.
      eapply tot_bind with (Q := fun _ => Core DT'); [|intros c2; apply tot_ret; auto].
      eapply tot_conseq; [apply (zero_fill_mchain_tot DT' c1 0 new_len Hsc)| | |].
      * intros s (H & Hl & _). split; assumption.
      * intros c2 s [H _]. exact H.
      * intros s H; exact H.
    + apply (tot_fix slen). intros sl.
      eapply tot_bind; [apply fresh_regular_tot|]. intros c. cbv beta.
      eapply tot_bind with (Q := fun _ => Core DT'); [|intros c2; apply tot_ret; auto].
      eapply tot_conseq; [apply (chain_set_len_core DT' c new_len Hnl)| | |].
      * intros s (H & _ & Hl & _). split; assumption.
      * intros c2 s [H _]. exact H.
      * intros s H; exact H.
  - destruct (N.ltb_spec old_len MINI_STREAM_CUTOFF) as [Hold|Hold].
    + destruct (N.eqb_spec new_len 0) as [Hz|Hz].
      { eapply tot_bind; [apply (free_mini_chain_tot DT' old_start Hsc)|]. intros ?. apply tot_ret. auto. }
      destruct (N.ltb_spec new_len MINI_STREAM_CUTOFF) as [Hnew|Hnew].
      * (* mini -> mini *)
        eapply tot_bind; [apply (mchain_new_tot (Core DT') old_start); intros s H; apply H|].
        intros c. cbv beta.
        apply (tot_pre (fun s => ((exists t, mc_ids c = old_start :: t) /\ LastNE (mc_ids c)) /\ Core DT' s)).
        2:{ intros s (H & Ho & Hp). split; [|exact H].
            split; [eapply path_head; eauto|eapply path_LastNE; eauto]. }
        apply tot_pure_pre. intros ([t Ht] & Hne).
        eapply tot_bind; [apply (mchain_set_len_tot DT' c new_len Hsc Hnew Hne)|].
        intros c1. cbv beta.
        apply (tot_pre (fun s => MExt c c1 /\ MW DT' c1 s)); [|intros s (H & Hl & He & _); split; [exact He|split; assumption]].
        apply tot_pure_pre. intros He1.
        eapply tot_bind; [apply (zero_fill_mchain_tot DT' c1 old_len new_len Hsc)|].
        intros c2. cbv beta.
        apply (tot_pre (fun s => MExt c1 c2 /\ Core DT' s)); [|intros s [A B]; auto].
        apply tot_pure_pre. intros He2.
        assert (Hs2 : mchain_start c2 = old_start).
        { eapply mchain_start_ext; [exact Ht|]. eapply MExt_trans; eauto. }
        rewrite Hs2, N.eqb_refl. cbn [negb].
        eapply tot_bind with (Q := fun _ => Core DT'); [apply tot_ret; auto|]. intros ?. apply tot_ret. auto.
      * (* mini -> regular *)
        eapply tot_bind; [apply (mchain_new_tot (Core DT') old_start); intros s H; apply H|].
        intros c. cbv beta.
        apply (tot_pre (fun s => mc_off c = 0 /\ Core DT' s)); [|intros s (H & Ho & _); auto].
        apply tot_pure_pre. intros Ho.
        eapply tot_bind with (Q := fun _ => Core DT').
        { eapply tot_conseq; [apply (mchain_read_exact_tot (Core DT') c old_len)| | |].
          - intros s H. apply (Core_ws DT'). exact H.
          - rewrite Ho. lia.
          - intros s H; exact H.
          - intros r s [H _]; exact H.
          - intros s H; exact H. }
        intros [c1 tmp]. cbv beta iota.
        eapply tot_bind; [apply (free_mini_chain_tot DT' _ Hsc)|]. intros ?.
        apply (tot_fix slen). intros sl.
        eapply tot_bind; [apply fresh_regular_tot|]. intros c2. cbv beta.
        eapply tot_bind; [apply cw_step|]. intros c3. cbv beta.
        eapply tot_bind with (Q := fun _ => Core DT'); [|intros c4; apply tot_ret; auto].
        eapply tot_conseq; [apply (chain_set_len_core DT' c3 new_len Hnl)| | |].
        -- intros s (H & _ & Hl & _). split; assumption.
        -- intros c4 s [H _]. exact H.
        -- intros s H; exact H.
    + destruct (N.eqb_spec new_len 0) as [Hz|Hz].
      { eapply tot_bind; [apply (free_chain_core DT' old_start)|]. intros ?. apply tot_ret. auto. }
      destruct (N.ltb_spec new_len MINI_STREAM_CUTOFF) as [Hnew|Hnew].
      * (* regular -> mini *)
        eapply tot_bind with (Q := fun _ => Core DT').
        { destruct (N.leb_spec old_len new_len); [lia|apply tot_ret; auto]. }
        intros ?.
        eapply tot_bind; [apply (chain_new_tot (Core DT') old_start IZero); intros s H; apply H|].
        intros c. cbv beta.
        eapply tot_bind with (Q := fun _ => Core DT').
        { eapply tot_conseq; [apply (chain_read_exact_tot (Core DT') c new_len)| | |].
          - intros s (H & _ & Ho & _). split; [exact H|]. rewrite Ho. lia.
          - intros r s [H _]; exact H.
          - intros s H; exact H. }
        intros [c1 tmp]. cbv beta iota.
        eapply tot_bind; [apply (free_chain_core DT' _)|]. intros ?.
        apply wd_new_mini. exact Hsc.
      * (* regular -> regular *)
        apply (tot_fix slen). intros sl.
        eapply tot_bind.
        { eapply tot_weakJ; [apply (chain_new_tot (fun s => Core DT' s /\ slen s = sl) old_start IZero)|].
          - intros s [H _]. apply H.
          - intros s [H _]. exact H. }
        intros c. cbv beta.
        apply (tot_pre (fun s => (exists t, c_ids c = old_start :: t) /\
                                 (Core DT' s /\ slen s = sl /\ LastOk (c_ids c) s))).
        2:{ intros s ([H Hsl] & _ & Ho & Hp). split; [eapply path_head; eauto|].
            split; [exact H|]. split; [exact Hsl|eapply path_LastOk; eauto]. }
        apply tot_pure_pre. intros [t Ht].
        apply tot_get_bind. intros s0 (H0 & Hsl0 & Hl0). cbv zeta.
        eapply tot_bind.
        { eapply tot_weakJ; [eapply tot_pre; [apply (tot_add_pres _ _ _ _ _ (chain_set_len_core DT' c new_len Hnl)
                                    (framesA_pres _ _ (framesA_chain_set_len c new_len) (astable_slen sl)))|]|].
          - intros s ->. split; [split; assumption|exact Hsl0].
          - intros s [H _]. exact H. }
        intros c1. cbv beta.
        apply (tot_pre (fun s => Ext c c1 /\ (Core DT' s /\ slen s = sl /\ LastOk (c_ids c1) s))).
        2:{ intros s ((H & Hl & He & _) & Hsl). auto. }
        apply tot_pure_pre. intros He1.
        eapply tot_bind; [apply (zero_fill_chain_tot DT' sl c1)|].
        intros c2. cbv beta.
        apply (tot_pre (fun s => Ext c1 c2 /\ Core DT' s)); [|intros s [A B]; auto].
        apply tot_pure_pre. intros He2.
        assert (Hs2 : chain_start c2 = old_start).
        { eapply chain_start_ext; [exact Ht|]. eapply Ext_trans; eauto. }
        rewrite Hs2, N.eqb_refl. cbn [negb].
        eapply tot_bind with (Q := fun _ => Core DT'); [apply tot_ret; auto|]. intros ?. apply tot_ret. auto.
Qed.

(* ================================================================== *)
(* 7. the directory chain after extend_chain: count_directory_sectors  *)
(*    terminates                                                       *)
(* ================================================================== *)
Fixpoint halts (fat : list N) (n : nat) (cur : N) : Prop :=
  match n with
  | O => cur = END_OF_CHAIN
  | S n' => cur = END_OF_CHAIN \/
            match next_of fat cur with Ok nx => halts fat n' nx | _ => True end
  end.

Lemma halts_fine fat : forall n cur f c, halts fat n cur -> (n < f)%nat -> fine (count_dir_go f fat c cur).
Proof.
  induction n as [|n IH]; intros cur f c H Hf; (destruct f as [|f]; [lia|]); cbn [count_dir_go halts] in *.
  - subst cur. rewrite N.eqb_refl. exact I.
  - destruct (N.eqb_spec cur END_OF_CHAIN) as [|Hc]; [exact I|].
    destruct H as [H|H]; [contradiction|].
    pose proof (next_of_fine fat cur) as Hn.
    destruct (next_of fat cur) as [nx| | |]; cbn [rbind]; try contradiction; [|exact I].
    apply IH; [exact H|lia].
Qed.

Lemma halts_S fat : forall n cur, halts fat n cur -> halts fat (S n) cur.
Proof.
  induction n as [|n IH]; intros cur H.
  - left. exact H.
  - cbn [halts] in H. destruct H as [H|H]; [left; exact H|]. right.
    destruct (next_of fat cur); auto.
Qed.
Lemma halts_le fat n m cur : (n <= m)%nat -> halts fat n cur -> halts fat m cur.
Proof. induction 1 as [|m Hle IH]; [auto|]. intros Hh. apply halts_S. auto. Qed.

(* n regular steps from cur reach [last], whose cell is END_OF_CHAIN *)
Fixpoint W (fat : list N) (n : nat) (cur last : N) : Prop :=
  match n with
  | O => cur = last /\ nthN fat cur = Some END_OF_CHAIN
  | S n' => exists nx, next_of fat cur = Ok nx /\ nx <> END_OF_CHAIN /\ W fat n' nx last
  end.

Lemma find_last_W fat : forall f st cur last,
  find_last_go f fat st cur = Ok last ->
  exists n, W fat n cur last /\ N.of_nat n + st <= N.max st (lenN fat).
Proof.
  induction f as [|f IH]; intros st cur last H; [discriminate|]. cbn [find_last_go] in H.
  destruct (next_of fat cur) as [nx| | |] eqn:E; cbn [rbind] in H; try discriminate.
  destruct (N.eqb_spec nx END_OF_CHAIN) as [->|Hne].
  - injection H as <-. exists O. cbn [W]. split; [|lia]. split; [reflexivity|].
    apply next_of_Ok in E. apply E.
  - destruct (N.ltb_spec (lenN fat) (st + 1)) as [Hst|Hst]; [discriminate|].
    apply IH in H. destruct H as (n & Hw & Hb). exists (S n). cbn [W]. split; [eauto|]. lia.
Qed.

Definition agree (F fat : list N) : Prop :=
  lenN F <= lenN fat /\ forall x v, nthN F x = Some v -> v <> FREE_SECTOR -> nthN fat x = Some v.

Lemma agree_refl F : agree F F. Proof. split; [lia|auto]. Qed.

Lemma next_of_agree F fat x nx : agree F fat -> next_of F x = Ok nx -> next_of fat x = Ok nx.
Proof.
  intros [Hl Ha] H. pose proof (proj1 (next_of_Ok _ _ _) H) as [Hc Hor].
  assert (Hnf : nx <> FREE_SECTOR).
  { pose proof MAXREG_lt_FREE. destruct Hor as [->|[? _]]; [exact EOC_ne_FREE|lia]. }
  unfold next_of in *. rewrite (Ha _ _ Hc Hnf). rewrite Hc in H.
  destruct (N.eqb_spec nx END_OF_CHAIN) as [->|Hne]; cbn [negb andb] in *; [exact H|].
  destruct (MAX_REGULAR_SECTOR <? nx); cbn [orb] in *; [discriminate|].
  destruct (N.leb_spec (lenN F) nx); [discriminate|].
  destruct (N.leb_spec (lenN fat) nx); [lia|reflexivity].
Qed.

Lemma W_agree F fat : agree F fat -> forall n cur last, W F n cur last -> W fat n cur last.
Proof.
  intros Ha. induction n as [|n IH]; intros cur last H; cbn [W] in *.
  - destruct H as [-> Hc]. split; [reflexivity|]. apply Ha; [exact Hc|]. intros E. apply EOC_ne_FREE. exact E.
  - destruct H as (nx & Hn & Hne & Hw). exists nx. split; [eapply next_of_agree; eauto|]. auto.
Qed.

Lemma W_last fat : forall n cur last, W fat n cur last -> nthN fat last = Some END_OF_CHAIN.
Proof.
  induction n as [|n IH]; intros cur last H; cbn [W] in H.
  - destruct H as [<- H]. exact H.
  - destruct H as (nx & _ & _ & Hw). eapply IH; eauto.
Qed.

Lemma next_of_put fat i v x nx : x <> i -> next_of fat x = Ok nx -> next_of (put_cell fat i v) x = Ok nx.
Proof.
  intros Hne H. pose proof (proj1 (next_of_Ok _ _ _) H) as [Hc Hor]. pose proof (nthN_Some_lt _ _ _ Hc) as Hlt.
  unfold next_of in *. rewrite nthN_put_cell_ne by assumption. rewrite Hc in *.
  destruct (N.eqb_spec nx END_OF_CHAIN) as [->|Hn]; cbn [negb andb] in *; [exact H|].
  destruct (MAX_REGULAR_SECTOR <? nx); cbn [orb] in *; [discriminate|].
  destruct (N.leb_spec (lenN fat) nx); [discriminate|].
  pose proof (lenN_put_cell fat i v).
  destruct (N.leb_spec (lenN (put_cell fat i v)) nx); [lia|reflexivity].
Qed.

(* after linking [last] to a fresh END_OF_CHAIN cell the walk still halts *)
Lemma W_link fat last new : nthN fat new = Some END_OF_CHAIN -> last <> new -> last < lenN fat ->
  forall n cur, W fat n cur last -> halts (put_cell fat last new) (n + 2) cur.
Proof.
  intros Hnew Hne Hlt. set (fat' := put_cell fat last new).
  assert (Hnew' : nthN fat' new = Some END_OF_CHAIN).
  { unfold fat'. rewrite nthN_put_cell_ne; [exact Hnew|congruence|eapply nthN_Some_lt; eauto]. }
  assert (Hlast' : nthN fat' last = Some new) by (apply nthN_put_cell_eq; lia).
  assert (Hat_new : halts fat' 1 new).
  { cbn [halts]. right. unfold next_of. rewrite Hnew', N.eqb_refl. cbn [negb andb]. reflexivity. }
  assert (Hat_last : halts fat' 2 last).
  { cbn [halts]. right. pose proof (next_of_fine fat' last) as Hf.
    destruct (next_of fat' last) as [nx| | |] eqn:E; try exact I.
    apply next_of_Ok in E. destruct E as [E _]. rewrite Hlast' in E. injection E as <-.
    cbn [halts] in Hat_new. exact Hat_new. }
  induction n as [|n IH]; intros cur H; cbn [W] in H.
  - destruct H as [-> _]. exact Hat_last.
  - destruct H as (nx & Hn & Hnx & Hw). change (S n + 2)%nat with (S (n + 2)). cbn [halts]. right.
    assert (Hcur : cur <> last).
    { intros ->. pose proof (W_last _ _ _ _ Hw) as Hl. apply next_of_Ok in Hn. destruct Hn as [Hc _].
      congruence. }
    unfold fat'. rewrite (next_of_put fat last new cur nx Hcur Hn). apply IH. exact Hw.
Qed.

Lemma W_bound fat n cur last : W fat n cur last -> True. Proof. auto. Qed.

Lemma agree_put F fat i v : agree F fat -> i <= lenN fat ->
  (forall w, nthN F i = Some w -> w = FREE_SECTOR) -> agree F (put_cell fat i v).
Proof.
  intros [Hl Ha] Hi Hfree. split; [pose proof (lenN_put_cell fat i v); lia|].
  intros x w Hx Hw. destruct (N.eq_dec x i) as [->|Hne].
  - specialize (Hfree _ Hx). contradiction.
  - rewrite nthN_put_cell_ne; [apply Ha; assumption|exact Hne|].
    eapply nthN_Some_lt. apply Ha; eauto.
Qed.

Lemma agree_app_closed F : app_closed (fun s => agree F (fat s)).
Proof.
  intros s s' v [Hl Ha] _ _ _ [Hf|Hf]; rewrite Hf; [split; assumption|].
  split; [rewrite lenN_snoc; lia|]. intros x w Hx Hw. rewrite nthN_app_l; [auto|].
  eapply nthN_Some_lt. apply Ha; eauto.
Qed.

Lemma allocate_sector_agree F i :
  spec (fun s => Safe s /\ agree F (fat s)) (allocate_sector i)
       (fun _ s => agree F (fat s)) (fun _ => True).
Proof.
  unfold allocate_sector. apply spec_get_bind. intros s0 [H0 Hag0].
  set (PA := fun s => agree F (fat s)).
  assert (HstA : stable PA) by (apply app_closed_stable, agree_app_closed).
  destruct (lastN (free s0)) as [sid|] eqn:El.
  - destruct (freeinv_pop _ _ _ (proj2 H0) El) as (_ & _ & Hcell).
    eapply spec_bind with (Q := fun _ s => PA s /\ nthN (fat s) sid = Some FREE_SECTOR).
    { apply spec_modify. intros s [[_ Ha] (Hf & _)]. cbn [fat w_free]. split; [exact I|].
      split; [exact Ha|]. rewrite Hf. exact Hcell. }
    intros ?. eapply spec_bind with (Q := fun _ => PA).
    { apply spec_set_fat; [intros; exact I|]. intros s s' [Ha Hc] _ _ Hi Hf. split; [exact I|].
      unfold PA. rewrite Hf. apply agree_put; [exact Ha|exact Hi|].
      intros w Hw. destruct (N.eq_dec w FREE_SECTOR) as [|Hne]; [assumption|].
      destruct Ha as [_ Ha]. rewrite (Ha _ _ Hw Hne) in Hc. congruence. }
    intros ?. apply spec_frame_seq; [apply init_sector_frames|exact HstA|intros; exact I|].
    intros ?. apply spec_ret. intros s Ha. split; [exact I|exact Ha].
  - eapply spec_bind with (Q := fun _ => PA).
    { destruct (_ =? 0).
      - eapply spec_conseq; [apply (append_fat_sector_pres PA), agree_app_closed| | |]; cbv beta.
        + intros s [[_ Ha] _]. exact Ha.
        + intros ? s H; exact H.
        + intros; exact I.
      - apply spec_ret. intros s [[_ Ha] _]. split; [exact I|exact Ha]. }
    intros ?. apply spec_get_bind. intros s1 H1. cbv zeta.
    eapply spec_bind with (Q := fun _ => PA).
    { apply spec_set_fat; [intros; exact I|]. intros s s' [Ha (Hfs & _)] _ _ Hi Hf. split; [exact I|].
      unfold PA. rewrite Hf. apply agree_put; [exact Ha|exact Hi|].
      intros w Hw. destruct Ha as [Hl _]. apply nthN_Some_lt in Hw. rewrite Hfs in Hl. lia. }
    intros ?. apply spec_frame_seq; [apply init_sector_frames|exact HstA|intros; exact I|].
    intros ?. apply spec_ret. intros s Ha. split; [exact I|exact Ha].
Qed.

Lemma spec_and {A} P P' (m : M A) (Q Q' : A -> cstate -> Prop) J J' :
  spec P m Q J -> spec P' m Q' J' ->
  spec (fun s => P s /\ P' s) m (fun a s => Q a s /\ Q' a s) (fun s => J s /\ J' s).
Proof.
  intros H1 H2 s [Hs Hs']. destruct (H1 s Hs) as [A1 A2]. destruct (H2 s Hs') as [B1 B2].
  split; [split; assumption|]. intros a Ha. split; auto.
Qed.

Definition CountOk (start : N) (s : cstate) : Prop :=
  exists n, (n <= length (fat s))%nat /\ halts (fat s) (n + 2) start.

Lemma extend_chain_halts start i :
  spec Safe (extend_chain start i) (fun _ s => CountOk start s) (fun _ => True).
Proof.
  unfold extend_chain. destruct (start =? END_OF_CHAIN); [apply spec_panic; auto|].
  apply spec_get_bind. intros s0 H0.
  eapply spec_bind with
    (Q := fun last s => Safe s /\ fat s = fat s0 /\
            exists n, W (fat s0) n start last /\ (n <= length (fat s0))%nat).
  { apply spec_lift. intros s [Hs (Hf & _)]. split; [exact I|]. intros last Hl.
    split; [exact Hs|]. split; [exact Hf|].
    destruct (find_last_W _ _ _ _ _ Hl) as (n & Hw & Hb). exists n. split; [exact Hw|].
    rewrite lenN_length in Hb. lia. }
  intros last.
  eapply spec_bind with
    (Q := fun sid s => (nthN (fat s) last = Some END_OF_CHAIN /\ nthN (fat s) sid = Some END_OF_CHAIN /\
                        last <> sid) /\
                       (agree (fat s0) (fat s) /\ exists n, W (fat s0) n start last /\ (n <= length (fat s0))%nat)).
  { intros s (Hs & Hf & n & Hw & Hn).
    pose proof (W_last _ _ _ _ Hw) as Hlast. rewrite <- Hf in Hlast.
    destruct (allocate_sector_spec (eq last) i s) as [_ A2].
    { split; [exact Hs|]. intros x <-. exact Hlast. }
    destruct (allocate_sector_agree (fat s0) i s) as [_ B2].
    { split; [exact Hs|]. rewrite Hf. apply agree_refl. }
    split; [exact I|]. intros sid Ha. destruct (A2 sid Ha) as ([_ HL] & Hc & Hne).
    split; [split; [apply HL; reflexivity|split; assumption]|].
    split; [apply (B2 sid Ha)|]. exists n. auto. }
  intros sid.
  eapply spec_bind with (Q := fun _ s => CountOk start s); [|intros ?; apply spec_ret; auto].
  apply spec_set_fat; [intros; exact I|].
  intros s s' ((Hl & Hc & Hne) & Hag & n & Hw & Hn) _ _ Hi Hf. split; [exact I|].
  exists n. rewrite Hf. split.
  - pose proof (lenN_put_cell (fat s) last sid) as H1. destruct Hag as [H2 _].
    rewrite !lenN_length in *. lia.
  - apply W_link; [exact Hc|exact Hne|eapply nthN_Some_lt; eauto|].
    eapply W_agree; eauto.
Qed.

Lemma extend_chain_ax_count X start i : astable X ->
  tot (fun s => AllSafe s /\ X s /\ (start <> END_OF_CHAIN \/ start < lenN (fat s))) (extend_chain start i)
      (fun sid s => AllSafe s /\ X s /\ CountOk start s) (AX X).
Proof.
  intros HX.
  eapply tot_conseq;
    [apply (tot_and_spec _ _ _ _ _ _ _ (extend_chain_ax X start i HX) (extend_chain_halts start i))| | |].
  - intros s H. split; [exact H|apply H].
  - intros sid s [(Ha & Hx & _) Hc]. auto.
  - intros s [H _]. exact H.
Qed.

Lemma update_num_dir_sectors_tot P :
  xstable P ->
  tot (fun s => P s /\ CountOk (dir_start s) s /\ dir_start s <> END_OF_CHAIN) update_num_dir_sectors
      (fun _ => P) P.
Proof.
  intros HP. unfold update_num_dir_sectors. apply tot_get_bind. intros s0 (H0 & (n & Hn & Hh) & Hne).
  destruct (ver s0); [apply tot_ret; intros s ->; auto|].
  eapply tot_bind with (Q := fun nx s => s = s0 /\ next_of (fat s0) (dir_start s0) = Ok nx).
  { apply tot_pure; [reflexivity|]. intros s ->. split; [exact H0|].
    unfold next, bind, get, lift. cbn [snd]. split; [auto|]. intros _. apply fine_fineK, next_of_fine. }
  intros nx.
  apply (tot_pre (fun s => next_of (fat s0) (dir_start s0) = Ok nx /\ s = s0)); [|intros s [-> H]; auto].
  apply tot_pure_pre. intros Hnx.
  eapply tot_bind with (Q := fun _ s => s = s0).
  { apply tot_lift; [|intros s ->; auto].
    apply halts_fine with (n := (n + 1)%nat); [|lia].
    replace (n + 2)%nat with (S (n + 1)) in Hh by lia. cbn [halts] in Hh. destruct Hh as [Hh|Hh]; [contradiction|].
    rewrite Hnx in Hh. exact Hh. }
  intros cnt. eapply tot_pre; [apply (header_write_tot P); [exact HP|reflexivity]|]. intros s ->. exact H0.
Qed.

(* ================================================================== *)
(* 8. directory slots                                                  *)
(* ================================================================== *)
Lemma objtype_eqb_eq a b : objtype_eqb a b = true <-> a = b.
Proof. destruct a, b; cbn; split; intros H; try reflexivity; discriminate. Qed.

Lemma first_unalloc_spec' : forall ds k id, first_unalloc ds k = Some id ->
  k <= id /\ exists e, nthN ds (id - k) = Some e /\ d_type e = TUnalloc.
Proof.
  induction ds as [|e t IH]; intros k id H; cbn [first_unalloc] in H; [discriminate|].
  destruct (objtype_eqb (d_type e) TUnalloc) eqn:Et.
  - injection H as <-. split; [lia|]. exists e. rewrite N.sub_diag. split; [reflexivity|].
    apply objtype_eqb_eq. exact Et.
  - apply IH in H. destruct H as (Hk & e' & He' & Ht). split; [lia|]. exists e'. split; [|exact Ht].
    cbn [nthN]. destruct (N.eqb_spec (id - k) 0); [lia|]. replace (N.pred (id - k)) with (id - (k + 1)) by lia.
    exact He'.
Qed.

Lemma EntOk_unallocated : EntOk dirent_unallocated.
Proof. split; [cbn; unfold MAX_NAME_LEN; lia|cbn; discriminate]. Qed.

Lemma Aux_snoc DT s : snoc_closed DT -> Aux DT s -> Aux DT (w_dirs s (dirs s ++ [dirent_unallocated])).
Proof.
  intros Hsc (((r & Hr & Ht & Hl) & HE & HD) & HM & Hs). split; [|split; [exact HM|exact Hs]].
  cbn [dirs w_dirs]. split; [|split].
  - exists r. split; [|auto]. rewrite nthN_app_l; [exact Hr|eapply nthN_Some_lt; eauto].
  - apply Forall_app. split; [exact HE|]. constructor; [apply EntOk_unallocated|constructor].
  - apply Hsc. exact HD.
Qed.

Definition UnallocAt (id : N) (ds : list dirent) : Prop :=
  exists e, nthN ds id = Some e /\ d_type e = TUnalloc.

Lemma allocate_dir_entry_tot DT ds0 : snoc_closed DT ->
  tot (fun s => Core DT s /\ dirs s = ds0) allocate_dir_entry
      (fun id s => Core DT s /\ UnallocAt id (dirs s) /\
                   (dirs s = ds0 \/ dirs s = ds0 ++ [dirent_unallocated])) (Core DT).
Proof.
  intros Hsc. unfold allocate_dir_entry. apply tot_get_bind. intros s0 [H0 Hd0].
  destruct (first_unalloc (dirs s0) 0) as [id|] eqn:Ef.
  { apply tot_ret. intros s ->. split; [exact H0|]. split; [exact H0|]. split; [|left; exact Hd0].
    apply first_unalloc_spec' in Ef. destruct Ef as (_ & e & He & Ht). rewrite N.sub_0_r in He. exists e. auto. }
  eapply tot_bind with (Q := fun _ s => Core DT s /\ dirs s = ds0).
  { destruct (_ =? 0); [|apply tot_ret; intros s ->; auto].
    set (X := fun s => Aux DT s /\ dir_start s = dir_start s0 /\ dirs s = ds0).
    assert (HX : astable X).
    { apply astable_and; [apply astable_Aux|]. intros s s' (_&Hds&Hd&_) [H1 H2]. split; congruence. }
    eapply tot_bind with (Q := fun _ s => AX X s /\ CountOk (dir_start s0) s).
    { eapply tot_conseq; [apply (extend_chain_ax_count X (dir_start s0) IDir HX)| | |].
      - intros s ->. destruct H0 as [Ha Hx]. split; [exact Ha|]. split; [split; [exact Hx|auto]|].
        left. apply Hx.
      - intros sid s (Ha & Hx & Hc). split; [split; assumption|exact Hc].
      - intros s [Ha [Hx _]]. split; assumption. }
    intros ?.
    eapply tot_conseq; [apply (update_num_dir_sectors_tot (AX X))| | |].
    - apply xstable_and; [exact xstable_AllSafe|].
      intros s s' E H. eapply HX; [apply eqx_eqA; exact E|exact H].
    - intros s ([Ha (Hx & Hd & Hds)] & Hc). split; [split; [exact Ha|split; [exact Hx|auto]]|].
      rewrite Hd. split; [exact Hc|]. apply H0.
    - intros ? s [Ha (Hx & _ & Hds)]. split; [split; assumption|exact Hds].
    - intros s [Ha (Hx & _)]. split; assumption. }
  intros ?. apply tot_get_bind. intros s1 [H1 Hd1]. cbv zeta.
  set (s2 := w_dirs s1 (dirs s1 ++ [dirent_unallocated])).
  assert (H2 : Core DT s2).
  { destruct H1 as [Ha Hx]. split; [exact Ha|]. apply Aux_snoc; assumption. }
  eapply tot_bind with (Q := fun _ s => s = s2).
  { apply tot_put. intros s _. auto. }
  intros ?. apply tot_ret. intros s ->. split; [exact H2|]. split; [exact H2|]. split.
  - exists dirent_unallocated. split; [|reflexivity]. unfold s2. cbn [dirs w_dirs]. apply nthN_snoc_len.
  - right. unfold s2. cbn [dirs w_dirs]. rewrite Hd1. reflexivity.
Qed.

(* ================================================================== *)
(* 9. the directory forest: lookups stay inside it; grafting a leaf    *)
(* ================================================================== *)
Definition InT (ds : list dirent) (T : t3) (id : N) : Prop :=
  id <> NO_STREAM /\ exists t, Good ds id t /\ incl (ids3 t) (ids3 T).

Lemma InT_GoodAt ds T id : InT ds T id -> GoodAt ds id.
Proof. intros (Hne & t & G & _). split; [exact Hne|eauto]. Qed.

Lemma InT_in ds T id : InT ds T id -> In id (ids3 T).
Proof.
  intros (Hne & t & G & Hi). destruct (Good_nonleaf _ _ _ G Hne) as (l & c & r & ->).
  apply Hi. cbn [ids3]. left. reflexivity.
Qed.

Lemma InT_root ds T : Good ds ROOT_STREAM_ID T -> InT ds T ROOT_STREAM_ID.
Proof. intros G. split; [discriminate|]. exists T. split; [exact G|apply incl_refl]. Qed.

Lemma incl_node_l l i c r : incl (ids3 l) (ids3 (N3 l i c r)).
Proof. intros x Hx. cbn [ids3]. right. apply in_or_app. right. apply in_or_app. right. exact Hx. Qed.
Lemma incl_node_c l i c r : incl (ids3 c) (ids3 (N3 l i c r)).
Proof. intros x Hx. cbn [ids3]. right. apply in_or_app. left. exact Hx. Qed.
Lemma incl_node_r l i c r : incl (ids3 r) (ids3 (N3 l i c r)).
Proof. intros x Hx. cbn [ids3]. right. apply in_or_app. right. apply in_or_app. left. exact Hx. Qed.

Lemma fis_inT ds T nm : forall t root fuel, Good ds root t -> incl (ids3 t) (ids3 T) ->
  (length (ids3 t) < fuel)%nat ->
  exists r, find_in_siblings fuel ds nm root = Ok r /\ (forall id, r = Some id -> InT ds T id).
Proof.
  induction t as [|l IHl i c _ r IHr]; intros root fuel G Hi Hf.
  - destruct G as (HR & _). cbn [Rep3] in HR. subst root.
    destruct fuel; [cbn in Hf; lia|]. cbn [find_in_siblings]. rewrite N.eqb_refl.
    exists None. split; [reflexivity|discriminate].
  - pose proof G as G0. apply Good_node in G. destruct G as (-> & Hne & _ & e & He & Gl & _ & Gr).
    cbn [ids3 length] in Hf. rewrite !app_length in Hf.
    destruct fuel; [lia|]. cbn [find_in_siblings].
    destruct (N.eqb_spec i NO_STREAM); [contradiction|].
    unfold dir_entry_of. rewrite He. cbn [rbind].
    destruct (cmp_names nm (d_name e)).
    + exists (Some i). split; [reflexivity|]. intros id [= <-]. split; [exact Hne|eauto].
    + apply IHl; [exact Gl| |lia]. eapply incl_tran; [apply incl_node_l|exact Hi].
    + apply IHr; [exact Gr| |lia]. eapply incl_tran; [apply incl_node_r|exact Hi].
Qed.

Lemma lookup_inT ds T : forall names id, InT ds T id ->
  exists r, lookup_chain ds names id = Ok r /\ (forall id', r = Some id' -> InT ds T id').
Proof.
  induction names as [|nm rest IH]; intros id GA.
  - exists (Some id). split; [reflexivity|]. intros ? [= <-]. exact GA.
  - destruct GA as (Hne & t & G & Hi). destruct (Good_nonleaf _ _ _ G Hne) as (l & c & r & ->).
    pose proof G as G0. apply Good_node in G. destruct G as (_ & _ & _ & e & He & _ & Gc & _).
    cbn [lookup_chain]. unfold dir_entry_of at 1. rewrite He. cbn [rbind].
    destruct (fis_inT ds T nm c (d_child e) (S (length ds)) Gc) as (r0 & E & Hr0).
    { eapply incl_tran; [apply incl_node_c|exact Hi]. }
    { pose proof (Good_size _ _ _ Gc). lia. }
    rewrite E. cbn [rbind]. destruct r0 as [cid|].
    + apply IH. apply Hr0. reflexivity.
    + exists None. split; [reflexivity|discriminate].
Qed.

(* entries of the forest keep their three links *)
Definition SameLinks (e e' : dirent) : Prop :=
  d_left e' = d_left e /\ d_right e' = d_right e /\ d_child e' = d_child e.

Lemma Rep3_frame ds ds' : forall t r, Rep3 ds r t ->
  (forall j e, In j (ids3 t) -> nthN ds j = Some e -> exists e', nthN ds' j = Some e' /\ SameLinks e e') ->
  Rep3 ds' r t.
Proof.
  induction t as [|l IHl i c IHc r IHr]; intros root H Hf; cbn [Rep3] in *; [exact H|].
  destruct H as (E & Hne & e & He & Hl & Hc & Hr).
  destruct (Hf i e (or_introl eq_refl) He) as (e' & He' & (L1 & L2 & L3)).
  split; [exact E|]. split; [exact Hne|]. exists e'. split; [exact He'|].
  rewrite L1, L2, L3. split; [|split].
  - apply IHl; [exact Hl|]. intros j ej Hj. apply Hf. apply incl_node_l. exact Hj.
  - apply IHc; [exact Hc|]. intros j ej Hj. apply Hf. apply incl_node_c. exact Hj.
  - apply IHr; [exact Hr|]. intros j ej Hj. apply Hf. apply incl_node_r. exact Hj.
Qed.

Lemma Rep3_L3 ds t : Rep3 ds NO_STREAM t -> t = L3.
Proof. destruct t; [reflexivity|]. cbn [Rep3]. intros (E & Hne & _). congruence. Qed.

Lemma DirTree_shape ds ds' : DirTree ds -> Shape ds ds' -> DirTree ds'.
Proof.
  intros (T & HR & ND & Ty) Hs. exists T. split; [|split; [exact ND|]].
  - apply (Rep3_frame ds ds' T _ HR). intros j e _ He. destruct (Hs j e He) as (e' & He' & (A & B & C & _)).
    exists e'. split; [exact He'|]. repeat split; assumption.
  - rewrite Forall_forall in *. intros j Hj. destruct (Ty j Hj) as (e & He & Ht).
    destruct (Hs j e He) as (e' & He' & (_ & _ & _ & D)). exists e'. split; [exact He'|]. rewrite D. exact Ht.
Qed.

Lemma shape_closed_DirTree : shape_closed DirTree.
Proof. intros ds id e e' H He Hk _. eapply DirTree_shape; [exact H|]. eapply Shape_updN; eauto. Qed.
Lemma snoc_closed_DirTree : snoc_closed DirTree.
Proof. intros ds H. eapply DirTree_shape; [exact H|apply Shape_snoc]. Qed.
Lemma shape_closed_True : shape_closed (fun _ => True).
Proof. intros ? ? ? ? _ _ _ _. exact I. Qed.

Lemma nodup_app_iff' {A} (a b : list A) :
  NoDup (a ++ b) <-> NoDup a /\ NoDup b /\ (forall x, In x a -> ~ In x b).
Proof.
  induction a as [|x a IH]; cbn [app].
  - split; [intros H; repeat split; [constructor|exact H|intros ? []]|intros (_ & H & _); exact H].
  - split.
    + intros H. inversion H as [|? ? Hx Hr]; subst. apply IH in Hr. destruct Hr as (Ha & Hb & Hd).
      split; [constructor; [intros Hin; apply Hx; apply in_or_app; left; exact Hin|exact Ha]|].
      split; [exact Hb|]. intros y [<-|Hy]; [intros Hin; apply Hx; apply in_or_app; right; exact Hin|auto].
    + intros (Ha & Hb & Hd). inversion Ha as [|? ? Hx Hr]; subst. constructor.
      * intros Hin. apply in_app_or in Hin. destruct Hin as [Hin|Hin]; [contradiction|].
        apply (Hd x); [left; reflexivity|exact Hin].
      * apply IH. split; [exact Hr|]. split; [exact Hb|]. intros y Hy. apply Hd. right. exact Hy.
Qed.

Lemma nodup_node l i c r :
  NoDup (ids3 (N3 l i c r)) <->
  (~ In i (ids3 c) /\ ~ In i (ids3 r) /\ ~ In i (ids3 l)) /\
  NoDup (ids3 c) /\ NoDup (ids3 r) /\ NoDup (ids3 l) /\
  (forall x, In x (ids3 c) -> ~ In x (ids3 r) /\ ~ In x (ids3 l)) /\
  (forall x, In x (ids3 r) -> ~ In x (ids3 l)).
Proof.
  cbn [ids3]. split.
  - intros H. inversion H as [|? ? Hi Hr]; subst.
    apply nodup_app_iff' in Hr. destruct Hr as (Hc & Hrl & Hd1).
    apply nodup_app_iff' in Hrl. destruct Hrl as (Hr & Hl & Hd2).
    split; [|split; [exact Hc|split; [exact Hr|split; [exact Hl|split; [|exact Hd2]]]]].
    + repeat split; intros Hin; apply Hi; apply in_or_app; [left|right; apply in_or_app; left|right; apply in_or_app; right]; exact Hin.
    + intros x Hx. specialize (Hd1 x Hx). split; intros Hin; apply Hd1; apply in_or_app; [left|right]; exact Hin.
  - intros ((Hic & Hir & Hil) & Hc & Hr & Hl & Hd1 & Hd2). constructor.
    + intros Hin. apply in_app_or in Hin. destruct Hin as [Hin|Hin]; [contradiction|].
      apply in_app_or in Hin. destruct Hin; contradiction.
    + apply nodup_app_iff'. split; [exact Hc|]. split.
      * apply nodup_app_iff'. split; [exact Hr|]. split; [exact Hl|exact Hd2].
      * intros x Hx Hin. apply in_app_or in Hin. destruct (Hd1 x Hx). destruct Hin; contradiction.
Qed.

Lemma in_node x l i c r :
  In x (ids3 (N3 l i c r)) <-> x = i \/ In x (ids3 c) \/ In x (ids3 r) \/ In x (ids3 l).
Proof.
  cbn [ids3]. split.
  - intros [H|H]; [left; auto|]. apply in_app_or in H. destruct H as [H|H]; [tauto|].
    apply in_app_or in H. tauto.
  - intros [H|[H|[H|H]]]; [left; auto|right; apply in_or_app; left; exact H
                            |right; apply in_or_app; right; apply in_or_app; left; exact H
                            |right; apply in_or_app; right; apply in_or_app; right; exact H].
Qed.

Inductive link := LL | LR | LC.
Definition get_link (k : link) (e : dirent) : N :=
  match k with LL => d_left e | LR => d_right e | LC => d_child e end.
Definition set_link (k : link) (e : dirent) (v : N) : dirent :=
  match k with LL => set_left e v | LR => set_right e v | LC => set_child e v end.

Section Graft.
Variables (ds : list dirent) (prev : N) (pe pe' : dirent) (id : N) (en : dirent).
Hypothesis Hpe : nthN ds prev = Some pe.
Hypothesis Hcase :
  (d_left pe = NO_STREAM /\ pe' = set_left pe id) \/
  (d_right pe = NO_STREAM /\ pe' = set_right pe id) \/
  (d_child pe = NO_STREAM /\ pe' = set_child pe id).
Hypothesis Hid : id <> NO_STREAM.
Hypothesis Hen : nthN ds id = Some en.
Hypothesis Hleaf : d_left en = NO_STREAM /\ d_right en = NO_STREAM /\ d_child en = NO_STREAM.
Hypothesis Hne : prev <> id.
Let ds' := updN ds prev pe'.

Lemma graft_other : forall t r, Rep3 ds r t -> ~ In prev (ids3 t) -> Rep3 ds' r t.
Proof.
  intros t r H Hn. apply (Rep3_frame ds ds' t r H). intros j e Hj He. exists e.
  split; [|repeat split]. unfold ds'. rewrite nthN_updN_ne; [exact He|]. intros ->. contradiction.
Qed.

Lemma graft_leaf : Rep3 ds' id (N3 L3 id L3 L3).
Proof.
  cbn [Rep3]. split; [reflexivity|]. split; [exact Hid|]. exists en. split.
  - unfold ds'. rewrite nthN_updN_ne; [exact Hen|congruence].
  - destruct Hleaf as (A & B & C). rewrite A, B, C. repeat split; reflexivity.
Qed.

Lemma graft_in : forall t r, Rep3 ds r t -> NoDup (ids3 t) -> ~ In id (ids3 t) -> In prev (ids3 t) ->
  exists t', Rep3 ds' r t' /\ (forall x, In x (ids3 t') <-> x = id \/ In x (ids3 t)) /\ NoDup (ids3 t').
Proof.
  induction t as [|l IHl i c IHc r IHr]; intros root HR ND Hnid Hin; [destruct Hin|].
  pose proof HR as HR0. cbn [Rep3] in HR. destruct HR as (E & Hine & e & He & Hl & Hc & Hr).
  apply nodup_node in ND. destruct ND as ((Hic & Hir & Hil) & NDc & NDr & NDl & Hd1 & Hd2).
  assert (Hnid' : id <> i /\ ~ In id (ids3 c) /\ ~ In id (ids3 r) /\ ~ In id (ids3 l)).
  { repeat split; intros Hx; apply Hnid; apply in_node; [left; auto|tauto|tauto|tauto]. }
  destruct Hnid' as (Hidi & Hidc & Hidr & Hidl).
  apply in_node in Hin. destruct Hin as [Hp|Hin].
  - (* the node itself gets the new link *)
    subst root. symmetry in Hp. subst i. assert (e = pe) by congruence. subst e.
    assert (Hpl : nthN ds' prev = Some pe').
    { unfold ds'. apply nthN_updN_eq. eapply nthN_Some_lt; eauto. }
    pose proof (graft_other l _ Hl Hil) as Hl'.
    pose proof (graft_other c _ Hc Hic) as Hc'.
    pose proof (graft_other r _ Hr Hir) as Hr'.
    destruct Hcase as [[Hlink Hpe']|[[Hlink Hpe']|[Hlink Hpe']]].
    + rewrite Hlink in Hl. apply Rep3_L3 in Hl. subst l.
      exists (N3 (N3 L3 id L3 L3) prev c r). split; [|split].
      * cbn [Rep3]. split; [reflexivity|]. split; [exact Hine|]. exists pe'. split; [exact Hpl|]. rewrite Hpe'.
        cbn [d_left d_right d_child set_left]. split; [apply graft_leaf|split; assumption].
      * intros x. rewrite !in_node. cbn [ids3 In app]. tauto.
      * apply nodup_node. cbn [ids3 In app]. split; [|split; [exact NDc|split; [exact NDr|split; [|split]]]].
        -- repeat split; try assumption. intros [H|[]]; congruence.
        -- constructor; [intros []|constructor].
        -- intros x Hx. destruct (Hd1 _ Hx) as [A B]. split; [exact A|]. intros [<-|[]]. contradiction.
        -- intros x Hx [<-|[]]. contradiction.
    + rewrite Hlink in Hr. apply Rep3_L3 in Hr. subst r.
      exists (N3 l prev c (N3 L3 id L3 L3)). split; [|split].
      * cbn [Rep3]. split; [reflexivity|]. split; [exact Hine|]. exists pe'. split; [exact Hpl|]. rewrite Hpe'.
        cbn [d_left d_right d_child set_right]. split; [assumption|split; [assumption|apply graft_leaf]].
      * intros x. rewrite !in_node. cbn [ids3 In app]. tauto.
      * apply nodup_node. cbn [ids3 In app]. split; [|split; [exact NDc|split; [|split; [exact NDl|split]]]].
        -- repeat split; try assumption. intros [H|[]]; congruence.
        -- constructor; [intros []|constructor].
        -- intros x Hx. destruct (Hd1 _ Hx) as [A B]. split; [|exact B]. intros [<-|[]]. contradiction.
        -- intros x [<-|[]]. exact Hidl.
    + rewrite Hlink in Hc. apply Rep3_L3 in Hc. subst c.
      exists (N3 l prev (N3 L3 id L3 L3) r). split; [|split].
      * cbn [Rep3]. split; [reflexivity|]. split; [exact Hine|]. exists pe'. split; [exact Hpl|]. rewrite Hpe'.
        cbn [d_left d_right d_child set_child]. split; [assumption|split; [apply graft_leaf|assumption]].
      * intros x. rewrite !in_node. cbn [ids3 In app]. tauto.
      * apply nodup_node. cbn [ids3 In app]. split; [|split; [|split; [exact NDr|split; [exact NDl|split]]]].
        -- repeat split; try assumption. intros [H|[]]; congruence.
        -- constructor; [intros []|constructor].
        -- intros x [<-|[]]. split; assumption.
        -- exact Hd2.
  - (* prev lies in exactly one of the three subtrees *)
    assert (Hpi : prev <> i).
    { intros ->. destruct Hin as [H|[H|H]]; contradiction. }
    assert (Hi' : nthN ds' i = Some e).
    { unfold ds'. rewrite nthN_updN_ne; [exact He|congruence]. }
    destruct Hin as [Hin|[Hin|Hin]].
    + destruct (IHc _ Hc NDc Hidc Hin) as (c' & Hc' & Hin' & ND').
      destruct (Hd1 _ Hin) as [Hpr Hpl].
      exists (N3 l i c' r). split; [|split].
      * cbn [Rep3]. split; [exact E|]. split; [exact Hine|]. exists e. split; [exact Hi'|].
        split; [apply graft_other; assumption|split; [exact Hc'|apply graft_other; assumption]].
      * intros x. rewrite !in_node, Hin'. tauto.
      * apply nodup_node. split; [|split; [exact ND'|split; [exact NDr|split; [exact NDl|split; [|exact Hd2]]]]].
        -- repeat split; try assumption. rewrite Hin'. intros [H|H]; [congruence|contradiction].
        -- intros x Hx. apply Hin' in Hx. destruct Hx as [->|Hx]; [split; assumption|apply Hd1; exact Hx].
    + destruct (IHr _ Hr NDr Hidr Hin) as (r' & Hr' & Hin' & ND').
      assert (Hpc : ~ In prev (ids3 c)) by (intros H; destruct (Hd1 _ H) as [A _]; apply A; exact Hin).
      assert (Hpl : ~ In prev (ids3 l)) by (apply Hd2; exact Hin).
      exists (N3 l i c r'). split; [|split].
      * cbn [Rep3]. split; [exact E|]. split; [exact Hine|]. exists e. split; [exact Hi'|].
        split; [apply graft_other; assumption|split; [apply graft_other; assumption|exact Hr']].
      * intros x. rewrite !in_node, Hin'. tauto.
      * apply nodup_node. split; [|split; [exact NDc|split; [exact ND'|split; [exact NDl|split]]]].
        -- repeat split; try assumption. rewrite Hin'. intros [H|H]; [congruence|contradiction].
        -- intros x Hx. destruct (Hd1 _ Hx) as [A B]. split; [|exact B]. rewrite Hin'. intros [->|H]; [contradiction|].
           apply A. exact H.
        -- intros x Hx. apply Hin' in Hx. destruct Hx as [->|Hx]; [exact Hidl|apply Hd2; exact Hx].
    + destruct (IHl _ Hl NDl Hidl Hin) as (l' & Hl' & Hin' & ND').
      assert (Hpc : ~ In prev (ids3 c)) by (intros H; destruct (Hd1 _ H) as [_ B]; apply B; exact Hin).
      assert (Hpr : ~ In prev (ids3 r)) by (intros H; apply (Hd2 _ H); exact Hin).
      exists (N3 l' i c r). split; [|split].
      * cbn [Rep3]. split; [exact E|]. split; [exact Hine|]. exists e. split; [exact Hi'|].
        split; [exact Hl'|split; apply graft_other; assumption].
      * intros x. rewrite !in_node, Hin'. tauto.
      * apply nodup_node. split; [|split; [exact NDc|split; [exact NDr|split; [exact ND'|split]]]].
        -- repeat split; try assumption. rewrite Hin'. intros [H|H]; [congruence|contradiction].
        -- intros x Hx. destruct (Hd1 _ Hx) as [A B]. split; [exact A|]. rewrite Hin'. intros [->|H]; [contradiction|].
           apply B. exact H.
        -- intros x Hx. rewrite Hin'. intros [->|H]; [contradiction|]. apply (Hd2 _ Hx). exact H.
Qed.
End Graft.

(* ---- the descent of insert_dir_entry ---- *)
Fixpoint NoEq (ds : list dirent) (nm : name) (t : t3) : Prop :=
  match t with
  | L3 => True
  | N3 l i c r =>
    match nthN ds i with
    | Some e => match cmp_names nm (d_name e) with
                | Eq => False | Lt => NoEq ds nm l | Gt => NoEq ds nm r end
    | None => True
    end
  end.

Lemma fis_None_NoEq ds nm : forall t r fuel, Rep3 ds r t ->
  find_in_siblings fuel ds nm r = Ok None -> NoEq ds nm t.
Proof.
  induction t as [|l IHl i c _ r IHr]; intros root fuel HR H; cbn [NoEq]; [exact I|].
  cbn [Rep3] in HR. destruct HR as (-> & Hne & e & He & Hl & _ & Hr). rewrite He.
  destruct fuel; [discriminate|]. cbn [find_in_siblings] in H.
  destruct (N.eqb_spec i NO_STREAM); [contradiction|].
  unfold dir_entry_of in H. rewrite He in H. cbn [rbind] in H.
  destruct (cmp_names nm (d_name e)); [discriminate|eapply IHl; eauto|eapply IHr; eauto].
Qed.

Lemma NoEq_frame ds ds' nm : forall t, (forall j, In j (ids3 t) -> nthN ds' j = nthN ds j) ->
  NoEq ds nm t -> NoEq ds' nm t.
Proof.
  induction t as [|l IHl i c _ r IHr]; intros Hf H; cbn [NoEq] in *; [exact I|].
  rewrite (Hf i (or_introl eq_refl)). destruct (nthN ds i) as [e|]; [|exact I].
  destruct (cmp_names nm (d_name e)); [exact H| |].
  - apply IHl; [|exact H]. intros j Hj. apply Hf. apply incl_node_l. exact Hj.
  - apply IHr; [|exact H]. intros j Hj. apply Hf. apply incl_node_r. exact Hj.
Qed.

Lemma insert_descend_spec ds nm : forall t r fuel prev ord, Rep3 ds r t -> NoEq ds nm t ->
  (length (ids3 t) < fuel)%nat ->
  exists p' o', insert_descend fuel ds nm r prev ord = Ok (p', o') /\
    ((t = L3 /\ p' = prev /\ o' = ord) \/
     (In p' (ids3 t) /\ exists pe, nthN ds p' = Some pe /\
        ((o' = Lt /\ d_left pe = NO_STREAM) \/ (o' = Gt /\ d_right pe = NO_STREAM)))).
Proof.
  induction t as [|l IHl i c _ r IHr]; intros root fuel prev ord HR HN Hf.
  - cbn [Rep3] in HR. subst root. destruct fuel; [cbn in Hf; lia|]. cbn [insert_descend].
    rewrite N.eqb_refl. exists prev, ord. split; [reflexivity|]. left. auto.
  - cbn [Rep3] in HR. destruct HR as (-> & Hne & e & He & Hl & _ & Hr). cbn [NoEq] in HN. rewrite He in HN.
    cbn [ids3 length] in Hf. rewrite !app_length in Hf.
    destruct fuel; [lia|]. cbn [insert_descend].
    destruct (N.eqb_spec i NO_STREAM); [contradiction|].
    unfold dir_entry_of. rewrite He. cbn [rbind].
    destruct (cmp_names nm (d_name e)); [contradiction| |].
    + destruct (IHl (d_left e) fuel i Lt Hl HN) as (p' & o' & E & Hc); [lia|].
      exists p', o'. split; [exact E|]. right. destruct Hc as [(-> & -> & ->)|(Hin & pe & Hpe & Hor)].
      * split; [left; reflexivity|]. exists e. split; [exact He|]. left. split; [reflexivity|].
        cbn [Rep3] in Hl. exact Hl.
      * split; [apply incl_node_l; exact Hin|]. exists pe. auto.
    + destruct (IHr (d_right e) fuel i Gt Hr HN) as (p' & o' & E & Hc); [lia|].
      exists p', o'. split; [exact E|]. right. destruct Hc as [(-> & -> & ->)|(Hin & pe & Hpe & Hor)].
      * split; [left; reflexivity|]. exists e. split; [exact He|]. right. split; [reflexivity|].
        cbn [Rep3] in Hr. exact Hr.
      * split; [apply incl_node_r; exact Hin|]. exists pe. auto.
Qed.

(* the whole forest after linking a fresh leaf *)
Lemma typed_frame ds ds' j : typed ds j ->
  (forall e, nthN ds j = Some e -> exists e', nthN ds' j = Some e' /\ d_type e' = d_type e) ->
  typed ds' j.
Proof.
  intros (e & He & Ht) Hf. destruct (Hf e He) as (e' & He' & Hty). exists e'. split; [exact He'|].
  rewrite Hty. exact Ht.
Qed.

Lemma Good_graft ds T prev pe pe' id en :
  Good ds ROOT_STREAM_ID T -> In prev (ids3 T) -> ~ In id (ids3 T) ->
  nthN ds prev = Some pe ->
  ((d_left pe = NO_STREAM /\ pe' = set_left pe id) \/
   (d_right pe = NO_STREAM /\ pe' = set_right pe id) \/
   (d_child pe = NO_STREAM /\ pe' = set_child pe id)) ->
  nthN ds id = Some en ->
  d_left en = NO_STREAM /\ d_right en = NO_STREAM /\ d_child en = NO_STREAM ->
  (d_type en = TStorage \/ d_type en = TStream) -> id <> ROOT_STREAM_ID ->
  DirTree (updN ds prev pe').
Proof.
  intros (HR & ND & Ty) Hprev Hnid Hpe Hcase Hen Hleaf Hty Hroot.
  assert (Hne : prev <> id) by (intros ->; contradiction).
  assert (Htype : d_type pe' = d_type pe).
  { destruct Hcase as [[_ ->]|[[_ ->]|[_ ->]]]; reflexivity. }
  destruct (N.eq_dec id NO_STREAM) as [Hid|Hid].
  { (* the link written is NO_STREAM again: nothing changes *)
    apply (DirTree_shape ds); [exists T; repeat split; assumption|].
    eapply Shape_updN; [exact Hpe|]. subst id.
    destruct Hcase as [[H ->]|[[H ->]|[H ->]]]; unfold KeepShape; cbn; rewrite ?H; repeat split; reflexivity. }
  destruct (graft_in ds prev pe pe' id en Hpe Hcase Hid Hen Hleaf Hne T _ HR ND Hnid Hprev)
    as (T' & HR' & Hin' & ND').
  exists T'. split; [exact HR'|]. split; [exact ND'|].
  apply Forall_forall. intros j Hj. apply Hin' in Hj. destruct Hj as [->|Hj].
  - exists en. split; [rewrite nthN_updN_ne; [exact Hen|congruence]|].
    destruct (N.eqb_spec id ROOT_STREAM_ID); [contradiction|exact Hty].
  - rewrite Forall_forall in Ty. apply (typed_frame ds); [apply Ty; exact Hj|].
    intros e He. destruct (N.eq_dec j prev) as [->|Hjp].
    + exists pe'. split; [apply nthN_updN_eq; eapply nthN_Some_lt; eauto|]. congruence.
    + exists e. split; [rewrite nthN_updN_ne; assumption|reflexivity].
Qed.

(* ================================================================== *)
(* 10. insert_dir_entry                                                *)
(* ================================================================== *)
Lemma Good_frame ds ds' r t : Good ds r t ->
  (forall j, In j (ids3 t) -> nthN ds' j = nthN ds j) -> Good ds' r t.
Proof.
  intros (HR & ND & Ty) Hf. split; [|split; [exact ND|]].
  - apply (Rep3_frame ds ds' t r HR). intros j e Hj He. exists e. split; [rewrite Hf; assumption|repeat split].
  - rewrite Forall_forall in *. intros j Hj. destruct (Ty j Hj) as (e & He & Ht). exists e.
    split; [rewrite Hf; assumption|exact Ht].
Qed.

Lemma typed_not_unalloc ds j : typed ds j -> ~ UnallocAt j ds.
Proof.
  intros (e & He & Ht) (e' & He' & Hu). assert (e' = e) by congruence. subst e'.
  destruct (j =? ROOT_STREAM_ID); [congruence|destruct Ht; congruence].
Qed.

Definition DTn (n : N) (ds : list dirent) : Prop := DirTree ds /\ n <= lenN ds.
Definition MInvN (n : N) : cstate -> Prop := Core (DTn n).

Lemma Shape_len ds ds' : Shape ds ds' -> lenN ds <= lenN ds'.
Proof.
  intros H. destruct (N.le_gt_cases (lenN ds) (lenN ds')) as [Hle|Hgt]; [exact Hle|exfalso].
  destruct (nthN_lt_Some ds (lenN ds')) as [e He]; [lia|].
  destruct (H _ _ He) as (e' & He' & _). apply nthN_Some_lt in He'. lia.
Qed.
Lemma shape_closed_DTn n : shape_closed (DTn n).
Proof.
  intros ds id e e' [HD Hn] He Hk Hnm. split; [eapply shape_closed_DirTree; eauto|]. rewrite lenN_updN. exact Hn.
Qed.
Lemma snoc_closed_DTn n : snoc_closed (DTn n).
Proof. intros ds [HD Hn]. split; [apply snoc_closed_DirTree; exact HD|]. rewrite lenN_snoc. lia. Qed.
Lemma MInvN_MInv n s : MInvN n s -> MInv s.
Proof. intros [Ha ((HR & HE & HD & _) & HM & Hs)]. split; [exact Ha|]. split; [|split; assumption]. repeat split; assumption. Qed.
Lemma MInv_MInvN n s : MInv s -> n <= lenN (dirs s) -> MInvN n s.
Proof. intros [Ha ((HR & HE & HD) & HM & Hs)] Hn. split; [exact Ha|]. split; [|split; assumption]. repeat split; assumption. Qed.
Lemma MInvN_len n s : MInvN n s -> n <= lenN (dirs s).
Proof. intros [_ ((_ & _ & _ & H) & _)]. exact H. Qed.

Definition InsPre (n : N) (nm : name) (ty : objtype) (parent : N) (s : cstate) : Prop :=
  MInvN n s /\ lenN (utf16 nm) <= MAX_NAME_LEN /\ (ty = TStorage \/ ty = TStream) /\
  exists T p l c r, Good (dirs s) ROOT_STREAM_ID T /\ nthN (dirs s) parent = Some p /\
    d_type p <> TStream /\ Good (dirs s) parent (N3 l parent c r) /\
    incl (ids3 (N3 l parent c r)) (ids3 T) /\ NoEq (dirs s) nm c.

Lemma EntOk_new nm ty ts : lenN (utf16 nm) <= MAX_NAME_LEN -> EntOk (dirent_new nm ty ts).
Proof. intros H. split; [exact H|reflexivity]. Qed.

Lemma Core_set_dirs DT s ds' : Core DT s -> DirOk DT ds' -> Core DT (w_dirs s ds').
Proof. intros [Ha (_ & HM & Hs)] HD. split; [exact Ha|]. split; [exact HD|split; [exact HM|exact Hs]]. Qed.

Lemma insert_dir_entry_tot n parent nm ty now :
  tot (InsPre n nm ty parent) (insert_dir_entry parent nm ty now)
      (fun id s => MInvN n s /\ id < lenN (dirs s)) (MInvN n).
Proof.
  unfold insert_dir_entry. apply (tot_fix dirs). intros ds0.
  apply (tot_pre (fun s => (n <= lenN ds0 /\ lenN (utf16 nm) <= MAX_NAME_LEN /\ (ty = TStorage \/ ty = TStream) /\
     exists T p l c r, Good ds0 ROOT_STREAM_ID T /\ nthN ds0 parent = Some p /\
       d_type p <> TStream /\ Good ds0 parent (N3 l parent c r) /\
       incl (ids3 (N3 l parent c r)) (ids3 T) /\ NoEq ds0 nm c) /\ (MInvN n s /\ dirs s = ds0))).
  2:{ intros s [(Hm & Hn & Hty & Hx) Hd]. rewrite Hd in Hx. pose proof (MInvN_len _ _ Hm) as Hl. rewrite Hd in Hl. auto. }
  apply tot_pure_pre. intros (Hn0 & Hnm & Hty & T & p & l & c & r & GT & Hp & Hpty & Gp & Hincl & HNE).
  eapply tot_bind; [apply (allocate_dir_entry_tot (DTn n) ds0 (snoc_closed_DTn n))|].
  intros id. cbv beta zeta.
  set (ts := if objtype_eqb ty TStorage then now else 0).
  set (enew := dirent_new nm ty ts).
  (* the table after the slot has been filled *)
  apply (tot_fix dirs). intros ds1.
  apply (tot_pre (fun s => (UnallocAt id ds1 /\ (ds1 = ds0 \/ ds1 = ds0 ++ [dirent_unallocated])) /\
                           (MInvN n s /\ dirs s = ds1))).
  2:{ intros s [(Hm & Hu & Hor) Hd]. rewrite Hd in Hu, Hor. auto. }
  apply tot_pure_pre. intros (Hun & Hor).
  assert (Hold : forall j e, nthN ds0 j = Some e -> nthN ds1 j = Some e).
  { intros j e He. destruct Hor as [->| ->]; [exact He|]. rewrite nthN_app_l; [exact He|eapply nthN_Some_lt; eauto]. }
  assert (Hn1 : n <= lenN ds1).
  { destruct Hor as [->| ->]; [exact Hn0|rewrite lenN_snoc; lia]. }
  assert (HfrT : forall t rt, Good ds0 rt t -> Good ds1 rt t).
  { intros t rt G. apply (Good_frame ds0); [exact G|]. intros j Hj.
    destruct G as (HR & _). pose proof (Rep3_range _ _ _ HR) as Hrg. rewrite Forall_forall in Hrg.
    destruct (nthN_lt_Some _ _ (Hrg j Hj)) as [e He]. rewrite He. apply Hold. exact He. }
  pose proof (HfrT _ _ GT) as GT1. pose proof (HfrT _ _ Gp) as Gp1.
  assert (HidT : ~ In id (ids3 T)).
  { intros Hin. destruct GT1 as (_ & _ & Ty). rewrite Forall_forall in Ty.
    apply (typed_not_unalloc ds1 id); [apply Ty; exact Hin|exact Hun]. }
  destruct Hun as (eun & Heun & Htun).
  assert (Hidlt : id < lenN ds1) by (eapply nthN_Some_lt; eauto).
  set (ds2 := updN ds1 id enew).
  assert (Hfr2 : forall j, In j (ids3 T) -> nthN ds2 j = nthN ds1 j).
  { intros j Hj. unfold ds2. apply nthN_updN_ne. intros ->. contradiction. }
  assert (GT2 : Good ds2 ROOT_STREAM_ID T) by (apply (Good_frame ds1); assumption).
  assert (Gp2 : Good ds2 parent (N3 l parent c r)).
  { apply (Good_frame ds1); [exact Gp1|]. intros j Hj. apply Hfr2. apply Hincl. exact Hj. }
  assert (Hparent : In parent (ids3 T)) by (apply Hincl; left; reflexivity).
  assert (Hp2 : nthN ds2 parent = Some p).
  { rewrite Hfr2 by exact Hparent. apply Hold. exact Hp. }
  assert (Hen2 : nthN ds2 id = Some enew) by (apply nthN_updN_eq; exact Hidlt).
  assert (Hroot_id : id <> ROOT_STREAM_ID).
  { intros ->. apply HidT. destruct GT as (HR & _). destruct T; cbn [Rep3] in HR; [discriminate HR|].
    destruct HR as (<- & _). left. reflexivity. }
  assert (HNE2 : NoEq ds2 nm c).
  { apply (NoEq_frame ds0); [|exact HNE]. intros j Hj.
    assert (HjT : In j (ids3 T)) by (apply Hincl; apply incl_node_c; exact Hj).
    rewrite Hfr2 by exact HjT.
    destruct Gp as (HRp & _). cbn [Rep3] in HRp. destruct HRp as (_ & _ & e0 & _ & _ & HRc & _).
    pose proof (Rep3_range _ _ _ HRc) as Hrg. rewrite Forall_forall in Hrg.
    destruct (nthN_lt_Some _ _ (Hrg j Hj)) as [e He]. rewrite He. apply Hold. exact He. }
  (* 1. fill the slot *)
  eapply tot_bind with (Q := fun _ s => MInvN n s /\ dirs s = ds2).
  { eapply tot_conseq; [apply (set_dir_entry_tot (fun s => MInvN n s /\ dirs s = ds1) (MInvN n) id enew)| | |].
    - intros s [Hm Hd]. rewrite Hd. split; [exact Hidlt|]. apply Core_set_dirs; [exact Hm|].
      destruct Hm as [_ ((HR & HE & HD) & _)]. rewrite Hd in *. fold ds2. split; [|split].
      + destruct HR as (r0 & Hr0 & Hr1). exists r0. split; [|exact Hr1]. unfold ds2.
        rewrite nthN_updN_ne; [exact Hr0|congruence].
      + apply Forall_updN; [exact HE|apply EntOk_new; exact Hnm].
      + split; [exists T; exact GT2|]. unfold ds2. rewrite lenN_updN. exact Hn1.
    - intros s H; exact H.
    - intros ? s (s0 & [Hm Hd] & ->). rewrite Hd. fold ds2. split; [|reflexivity].
      apply Core_set_dirs; [exact Hm|].
      destruct Hm as [_ ((HR & HE & HD) & _)]. rewrite Hd in *. split; [|split].
      + destruct HR as (r0 & Hr0 & Hr1). exists r0. split; [|exact Hr1]. unfold ds2.
        rewrite nthN_updN_ne; [exact Hr0|congruence].
      + apply Forall_updN; [exact HE|apply EntOk_new; exact Hnm].
      + split; [exists T; exact GT2|]. unfold ds2. rewrite lenN_updN. exact Hn1.
    - intros s H; exact H. }
  intros ?.
  (* 2. read the parent and descend *)
  eapply tot_bind.
  { eapply tot_conseq; [apply (dir_entry_tot (fun s => MInvN n s /\ dirs s = ds2) parent)| | |].
    - intros s [Hm Hd]. split; [split; assumption|]. rewrite Hd. eapply nthN_Some_lt; eauto.
    - intros e s H; exact H.
    - intros s [H _]; exact H. }
  intros p'. cbv beta.
  apply (tot_pre (fun s => p' = p /\ (MInvN n s /\ dirs s = ds2))).
  2:{ intros s ([Hm Hd] & He). rewrite Hd in He. split; [congruence|auto]. }
  apply tot_pure_pre. intros ->.
  apply tot_get_bind. intros s2 [Hm2 Hd2]. rewrite Hd2.
  destruct Gp2 as (HRp2 & NDp2 & Typ2).
  pose proof HRp2 as HRp2'. cbn [Rep3] in HRp2'. destruct HRp2' as (_ & Hpne & ep & Hep & _ & HRc2 & _).
  assert (ep = p) by congruence. subst ep.
  assert (NDc : NoDup (ids3 c)).
  { apply nodup_node in NDp2. apply NDp2. }
  destruct (insert_descend_spec ds2 nm c (d_child p) (S (length ds2)) parent Eq HRc2 HNE2)
    as (prev & ord & Edesc & Hdesc).
  { pose proof (Rep3_size _ _ _ HRc2 NDc). lia. }
  rewrite Edesc. apply tot_bind_lift_ok. cbv beta iota.
  assert (HprevT : In prev (ids3 T) /\ exists pe0, nthN ds2 prev = Some pe0 /\
            ((ord = Lt /\ d_left pe0 = NO_STREAM) \/ (ord = Gt /\ d_right pe0 = NO_STREAM) \/
             (ord = Eq /\ prev = parent /\ d_child pe0 = NO_STREAM))).
  { destruct Hdesc as [(-> & -> & ->)|(Hin & pe0 & Hpe0 & Hor')].
    - split; [exact Hparent|]. exists p. split; [exact Hp2|]. right. right.
      split; [reflexivity|]. split; [reflexivity|]. cbn [Rep3] in HRc2. exact HRc2.
    - split; [apply Hincl; apply incl_node_c; exact Hin|]. exists pe0. split; [exact Hpe0|].
      destruct Hor' as [H|H]; [left|right; left]; exact H. }
  destruct HprevT as (HprevT & pe0 & Hpe0 & Hord).
  eapply tot_bind.
  { eapply tot_conseq; [apply (dir_entry_tot (fun s => s = s2) prev)| | |].
    - intros s ->. split; [reflexivity|]. rewrite Hd2. eapply nthN_Some_lt; eauto.
    - intros e s H; exact H.
    - intros s ->. exact Hm2. }
  intros pe. cbv beta.
  apply (tot_pre (fun s => pe = pe0 /\ s = s2)).
  2:{ intros s (-> & He). rewrite Hd2 in He. split; [congruence|reflexivity]. }
  apply tot_pure_pre. intros ->.
  (* 3. the link *)
  assert (Hlink : forall (pv : N) pe' off bs,
     pv = prev ->
     ((d_left pe0 = NO_STREAM /\ pe' = set_left pe0 id) \/
      (d_right pe0 = NO_STREAM /\ pe' = set_right pe0 id) \/
      (d_child pe0 = NO_STREAM /\ pe' = set_child pe0 id /\ prev = parent)) ->
     off <= DIR_ENTRY_LEN ->
     tot (fun s => s = s2) (set_dir_entry pv pe' ;; write_in_dir_entry pv off bs)
         (fun _ s => MInvN n s /\ dirs s = updN ds2 prev pe') (MInvN n)).
  { intros pv pe' off bs -> Hcase Hoff.
    assert (Hcase' : (d_left pe0 = NO_STREAM /\ pe' = set_left pe0 id) \/
                     (d_right pe0 = NO_STREAM /\ pe' = set_right pe0 id) \/
                     (d_child pe0 = NO_STREAM /\ pe' = set_child pe0 id)) by tauto.
    assert (Hm3 : MInvN n (w_dirs s2 (updN ds2 prev pe'))).
    { apply Core_set_dirs; [exact Hm2|]. destruct Hm2 as [_ ((HR & HE & HD) & _)]. rewrite Hd2 in *.
      pose proof (Forall_nthN _ _ _ _ HE Hpe0) as [Hnm0 Hc0].
      split; [|split].
      - destruct HR as (r0 & Hr0 & Hr1 & Hr2). destruct (N.eq_dec prev ROOT_STREAM_ID) as [E|E].
        + exists pe'. split; [rewrite E; apply nthN_updN_eq; rewrite <- E; eapply nthN_Some_lt; eauto|].
          rewrite E in Hpe0. assert (r0 = pe0) by congruence. subst r0.
          destruct Hcase' as [[_ ->]|[[_ ->]|[_ ->]]]; cbn; auto.
        + exists r0. split; [rewrite nthN_updN_ne; [exact Hr0|congruence]|auto].
      - apply Forall_updN; [exact HE|].
        destruct Hcase as [[_ ->]|[[_ ->]|(_ & -> & Hpp)]]; split; cbn; auto.
        intros Hst. exfalso. rewrite Hpp in Hpe0. assert (pe0 = p) by congruence. subst pe0. contradiction.
      - split; [|unfold ds2; rewrite !lenN_updN; exact Hn1].
        eapply (Good_graft ds2 T prev pe0 pe' id enew GT2 HprevT HidT Hpe0 Hcase' Hen2).
        + repeat split; reflexivity.
        + unfold enew. cbn. destruct Hty as [-> | ->]; cbn; auto.
        + exact Hroot_id. }
    eapply tot_bind with (Q := fun _ s => MInvN n s /\ dirs s = updN ds2 prev pe').
    { eapply tot_conseq; [apply (set_dir_entry_tot (fun s => s = s2) (MInvN n) prev pe')| | |].
      - intros s ->. rewrite Hd2. split; [eapply nthN_Some_lt; eauto|exact Hm3].
      - intros s H; exact H.
      - intros ? s (s0 & -> & ->). rewrite Hd2. split; [exact Hm3|reflexivity].
      - intros s H; exact H. }
    intros ?.
    eapply tot_pre; [apply (write_in_dir_entry_tot (fun s => MInvN n s /\ dirs s = updN ds2 prev pe') (MInvN n) prev off bs)|].
    - apply xstable_and; [apply xstable_Core|]. intros s s' [(_&_&_&_&Hds&_) _] H. congruence.
    - apply xstable_Core.
    - exact Hoff.
    - intros s [H1 H2]. split; [split; assumption|exact H1]. }
  set (pe'' := match ord with Lt => set_left pe0 id | Gt => set_right pe0 id | Eq => set_child pe0 id end).
  eapply tot_bind with (Q := fun _ s => MInvN n s /\ dirs s = updN ds2 prev pe'').
  { unfold pe''. destruct Hord as [[-> Hl0]|[[-> Hl0]|(-> & Hpp & Hl0)]].
    - apply Hlink; [reflexivity|left; auto|unfold DE_OFF_LEFT, DIR_ENTRY_LEN; lia].
    - apply Hlink; [reflexivity|right; left; auto|unfold DE_OFF_RIGHT, DIR_ENTRY_LEN; lia].
    - apply Hlink; [symmetry; exact Hpp|right; right; auto|unfold DE_OFF_CHILD, DIR_ENTRY_LEN; lia]. }
  intros ?.
  set (ds3 := updN ds2 prev pe'').
  set (X := fun s => Aux (DTn n) s /\ dirs s = ds3).
  assert (HX : astable X) by (apply astable_and; [apply astable_Aux|apply (astable_dirs (fun d => d = ds3))]).
  assert (Hid3 : id < lenN ds3).
  { unfold ds3, ds2. rewrite !lenN_updN. exact Hidlt. }
  eapply tot_bind with (Q := fun _ => AX X).
  { eapply tot_conseq; [apply (write_dir_entry_tot X id HX)| | |].
    - intros s [Ha Hd]. rewrite Hd. split; [exact Hid3|]. rewrite <- Hd. apply Ha.
    - intros s [[Ha Hx] Hd]. split; [exact Ha|]. split; assumption.
    - intros ? s H; exact H.
    - intros s [Ha [Hx _]]. split; assumption. }
  intros ?. apply tot_ret. intros s [Ha [Hx Hd]]. split; [split; assumption|]. split; [split; assumption|].
  rewrite Hd. exact Hid3.
Qed.

(* ================================================================== *)
(* 11. remove_dir_entry                                                *)
(* ================================================================== *)
From Cfb.proofs Require DirProofs StrictProofs.

(* the sibling tree (left/right links only) inside a t3 *)
Fixpoint sib3 (t : t3) : DirProofs.btree :=
  match t with
  | L3 => DirProofs.BL
  | N3 l i c r => DirProofs.BN (sib3 l) i (sib3 r)
  end.

Lemma sib3_rep ds : forall t r, Rep3 ds r t -> DirProofs.Rep ds r (sib3 t).
Proof.
  induction t as [|l IHl i c _ r IHr]; intros root H; cbn [Rep3 sib3 DirProofs.Rep] in *; [exact H|].
  destruct H as (E & Hne & e & He & Hl & _ & Hr). split; [exact E|]. split; [exact Hne|].
  exists e. split; [exact He|]. split; auto.
Qed.

Lemma sib3_in : forall t j, In j (DirProofs.ids (sib3 t)) -> In j (ids3 t).
Proof.
  induction t as [|l IHl i c _ r IHr]; intros j H; cbn [sib3] in H; [destruct H|].
  apply DirProofs.in_node in H. apply in_node. destruct H as [H|[H|H]]; auto.
Qed.

Lemma sib3_nodup : forall t, NoDup (ids3 t) -> NoDup (DirProofs.ids (sib3 t)).
Proof.
  induction t as [|l IHl i c _ r IHr]; intros H; cbn [sib3]; [constructor|].
  apply nodup_node in H. destruct H as ((Hic & Hir & Hil) & NDc & NDr & NDl & Hd1 & Hd2).
  apply DirProofs.nodup_node. split; [auto|]. split; [auto|].
  split; [intros Hx; apply Hil; apply sib3_in; exact Hx|].
  split; [intros Hx; apply Hir; apply sib3_in; exact Hx|].
  intros x Hl Hr. apply (Hd2 x); apply sib3_in; assumption.
Qed.

Definition CoreW : cstate -> Prop := Core (fun _ => True).

Lemma MInv_CoreW s : MInv s -> CoreW s.
Proof. intros [Ha ((HR & HE & _) & HM & Hs)]. split; [exact Ha|]. split; [|split; assumption]. repeat split; assumption. Qed.

Lemma CoreW_MInv s : CoreW s -> DirTree (dirs s) -> MInv s.
Proof. intros [Ha ((HR & HE & _) & HM & Hs)] HD. split; [exact Ha|]. split; [|split; assumption]. repeat split; assumption. Qed.

Lemma CoreW_upd s j e e' : CoreW s -> nthN (dirs s) j = Some e ->
  d_name e' = d_name e -> d_type e' = d_type e -> d_len e' = d_len e ->
  (d_type e = TStream -> d_child e' = NO_STREAM) ->
  CoreW (w_dirs s (updN (dirs s) j e')).
Proof.
  intros Hc He Hn Ht Hl Hch. apply Core_set_dirs; [exact Hc|].
  destruct Hc as [_ ((HR & HE & _) & _)]. split; [|split; [|exact I]].
  - destruct HR as (r & Hr & Hrt & Hrl). destruct (N.eq_dec j ROOT_STREAM_ID) as [->|Hne].
    + assert (r = e) by congruence. subst r. exists e'.
      split; [apply nthN_updN_eq; eapply nthN_Some_lt; eauto|]. split; congruence.
    + exists r. split; [rewrite nthN_updN_ne; [exact Hr|congruence]|auto].
  - apply Forall_updN; [exact HE|]. pose proof (Forall_nthN _ _ _ _ HE He) as [H1 H2].
    split; [rewrite Hn; exact H1|]. rewrite Ht. exact Hch.
Qed.

(* read-modify-write of one entry that keeps name, type, length and (for a stream) the empty child *)
Definition PayloadOk (f : dirent -> dirent) : Prop :=
  forall e, d_name (f e) = d_name e /\ d_type (f e) = d_type e /\ d_len (f e) = d_len e /\
            d_child (f e) = d_child e.

Definition WL (L : N) (s : cstate) : Prop := CoreW s /\ lenN (dirs s) = L.

Lemma xstable_WL L : xstable (WL L).
Proof.
  apply xstable_and; [apply xstable_Core|]. intros s s' [(_&_&_&_&Hds&_) _] H. congruence.
Qed.

Lemma rmw_tot L j f : PayloadOk f -> j < L ->
  tot (WL L) (do e <- dir_entry j; set_dir_entry j (f e)) (fun _ => WL L) (WL L).
Proof.
  intros Hf Hj.
  eapply tot_bind.
  { eapply tot_pre; [apply (dir_entry_tot (WL L) j)|]. intros s H. split; [exact H|]. destruct H as [_ ->]. exact Hj. }
  intros e. cbv beta.
  eapply tot_conseq; [apply (set_dir_entry_tot (fun s => WL L s /\ nthN (dirs s) j = Some e) (WL L) j (f e))| | |].
  - intros s [[Hc Hl] He]. split; [rewrite Hl; exact Hj|]. destruct (Hf e) as (A & B & C & D). split.
    + apply CoreW_upd with (e := e); auto. intros Hst. rewrite D.
      destruct Hc as [_ ((_ & HE & _) & _)]. apply (Forall_nthN _ _ _ _ HE He). exact Hst.
    + cbn [dirs w_dirs]. rewrite lenN_updN. exact Hl.
  - intros s H; exact H.
  - intros ? s (s0 & [[Hc Hl] He] & ->). destruct (Hf e) as (A & B & C & D). split.
    + apply CoreW_upd with (e := e); auto. intros Hst. rewrite D.
      destruct Hc as [_ ((_ & HE & _) & _)]. apply (Forall_nthN _ _ _ _ HE He). exact Hst.
    + cbn [dirs w_dirs]. rewrite lenN_updN. exact Hl.
  - intros s H; exact H.
Qed.

Lemma rmw_then {B} L j f (k : M B) (R : B -> cstate -> Prop) : PayloadOk f -> j < L ->
  tot (WL L) k R (WL L) ->
  tot (WL L) (do e <- dir_entry j; (set_dir_entry j (f e) ;; k)) R (WL L).
Proof.
  intros Hf Hj Hk.
  eapply tot_bind.
  { eapply tot_pre; [apply (dir_entry_tot (WL L) j)|]. intros s H. split; [exact H|]. destruct H as [_ ->]. exact Hj. }
  intros e. cbv beta.
  eapply tot_bind with (Q := fun _ => WL L); [|intros ?; exact Hk].
  eapply tot_conseq; [apply (set_dir_entry_tot (fun s => WL L s /\ nthN (dirs s) j = Some e) (WL L) j (f e))| | |].
  - intros s [[Hc Hl] He]. split; [rewrite Hl; exact Hj|]. destruct (Hf e) as (A & B0 & C & D). split.
    + apply CoreW_upd with (e := e); auto. intros Hst. rewrite D.
      destruct Hc as [_ ((_ & HE & _) & _)]. apply (Forall_nthN _ _ _ _ HE He). exact Hst.
    + cbn [dirs w_dirs]. rewrite lenN_updN. exact Hl.
  - intros s H; exact H.
  - intros ? s (s0 & [[Hc Hl] He] & ->). destruct (Hf e) as (A & B0 & C & D). split.
    + apply CoreW_upd with (e := e); auto. intros Hst. rewrite D.
      destruct Hc as [_ ((_ & HE & _) & _)]. apply (Forall_nthN _ _ _ _ HE He). exact Hst.
    + cbn [dirs w_dirs]. rewrite lenN_updN. exact Hl.
  - intros s H; exact H.
Qed.

Lemma write_entries_tot L : forall ids, Forall (fun j => j < L) ids ->
  tot (WL L) (write_entries ids) (fun _ => WL L) (WL L).
Proof.
  induction ids as [|j t IH]; intros Hall; cbn [write_entries]; [apply tot_ret; auto|].
  inversion Hall as [|? ? Hj Ht]; subst.
  set (X := fun s => Aux (fun _ => True) s /\ lenN (dirs s) = L).
  assert (HX : astable X) by (apply astable_and; [apply astable_Aux|apply (astable_dirs (fun d => lenN d = L))]).
  eapply tot_bind with (Q := fun _ => WL L); [|intros ?; apply IH; exact Ht].
  eapply tot_conseq; [apply (write_dir_entry_tot X j HX)| | |].
  - intros s [Ha Hl]. rewrite Hl. split; [exact Hj|]. apply Ha.
  - intros s [[Ha Hx] Hl]. split; [exact Ha|]. split; assumption.
  - intros ? s [Ha [Hx Hl]]. split; [split; assumption|exact Hl].
  - intros s [Ha [Hx Hl]]. split; [split; assumption|exact Hl].
Qed.

Lemma PayloadOk_color c : PayloadOk (fun e => set_color e c). Proof. intros e. repeat split. Qed.
Lemma PayloadOk_left v : PayloadOk (fun e => set_left e v). Proof. intros e. repeat split. Qed.
Lemma PayloadOk_right v : PayloadOk (fun e => set_right e v). Proof. intros e. repeat split. Qed.
Lemma PayloadOk_right_color v c : PayloadOk (fun e => set_color (set_right e v) c).
Proof. intros e. repeat split. Qed.

Lemma rep_root_lt ds t root : DirProofs.Rep ds root t -> root <> NO_STREAM -> root < lenN ds.
Proof.
  intros H Hne. destruct t as [|l i r]; cbn [DirProofs.Rep] in H; [contradiction|].
  destruct H as (-> & _ & e & He & _). eapply nthN_Some_lt; eauto.
Qed.

Lemma splice_block_tot ds0 x e bl br :
  DirProofs.Rep ds0 (d_left e) bl -> DirProofs.Rep ds0 (d_right e) br ->
  NoDup (DirProofs.ids bl) -> nthN ds0 x = Some e ->
  tot (fun s => WL (lenN ds0) s /\ dirs s = ds0) (DirProofs.splice_block x e)
      (fun rt s => WL (lenN ds0) s /\
         Forall (fun j => j < lenN ds0) (snd rt) /\
         (forall j, ~ In j (DirProofs.ids bl ++ DirProofs.ids br) -> nthN (dirs s) j = nthN ds0 j))
      (WL (lenN ds0)).
Proof.
  intros Hbl Hbr NDl Hx. set (L := lenN ds0).
  (* the pure projection gives the frame part *)
  assert (Hspec : spec (fun s => dirs s = ds0) (DirProofs.splice_block x e)
            (fun rt s => forall j, ~ In j (DirProofs.ids bl ++ DirProofs.ids br) -> nthN (dirs s) j = nthN ds0 j)
            (fun _ => True)).
  { intros s Hd. split; [exact I|]. intros [repl touched] Ha.
    destruct (DirProofs.splice_block x e s) as [s' r'] eqn:E. cbn [fst snd] in *. subst r'.
    destruct (DirProofs.splice_proj _ _ _ _ _ _ E) as (pp & pred & Hfp & Htbl). rewrite Hd in *.
    intros j Hj. replace (dirs s') with (fst (DirProofs.splice_tbl ds0 x e pp pred)) by (rewrite <- Htbl; reflexivity).
    apply DirProofs.splice_untouched. intros Hin. apply Hj.
    eapply DirProofs.splice_touched_in; [exact Hx|exact Hbl|exact Hbr| |exact Hin].
    intros A B. eexists. apply Hfp; assumption. }
  assert (Hcore : tot (fun s => WL L s /\ dirs s = ds0) (DirProofs.splice_block x e)
                       (fun rt s => WL L s /\ Forall (fun j => j < L) (snd rt)) (WL L)).
  2:{ eapply tot_conseq; [apply (tot_and_spec _ _ _ _ _ _ _ Hcore Hspec)| | |].
      - intros s [H Hd]. split; [split; assumption|exact Hd].
      - intros rt s [[H1 H2] H3]. auto.
      - intros s [H _]. exact H. }
  unfold DirProofs.splice_block. cbv zeta.
  assert (Hret : forall (v : N * list N), Forall (fun j => j < L) (snd v) ->
            tot (WL L) (ret v) (fun rt s => WL L s /\ Forall (fun j => j < L) (snd rt)) (WL L)).
  { intros v Hv. apply tot_ret. intros s H. split; [exact H|]. split; [exact H|exact Hv]. }
  apply (tot_pre (fun s => dirs s = ds0 /\ WL L s)); [|intros s [A B]; auto].
  destruct (N.eqb_spec (d_left e) NO_STREAM) as [Hl|Hl]; cbn [orb].
  - (* no left child *)
    destruct (N.eqb_spec (d_right e) NO_STREAM) as [Hr|Hr]; cbn [negb].
    + eapply tot_pre; [apply Hret; constructor|]. intros s [_ H]; exact H.
    + eapply tot_pre; [apply (rmw_then L (d_right e) (fun ce => set_color ce Black))|intros s [_ H]; exact H].
      * apply PayloadOk_color.
      * eapply rep_root_lt; eauto.
      * apply Hret. cbn [snd]. constructor; [eapply rep_root_lt; eauto|constructor].
  - destruct (N.eqb_spec (d_right e) NO_STREAM) as [Hr|Hr]; cbn [negb orb].
    + destruct (N.eqb_spec (d_left e) NO_STREAM) as [|_]; [contradiction|]. cbn [negb].
      eapply tot_pre; [apply (rmw_then L (d_left e) (fun ce => set_color ce Black))|intros s [_ H]; exact H].
      * apply PayloadOk_color.
      * eapply rep_root_lt; eauto.
      * apply Hret. cbn [snd]. constructor; [eapply rep_root_lt; eauto|constructor].
    + (* two children: the in-order predecessor takes the place *)
      destruct bl as [|ll li lr]; [cbn [DirProofs.Rep] in Hbl; contradiction|].
      pose proof Hbl as Hbl0. cbn [DirProofs.Rep] in Hbl. destruct Hbl as (Eli & Hline & eli & Heli & Hll & Hlr).
      apply tot_get_bind. intros s0 [Hd0 H0]. rewrite Hd0.
      assert (Hfuel : (length (DirProofs.ids lr) < S (length ds0))%nat).
      { apply DirProofs.nodup_node in NDl. destruct NDl as (_ & NDr & _).
        pose proof (DirProofs.rep_length _ _ _ Hlr NDr). lia. }
      pose proof Hbl0 as Hbl1. rewrite Eli in Hbl1.
      rewrite Eli. rewrite (DirProofs.find_pred_total ds0 lr ll li x (S (length ds0)) Hbl1 Hfuel).
      apply tot_bind_lift_ok.
      destruct (DirProofs.tree_pred x li lr) as [pp pred] eqn:Etp. cbv beta iota.
      destruct (DirProofs.tree_pred_in2 _ _ _ _ _ Etp) as [Hpp Hpred].
      assert (Hin_lt : forall j, In j (li :: DirProofs.ids lr) -> j < L).
      { intros j Hj. apply (DirProofs.rep_ids _ _ _ Hbl1). apply DirProofs.in_node.
        destruct Hj as [<-|Hj]; [right; left; reflexivity|right; right; exact Hj]. }
      assert (Hpred_lt : pred < L) by (apply Hin_lt; exact Hpred).
      assert (Hpred_in : In pred (DirProofs.ids (DirProofs.BN ll li lr))).
      { apply DirProofs.in_node. destruct Hpred as [<-|Hj]; [right; left; reflexivity|right; right; exact Hj]. }
      eapply tot_bind.
      { eapply tot_conseq; [apply (dir_entry_tot (fun s => s = s0) pred)| | |].
        - intros s ->. split; [reflexivity|]. rewrite Hd0. exact Hpred_lt.
        - intros pe s H; exact H.
        - intros s ->. exact H0. }
      intros pe. cbv beta.
      apply (tot_pre (fun s => nthN ds0 pred = Some pe /\ WL L s)).
      2:{ intros s [-> He]. rewrite Hd0 in He. split; [exact He|exact H0]. }
      apply tot_pure_pre. intros Hpe.
      assert (Hpl_lt : d_left pe <> NO_STREAM -> d_left pe < L).
      { intros Hne. apply (DirProofs.rep_ids _ _ _ Hbl1).
        eapply DirProofs.rep_left_in; eauto. }
      eapply tot_bind with (Q := fun t1 s => Forall (fun j => j < L) t1 /\ WL L s).
      { destruct (N.eqb_spec (d_left pe) NO_STREAM) as [Hpl|Hpl]; cbn [negb].
        - apply tot_ret. intros s H. split; [exact H|]. split; [constructor|exact H].
        - apply (rmw_then L (d_left pe) (fun ple => set_color ple Black)); [apply PayloadOk_color|auto|].
          apply tot_ret. intros s H. split; [exact H|]. split; [|exact H]. constructor; [auto|constructor]. }
      intros t1. apply tot_pure_pre. intros Ht1.
      eapply tot_bind with (Q := fun t2 s => Forall (fun j => j < L) t2 /\ WL L s).
      { destruct (N.eqb_spec pp x) as [Hppx|Hppx]; cbn [negb].
        - apply tot_ret. intros s H. split; [exact H|]. split; [constructor|exact H].
        - assert (Hpp_lt : pp < L).
          { destruct Hpp as [->|Hpp]; [contradiction|apply Hin_lt; exact Hpp]. }
          apply (rmw_then L pp (fun ppe => set_right ppe (d_left pe))); [apply PayloadOk_right|exact Hpp_lt|].
          apply (rmw_then L pred (fun pe' => set_left pe' li)); [apply PayloadOk_left|exact Hpred_lt|].
          apply tot_ret. intros s H. split; [exact H|]. split; [|exact H]. constructor; [exact Hpp_lt|constructor]. }
      intros t2. apply tot_pure_pre. intros Ht2.
      apply (rmw_then L pred (fun pe' => set_color (set_right pe' (d_right e)) (d_color e)));
        [apply PayloadOk_right_color|exact Hpred_lt|].
      apply Hret. cbn [snd]. apply Forall_app. split; [exact Ht1|]. apply Forall_app. split; [exact Ht2|].
      constructor; [exact Hpred_lt|constructor].
Qed.

Lemma write_entries_tot' ds1 : forall ids, Forall (fun j => j < lenN ds1) ids ->
  tot (fun s => CoreW s /\ dirs s = ds1) (write_entries ids) (fun _ s => CoreW s /\ dirs s = ds1) CoreW.
Proof.
  induction ids as [|j t IH]; intros Hall; cbn [write_entries]; [apply tot_ret; intros s H; split; [apply H|exact H]|].
  inversion Hall as [|? ? Hj Ht]; subst.
  set (X := fun s => Aux (fun _ => True) s /\ dirs s = ds1).
  assert (HX : astable X) by (apply astable_and; [apply astable_Aux|apply (astable_dirs (fun d => d = ds1))]).
  eapply tot_bind with (Q := fun _ s => CoreW s /\ dirs s = ds1); [|intros ?; apply IH; exact Ht].
  eapply tot_conseq; [apply (write_dir_entry_tot X j HX)| | |].
  - intros s [Ha Hl]. rewrite Hl. split; [exact Hj|]. rewrite <- Hl. apply Ha.
  - intros s [[Ha Hx] Hl]. split; [exact Ha|]. split; assumption.
  - intros ? s [Ha [Hx Hl]]. split; [split; assumption|exact Hl].
  - intros s [Ha [Hx Hl]]. split; assumption.
Qed.

Lemma anc_last_link ds nm x : forall t root sib,
  DirProofs.Rep ds root t -> DirProofs.bst_find ds nm t = Some x ->
  lastN (DirProofs.anc ds nm t) = Some sib ->
  exists se, nthN ds sib = Some se /\ (d_left se = x \/ d_right se = x).
Proof.
  induction t as [|l IHl i r IHr]; intros root sib HR HF HL; [discriminate HF|].
  cbn [DirProofs.Rep] in HR. destruct HR as (_ & _ & e & He & Hl & Hr).
  cbn [DirProofs.bst_find DirProofs.anc] in *. unfold DirProofs.nm_of in *. rewrite He in *.
  destruct (cmp_names nm (d_name e)); [discriminate HL| |].
  - rewrite DirProofs.lastN_cons in HL.
    destruct (lastN (DirProofs.anc ds nm l)) as [y|] eqn:Ea.
    + injection HL as <-. apply (IHl (d_left e)); [exact Hl|exact HF|first [exact Ea|reflexivity]].
    + injection HL as <-. exists e. split; [exact He|]. left.
      destruct l as [|ll li lr]; [discriminate HF|]. cbn [DirProofs.Rep] in Hl. destruct Hl as (El & _).
      cbn [DirProofs.bst_find DirProofs.anc] in *.
      destruct (cmp_names nm (DirProofs.nm_of ds li)).
      * congruence.
      * rewrite DirProofs.lastN_cons in Ea. destruct (lastN (DirProofs.anc ds nm ll)); discriminate Ea.
      * rewrite DirProofs.lastN_cons in Ea. destruct (lastN (DirProofs.anc ds nm lr)); discriminate Ea.
  - rewrite DirProofs.lastN_cons in HL.
    destruct (lastN (DirProofs.anc ds nm r)) as [y|] eqn:Ea.
    + injection HL as <-. apply (IHr (d_right e)); [exact Hr|exact HF|first [exact Ea|reflexivity]].
    + injection HL as <-. exists e. split; [exact He|]. right.
      destruct r as [|rl ri rr]; [discriminate HF|]. cbn [DirProofs.Rep] in Hr. destruct Hr as (Er & _).
      cbn [DirProofs.bst_find DirProofs.anc] in *.
      destruct (cmp_names nm (DirProofs.nm_of ds ri)).
      * congruence.
      * rewrite DirProofs.lastN_cons in Ea. destruct (lastN (DirProofs.anc ds nm rl)); discriminate Ea.
      * rewrite DirProofs.lastN_cons in Ea. destruct (lastN (DirProofs.anc ds nm rr)); discriminate Ea.
Qed.

Lemma anc_disjoint ds nm x : forall t l r,
  NoDup (DirProofs.ids t) -> DirProofs.bst_find ds nm t = Some x -> DirProofs.kids ds nm t = (l, r) ->
  forall j, In j (DirProofs.anc ds nm t) -> ~ In j (DirProofs.ids (DirProofs.BN l x r)).
Proof.
  induction t as [|tl IHl i tr IHr]; intros l r ND HF HK j Hj; [destruct Hj|].
  apply DirProofs.nodup_node in ND. destruct ND as (NDl & NDr & Hil & Hir & Hlr).
  cbn [DirProofs.bst_find DirProofs.anc DirProofs.kids] in *.
  destruct (cmp_names nm (DirProofs.nm_of ds i)); [destruct Hj| |].
  - assert (Hsub : forall y, In y (DirProofs.ids (DirProofs.BN l x r)) -> In y (DirProofs.ids tl)).
    { clear - HF HK. revert l r HF HK. induction tl as [|a IHa b c IHc]; intros l r HF HK y Hy; [discriminate HF|].
      cbn [DirProofs.bst_find DirProofs.kids] in *. apply DirProofs.in_node.
      destruct (cmp_names nm (DirProofs.nm_of ds b)).
      - injection HF as <-. injection HK as <- <-. apply DirProofs.in_node in Hy. exact Hy.
      - left. eapply IHa; eauto.
      - right. right. eapply IHc; eauto. }
    destruct Hj as [<-|Hj].
    + intros Hy. apply Hil. apply Hsub. exact Hy.
    + eapply IHl; eauto.
  - assert (Hsub : forall y, In y (DirProofs.ids (DirProofs.BN l x r)) -> In y (DirProofs.ids tr)).
    { clear - HF HK. revert l r HF HK. induction tr as [|a IHa b c IHc]; intros l r HF HK y Hy; [discriminate HF|].
      cbn [DirProofs.bst_find DirProofs.kids] in *. apply DirProofs.in_node.
      destruct (cmp_names nm (DirProofs.nm_of ds b)).
      - injection HF as <-. injection HK as <- <-. apply DirProofs.in_node in Hy. exact Hy.
      - left. eapply IHa; eauto.
      - right. right. eapply IHc; eauto. }
    destruct Hj as [<-|Hj].
    + intros Hy. apply Hir. apply Hsub. exact Hy.
    + eapply IHr; eauto.
Qed.

Lemma set_then_write L j e e' off bs : j < L -> off <= DIR_ENTRY_LEN ->
  d_name e' = d_name e -> d_type e' = d_type e -> d_len e' = d_len e ->
  (d_type e = TStream -> d_child e' = NO_STREAM) ->
  tot (fun s => WL L s /\ nthN (dirs s) j = Some e)
      (set_dir_entry j e' ;; write_in_dir_entry j off bs) (fun _ => WL L) CoreW.
Proof.
  intros Hj Hoff Hn Ht Hl Hc.
  eapply tot_bind with (Q := fun _ => WL L).
  { eapply tot_conseq; [apply (set_dir_entry_tot (fun s => WL L s /\ nthN (dirs s) j = Some e) (WL L) j e')| | |].
    - intros s [[Hcw HL] He]. split; [rewrite HL; exact Hj|]. split.
      + apply CoreW_upd with (e := e); auto.
      + cbn [dirs w_dirs]. rewrite lenN_updN. exact HL.
    - intros s H; exact H.
    - intros ? s (s0 & [[Hcw HL] He] & ->). split.
      + apply CoreW_upd with (e := e); auto.
      + cbn [dirs w_dirs]. rewrite lenN_updN. exact HL.
    - intros s [H _]; exact H. }
  intros ?. eapply tot_pre; [apply (write_in_dir_entry_tot (WL L) CoreW j off bs (xstable_WL L) (xstable_Core _) Hoff)|].
  intros s H. split; [exact H|apply H].
Qed.

Definition RemPre (parent : N) (nm : name) (x : N) (s : cstate) : Prop :=
  CoreW s /\
  exists p b ex, nthN (dirs s) parent = Some p /\ DirProofs.Rep (dirs s) (d_child p) b /\
    NoDup (DirProofs.ids b) /\ DirProofs.bst_find (dirs s) nm b = Some x /\
    nthN (dirs s) x = Some ex /\ d_child ex = NO_STREAM /\ d_type ex <> TRoot /\
    ~ In parent (DirProofs.ids b).

Lemma bst_find_in ds nm : forall t x, DirProofs.bst_find ds nm t = Some x -> In x (DirProofs.ids t).
Proof.
  induction t as [|l IHl i r IHr]; intros x H; [discriminate H|]. cbn [DirProofs.bst_find] in H.
  apply DirProofs.in_node. destruct (cmp_names nm (DirProofs.nm_of ds i)).
  - injection H as <-. right. left. reflexivity.
  - left. auto.
  - right. right. auto.
Qed.

Lemma remove_dir_entry_inner_fn parent nm x :
  tot (RemPre parent nm x) (remove_dir_entry_inner parent nm) (fun _ => CoreW) CoreW.
Proof.
  unfold remove_dir_entry_inner. apply (tot_fix dirs). intros ds0.
  apply (tot_pre (fun s => (exists p b ex, nthN ds0 parent = Some p /\ DirProofs.Rep ds0 (d_child p) b /\
      NoDup (DirProofs.ids b) /\ DirProofs.bst_find ds0 nm b = Some x /\
      nthN ds0 x = Some ex /\ d_child ex = NO_STREAM /\ d_type ex <> TRoot /\
      ~ In parent (DirProofs.ids b)) /\ (CoreW s /\ dirs s = ds0))).
  2:{ intros s [[Hc Hx] Hd]. rewrite Hd in Hx. auto. }
  apply tot_pure_pre. intros (p & b & ex & Hp & Hb & NDb & HF & Hex & Hchild & Hxty & Hpnb).
  set (L := lenN ds0).
  assert (HxL : x < L) by (eapply nthN_Some_lt; eauto).
  assert (HpL : parent < L) by (eapply nthN_Some_lt; eauto).
  eapply tot_bind.
  { eapply tot_conseq; [apply (dir_entry_tot (fun s => CoreW s /\ dirs s = ds0) parent)| | |].
    - intros s [Hc Hd]. split; [split; assumption|]. rewrite Hd. exact HpL.
    - intros e s H; exact H.
    - intros s [H _]; exact H. }
  intros p'. cbv beta.
  apply (tot_pre (fun s => p' = p /\ (CoreW s /\ dirs s = ds0))).
  2:{ intros s ([Hc Hd] & He). rewrite Hd in He. split; [congruence|auto]. }
  apply tot_pure_pre. intros ->.
  apply tot_get_bind. intros s0 [H0 Hd0]. rewrite Hd0.
  assert (Hsize : (length (DirProofs.ids b) < S (length ds0))%nat).
  { pose proof (DirProofs.rep_length _ _ _ Hb NDb). lia. }
  rewrite (DirProofs.remove_find_spec ds0 nm x b (d_child p) (S (length ds0)) [] Hb HF NDb); [|intros j []|exact Hsize].
  apply tot_bind_lift_ok. cbn [app].
  rewrite DirProofs.lastN_app1, DirProofs.pop_last_app1.
  eapply tot_bind.
  { eapply tot_conseq; [apply (dir_entry_tot (fun s => s = s0) x)| | |].
    - intros s ->. split; [reflexivity|]. rewrite Hd0. exact HxL.
    - intros e s H; exact H.
    - intros s ->. exact H0. }
  intros e. cbv beta.
  apply (tot_pre (fun s => e = ex /\ s = s0)).
  2:{ intros s (-> & He). rewrite Hd0 in He. split; [congruence|reflexivity]. }
  apply tot_pure_pre. intros ->.
  rewrite Hchild, N.eqb_refl. cbn [negb].
  eapply tot_bind with (Q := fun _ s => s = s0); [apply tot_ret; intros s ->; auto|]. intros ?.
  cbv zeta.
  destruct (DirProofs.kids ds0 nm b) as [bl br] eqn:HK.
  destruct (DirProofs.kids_rep _ _ _ _ _ _ _ Hb HF HK) as (KR & KI & KND). specialize (KND NDb).
  pose proof KR as KR0. cbn [DirProofs.Rep] in KR. destruct KR as (_ & Hxne & e0 & He0 & Hbl & Hbr).
  assert (e0 = ex) by congruence. subst e0.
  assert (NDl : NoDup (DirProofs.ids bl)) by (apply DirProofs.nodup_node in KND; apply KND).
  assert (Hkids_lt : forall j, In j (DirProofs.ids bl ++ DirProofs.ids br) -> In j (DirProofs.ids b)).
  { intros j Hj. apply KI. apply DirProofs.in_node. apply in_app_or in Hj. tauto. }
  (* 1. splice *)
  eapply tot_bind.
  { eapply tot_conseq; [apply (splice_block_tot ds0 x ex bl br Hbl Hbr NDl Hex)| | |].
    - intros s ->. split; [split; [exact H0|rewrite Hd0; reflexivity]|exact Hd0].
    - intros rt s H. exact H.
    - intros s [H _]. exact H. }
  intros [repl touched]. cbv beta iota. cbn [snd].
  apply (tot_pre (fun s => Forall (fun j => j < L) touched /\
     (WL L s /\ forall j, ~ In j (DirProofs.ids bl ++ DirProofs.ids br) -> nthN (dirs s) j = nthN ds0 j))).
  2:{ intros s (A & B & C). auto. }
  apply tot_pure_pre. intros Htouched.
  (* 2. write the touched entries *)
  apply (tot_fix dirs). intros ds1.
  apply (tot_pre (fun s => (lenN ds1 = L /\ forall j, ~ In j (DirProofs.ids bl ++ DirProofs.ids br) -> nthN ds1 j = nthN ds0 j)
                           /\ (CoreW s /\ dirs s = ds1))).
  2:{ intros s [[[Hc Hl] Hf] Hd]. rewrite Hd in Hl, Hf. auto. }
  apply tot_pure_pre. intros [HL1 Hfr1].
  eapply tot_bind.
  { apply (write_entries_tot' ds1 touched). rewrite HL1. exact Htouched. }
  intros ?. cbv beta.
  (* 3. relink the parent slot *)
  eapply tot_bind with (Q := fun _ s => WL L s).
  { destruct (lastN (DirProofs.anc ds0 nm b)) as [sib|] eqn:Elast.
    - destruct (anc_last_link _ _ _ _ _ _ Hb HF Elast) as (se & Hse & Hlink).
      assert (Hsib_in : In sib (DirProofs.ids b)).
      { eapply DirProofs.anc_in. eapply DirProofs.lastN_in. exact Elast. }
      assert (Hsib_nt : ~ In sib (DirProofs.ids bl ++ DirProofs.ids br)).
      { intros Hin. apply (anc_disjoint ds0 nm x b bl br NDb HF HK sib).
        - eapply DirProofs.lastN_in. exact Elast.
        - apply DirProofs.in_node. apply in_app_or in Hin. tauto. }
      assert (HsibL : sib < L) by (eapply nthN_Some_lt; eauto).
      assert (Hse1 : nthN ds1 sib = Some se) by (rewrite Hfr1; assumption).
      eapply tot_bind.
      { eapply tot_conseq; [apply (dir_entry_tot (fun s => CoreW s /\ dirs s = ds1) sib)| | |].
        - intros s [Hc Hd]. split; [split; assumption|]. rewrite Hd, HL1. exact HsibL.
        - intros e s H; exact H.
        - intros s [H _]. exact H. }
      intros se'. cbv beta.
      apply (tot_pre (fun s => se' = se /\ (WL L s /\ nthN (dirs s) sib = Some se))).
      2:{ intros s ([Hc Hd] & He). rewrite Hd in He. split; [congruence|]. split; [split; [exact Hc|congruence]|congruence]. }
      apply tot_pure_pre. intros ->.
      assert (Hse_ok : d_type se = TStream -> d_child se = NO_STREAM).
      { destruct H0 as [_ ((_ & HE & _) & _)]. rewrite Hd0 in HE. apply (Forall_nthN _ _ _ _ HE Hse). }
      destruct (N.eqb_spec (d_left se) x) as [Hlx|Hlx].
      + apply (set_then_write L sib se);
          [exact HsibL|unfold DE_OFF_LEFT, DIR_ENTRY_LEN; lia|reflexivity|reflexivity|reflexivity|exact Hse_ok].
      + destruct (N.eqb_spec (d_right se) x) as [Hrx|Hrx]; cbn [negb]; [|destruct Hlink; contradiction].
        apply (set_then_write L sib se);
          [exact HsibL|unfold DE_OFF_RIGHT, DIR_ENTRY_LEN; lia|reflexivity|reflexivity|reflexivity|exact Hse_ok].
    - (* x was the root of the sibling tree *)
      assert (Hp1 : nthN ds1 parent = Some p).
      { rewrite Hfr1; [exact Hp|]. intros Hin. apply Hpnb. apply Hkids_lt. exact Hin. }
      assert (Hpty : d_type p <> TStream).
      { intros Hst. destruct H0 as [_ ((_ & HE & _) & _)]. rewrite Hd0 in HE.
        pose proof (Forall_nthN _ _ _ _ HE Hp) as [_ Hc]. specialize (Hc Hst).
        rewrite Hc in Hb. destruct b; [discriminate HF|]. cbn [DirProofs.Rep] in Hb. destruct Hb as (E & Hne & _). congruence. }
      eapply tot_bind.
      { eapply tot_conseq; [apply (dir_entry_tot (fun s => CoreW s /\ dirs s = ds1) parent)| | |].
        - intros s [Hc Hd]. split; [split; assumption|]. rewrite Hd, HL1. exact HpL.
        - intros e s H; exact H.
        - intros s [H _]. exact H. }
      intros pe'. cbv beta.
      apply (tot_pre (fun s => pe' = p /\ (WL L s /\ nthN (dirs s) parent = Some p))).
      2:{ intros s ([Hc Hd] & He). rewrite Hd in He. split; [congruence|]. split; [split; [exact Hc|congruence]|congruence]. }
      apply tot_pure_pre. intros ->.
      apply (set_then_write L parent p);
        [exact HpL|unfold DE_OFF_CHILD, DIR_ENTRY_LEN; lia|reflexivity|reflexivity|reflexivity|].
      intros Hst. contradiction. }
  intros ?.
  (* 4. free the slot *)
  unfold free_dir_entry.
  assert (Hx0 : x <> ROOT_STREAM_ID).
  { intros ->. destruct H0 as [_ (((r0 & Hr0 & Hrt & _) & _) & _)]. rewrite Hd0 in Hr0.
    assert (r0 = ex) by congruence. subst r0. contradiction. }
  destruct (N.eqb_spec x ROOT_STREAM_ID); [contradiction|].
  eapply tot_bind with (Q := fun _ => WL L).
  { eapply tot_pre; [apply (write_in_dir_entry_tot (WL L) CoreW x 0 _ (xstable_WL L) (xstable_Core _))|].
    - unfold DIR_ENTRY_LEN. lia.
    - intros s H. split; [exact H|apply H]. }
  intros ?.
  eapply tot_conseq; [apply (set_dir_entry_tot (WL L) CoreW x dirent_unallocated)| | |].
  - intros s [Hc HL]. rewrite HL. split; [exact HxL|]. apply Core_set_dirs; [exact Hc|].
    destruct Hc as [_ ((HR & HE & _) & _)]. split; [|split; [|exact I]].
    + destruct HR as (r0 & Hr0 & Hr1). exists r0. split; [rewrite nthN_updN_ne; [exact Hr0|congruence]|exact Hr1].
    + apply Forall_updN; [exact HE|apply EntOk_unallocated].
  - intros s H; exact H.
  - intros ? s (s1 & [Hc HL] & ->). apply Core_set_dirs; [exact Hc|].
    destruct Hc as [_ ((HR & HE & _) & _)]. split; [|split; [|exact I]].
    + destruct HR as (r0 & Hr0 & Hr1). exists r0. split; [rewrite nthN_updN_ne; [exact Hr0|congruence]|exact Hr1].
    + apply Forall_updN; [exact HE|apply EntOk_unallocated].
  - intros s H; exact H.
Qed.

(* ---- rebuilding a t3 from its sibling tree and the child subtrees ---- *)
Fixpoint kid (t : t3) (i : N) : option t3 :=
  match t with
  | L3 => None
  | N3 l j cc r =>
    if i =? j then Some cc
    else match kid l i with Some k => Some k | None => kid r i end
  end.

Fixpoint rebuild (bt : DirProofs.btree) (K : N -> t3) : t3 :=
  match bt with
  | DirProofs.BL => L3
  | DirProofs.BN l i r => N3 (rebuild l K) i (K i) (rebuild r K)
  end.

Definition Kof (t : t3) (i : N) : t3 := match kid t i with Some k => k | None => L3 end.

Lemma kid_None : forall t i, ~ In i (DirProofs.ids (sib3 t)) -> kid t i = None.
Proof.
  induction t as [|l IHl j cc _ r IHr]; intros i H; cbn [kid sib3] in *; [reflexivity|].
  rewrite DirProofs.in_node in H. destruct (N.eqb_spec i j) as [->|Hne]; [exfalso; apply H; auto|].
  rewrite IHl by tauto. apply IHr. tauto.
Qed.

Lemma rebuild_ext K K' : forall bt, (forall i, In i (DirProofs.ids bt) -> K i = K' i) ->
  rebuild bt K = rebuild bt K'.
Proof.
  induction bt as [|l IHl i r IHr]; intros H; cbn [rebuild]; [reflexivity|].
  rewrite IHl, IHr, (H i).
  - reflexivity.
  - apply DirProofs.in_node. auto.
  - intros j Hj. apply H. apply DirProofs.in_node. auto.
  - intros j Hj. apply H. apply DirProofs.in_node. auto.
Qed.

Lemma kid_in_Some : forall l i, In i (DirProofs.ids (sib3 l)) -> kid l i <> None.
Proof.
  induction l as [|a IHa b c _ d IHd]; intros i Hi; cbn [sib3 kid] in *; [destruct Hi|].
  apply DirProofs.in_node in Hi. destruct (N.eqb_spec i b); [discriminate|].
  destruct (kid a i) eqn:Ea; [discriminate|]. destruct Hi as [Hi|[Hi|Hi]].
  - exfalso. apply (IHa i Hi). exact Ea.
  - contradiction.
  - apply IHd. exact Hi.
Qed.

Lemma rebuild_id : forall t, NoDup (DirProofs.ids (sib3 t)) -> rebuild (sib3 t) (Kof t) = t.
Proof.
  induction t as [|l IHl j cc _ r IHr]; intros ND; cbn [sib3 rebuild]; [reflexivity|].
  apply DirProofs.nodup_node in ND. destruct ND as (NDl & NDr & Hjl & Hjr & Hlr).
  assert (Ej : Kof (N3 l j cc r) j = cc) by (unfold Kof; cbn [kid]; rewrite N.eqb_refl; reflexivity).
  rewrite Ej. f_equal.
  - transitivity (rebuild (sib3 l) (Kof l)); [|apply IHl; exact NDl].
    apply rebuild_ext. intros i Hi. unfold Kof. cbn [kid].
    destruct (N.eqb_spec i j) as [->|_]; [contradiction|].
    destruct (kid l i) eqn:E; [reflexivity|]. exfalso. apply (kid_in_Some l i Hi). exact E.
  - transitivity (rebuild (sib3 r) (Kof r)); [|apply IHr; exact NDr].
    apply rebuild_ext. intros i Hi. unfold Kof. cbn [kid].
    destruct (N.eqb_spec i j) as [->|_]; [contradiction|].
    rewrite (kid_None l i); [reflexivity|]. intros Hl. apply (Hlr i Hl Hi).
Qed.

Lemma kid_incl : forall t i k, kid t i = Some k -> incl (ids3 k) (ids3 t) /\ In i (DirProofs.ids (sib3 t)).
Proof.
  induction t as [|l IHl j cc _ r IHr]; intros i k H; cbn [kid] in H; [discriminate H|]. cbn [sib3].
  rewrite DirProofs.in_node.
  destruct (N.eqb_spec i j) as [->|Hne].
  - injection H as <-. split; [apply incl_node_c|auto].
  - destruct (kid l i) as [k'|] eqn:El.
    + injection H as <-. destruct (IHl _ _ El) as [A B]. split; [eapply incl_tran; [exact A|apply incl_node_l]|auto].
    + destruct (IHr _ _ H) as [A B]. split; [eapply incl_tran; [exact A|apply incl_node_r]|auto].
Qed.

Lemma kid_rep ds : forall t r i k, Rep3 ds r t -> kid t i = Some k ->
  In i (DirProofs.ids (sib3 t)) /\
  exists e, nthN ds i = Some e /\ Rep3 ds (d_child e) k /\ incl (ids3 k) (ids3 t).
Proof.
  induction t as [|l IHl j cc _ r IHr]; intros root i k HR H; cbn [kid] in H; [discriminate H|].
  cbn [Rep3] in HR. destruct HR as (_ & _ & e & He & Hl & Hc & Hr). cbn [sib3].
  destruct (N.eqb_spec i j) as [->|Hne].
  - injection H as <-. split; [apply DirProofs.in_node; auto|]. exists e. split; [exact He|].
    split; [exact Hc|apply incl_node_c].
  - destruct (kid l i) as [k'|] eqn:El.
    + injection H as <-. destruct (IHl _ _ _ Hl El) as (Hin & e' & He' & Hk & Hi).
      split; [apply DirProofs.in_node; auto|]. exists e'. split; [exact He'|]. split; [exact Hk|].
      eapply incl_tran; [exact Hi|apply incl_node_l].
    + destruct (IHr _ _ _ Hr H) as (Hin & e' & He' & Hk & Hi).
      split; [apply DirProofs.in_node; auto|]. exists e'. split; [exact He'|]. split; [exact Hk|].
      eapply incl_tran; [exact Hi|apply incl_node_r].
Qed.

Lemma kid_Some : forall t i, In i (DirProofs.ids (sib3 t)) -> exists k, kid t i = Some k.
Proof.
  induction t as [|l IHl j cc _ r IHr]; intros i H; cbn [sib3 kid] in *; [destruct H|].
  apply DirProofs.in_node in H. destruct (N.eqb_spec i j); [eauto|].
  destruct H as [H|[H|H]]; [|contradiction|].
  - destruct (IHl _ H) as [k ->]. eauto.
  - destruct (kid l i); [eauto|apply IHr; exact H].
Qed.

(* child subtrees do not meet the sibling level *)
Lemma kid_disjoint : forall t i k, NoDup (ids3 t) -> kid t i = Some k ->
  forall y, In y (ids3 k) -> ~ In y (DirProofs.ids (sib3 t)).
Proof.
  induction t as [|l IHl j cc _ r IHr]; intros i k ND H y Hy; cbn [kid] in H; [discriminate H|].
  apply nodup_node in ND. destruct ND as ((Hjc & Hjr & Hjl) & NDc & NDr & NDl & Hd1 & Hd2).
  cbn [sib3]. rewrite DirProofs.in_node.
  destruct (N.eqb_spec i j) as [->|Hne].
  - injection H as <-. destruct (Hd1 _ Hy) as [A B].
    intros [Hl|[->|Hr]]; [apply B; apply sib3_in; exact Hl|contradiction|apply A; apply sib3_in; exact Hr].
  - destruct (kid l i) as [k'|] eqn:El.
    + injection H as <-. destruct (kid_incl _ _ _ El) as [Hinc _].
      pose proof (Hinc _ Hy) as Hyl.
      intros [Hl|[->|Hr]].
      * exact (IHl _ _ NDl El y Hy Hl).
      * contradiction.
      * apply (Hd2 y); [apply sib3_in; exact Hr|exact Hyl].
    + destruct (kid_incl _ _ _ H) as [Hinc _]. pose proof (Hinc _ Hy) as Hyr.
      intros [Hl|[->|Hr]].
      * apply (Hd2 y Hyr). apply sib3_in. exact Hl.
      * contradiction.
      * exact (IHr _ _ NDr H y Hy Hr).
Qed.

From Coq Require Import Permutation.

Definition Gk (K : N -> t3) (i : N) : list N := i :: ids3 (K i).

Lemma rebuild_perm K : forall bt,
  Permutation (ids3 (rebuild bt K)) (flat_map (Gk K) (DirProofs.ids bt)).
Proof.
  induction bt as [|l IHl i r IHr]; cbn [rebuild ids3 DirProofs.ids]; [constructor|].
  rewrite flat_map_app. cbn [flat_map]. unfold Gk at 2. cbn [app].
  (* i :: K ++ R ++ L   ~   L' ++ i :: K ++ R' *)
  apply Permutation_cons_app.
  rewrite app_assoc. eapply Permutation_trans; [apply Permutation_app_comm|].
  apply Permutation_app; [exact IHl|]. apply Permutation_app_head. exact IHr.
Qed.

Lemma rebuild_rep ds K : forall bt root, DirProofs.Rep ds root bt ->
  (forall i, In i (DirProofs.ids bt) -> exists e, nthN ds i = Some e /\ Rep3 ds (d_child e) (K i)) ->
  Rep3 ds root (rebuild bt K).
Proof.
  induction bt as [|l IHl i r IHr]; intros root HR HK; cbn [DirProofs.Rep rebuild Rep3] in *; [exact HR|].
  destruct HR as (E & Hne & e & He & Hl & Hr). split; [exact E|]. split; [exact Hne|].
  exists e. split; [exact He|].
  destruct (HK i) as (e' & He' & Hk); [apply DirProofs.in_node; auto|].
  assert (e' = e) by congruence. subst e'.
  split; [|split; [exact Hk|]].
  - apply IHl; [exact Hl|]. intros j Hj. apply HK. apply DirProofs.in_node. auto.
  - apply IHr; [exact Hr|]. intros j Hj. apply HK. apply DirProofs.in_node. auto.
Qed.

Lemma flat_map_remove_perm (G : N -> list N) x : forall l, NoDup l -> In x l ->
  Permutation (flat_map G l) (G x ++ flat_map G (remove N.eq_dec x l)).
Proof.
  induction l as [|a l IH]; intros ND Hin; [destruct Hin|].
  inversion ND as [|? ? Ha NDl]; subst. cbn [flat_map remove].
  destruct (N.eq_dec x a) as [->|Hne].
  - rewrite notin_remove by exact Ha. apply Permutation_refl.
  - destruct Hin as [->|Hin]; [contradiction|]. cbn [flat_map].
    rewrite (IH NDl Hin). rewrite !app_assoc. apply Permutation_app_tail. apply Permutation_app_comm.
Qed.

Lemma NoDup_perm_app_r {A} (a b l : list A) : Permutation l (a ++ b) -> NoDup l -> NoDup b.
Proof. intros HP ND. apply (Permutation_NoDup HP) in ND. apply nodup_app_iff' in ND. apply ND. Qed.

Lemma Rep3_fun ds : forall t r t', Rep3 ds r t -> Rep3 ds r t' -> t = t'.
Proof.
  induction t as [|l IHl i c IHc r IHr]; intros root t' H H'.
  - destruct t' as [|l' i' c' r']; [reflexivity|]. cbn [Rep3] in *. destruct H' as (E & Hne & _). congruence.
  - destruct t' as [|l' i' c' r']; cbn [Rep3] in *.
    + destruct H as (E & Hne & _). congruence.
    + destruct H as (E & Hne & e & He & HL & HC & HR).
      destruct H' as (E' & Hne' & e' & He' & HL' & HC' & HR').
      assert (i = i') by congruence. subst i' root. assert (e = e') by congruence. subst e'.
      f_equal; eauto.
Qed.

Section Replace.
Variables (ds ds' : list dirent) (parent : N) (p p' : dirent) (c c' : t3).
Hypothesis Hp : nthN ds parent = Some p.
Hypothesis Hp' : nthN ds' parent = Some p'.
Hypothesis Hlr : d_left p' = d_left p /\ d_right p' = d_right p.
Hypothesis Hc : Rep3 ds (d_child p) c.
Hypothesis Hc' : Rep3 ds' (d_child p') c'.
Hypothesis Hframe : forall j e, j <> parent -> ~ In j (ids3 c) -> nthN ds j = Some e -> nthN ds' j = Some e.
Hypothesis Hsub : forall y, In y (ids3 c') -> In y (ids3 c).
Hypothesis NDc' : NoDup (ids3 c').

Lemma replace_out : forall t r, Rep3 ds r t -> ~ In parent (ids3 t) ->
  (forall j, In j (ids3 t) -> ~ In j (ids3 c)) -> Rep3 ds' r t.
Proof.
  intros t r HR Hn Hd. apply (Rep3_frame ds ds' t r HR). intros j e Hj He. exists e.
  split; [|repeat split]. apply Hframe; [intros ->; contradiction|apply Hd; exact Hj|exact He].
Qed.

Lemma child_within : forall t r, Rep3 ds r t -> In parent (ids3 t) -> incl (ids3 c) (ids3 t).
Proof.
  induction t as [|l IHl i cc IHc r IHr]; intros root HR Hin; [destruct Hin|].
  cbn [Rep3] in HR. destruct HR as (_ & _ & e & He & Hl & Hcc & Hr).
  apply in_node in Hin. destruct Hin as [->|[Hin|[Hin|Hin]]].
  - assert (e = p) by congruence. subst e. rewrite (Rep3_fun _ _ _ _ Hc Hcc). apply incl_node_c.
  - eapply incl_tran; [apply (IHc _ Hcc Hin)|apply incl_node_c].
  - eapply incl_tran; [apply (IHr _ Hr Hin)|apply incl_node_r].
  - eapply incl_tran; [apply (IHl _ Hl Hin)|apply incl_node_l].
Qed.

Lemma replace_in : forall t r, Rep3 ds r t -> NoDup (ids3 t) -> In parent (ids3 t) ->
  exists t', Rep3 ds' r t' /\
    (forall y, In y (ids3 t') <-> (In y (ids3 t) /\ ~ In y (ids3 c)) \/ In y (ids3 c')) /\
    NoDup (ids3 t').
Proof.
  induction t as [|l IHl i cc IHc r IHr]; intros root HR ND Hin; [destruct Hin|].
  pose proof HR as HR0. cbn [Rep3] in HR. destruct HR as (E & Hine & e & He & Hl & Hcc & Hr).
  apply nodup_node in ND. destruct ND as ((Hic & Hir & Hil) & NDc & NDr & NDl & Hd1 & Hd2).
  apply in_node in Hin. destruct Hin as [Hpi|Hin].
  - (* this node is the parent *)
    subst root. rename Hpi into Hpi0. subst i. assert (e = p) by congruence. subst e.
    pose proof (Rep3_fun _ _ _ _ Hc Hcc) as Ecc. subst cc.
    destruct Hlr as [Hl' Hr'].
    assert (HL' : Rep3 ds' (d_left p') l).
    { rewrite Hl'. apply replace_out; [exact Hl|exact Hil|]. intros j Hj Hjc. destruct (Hd1 _ Hjc) as [_ B]. contradiction. }
    assert (HR' : Rep3 ds' (d_right p') r).
    { rewrite Hr'. apply replace_out; [exact Hr|exact Hir|]. intros j Hj Hjc. destruct (Hd1 _ Hjc) as [A _]. contradiction. }
    exists (N3 l parent c' r). split; [|split].
    + cbn [Rep3]. split; [reflexivity|]. split; [exact Hine|]. exists p'. split; [exact Hp'|].
      split; [exact HL'|split; [exact Hc'|exact HR']].
    + intros y. rewrite !in_node. split.
      * intros [->|[H|[H|H]]].
        -- left. split; [left; reflexivity|exact Hic].
        -- right. exact H.
        -- left. split; [auto|]. intros Hyc. destruct (Hd1 _ Hyc) as [A _]. contradiction.
        -- left. split; [auto|]. intros Hyc. destruct (Hd1 _ Hyc) as [_ B]. contradiction.
      * intros [[[->|[H|[H|H]]] Hn]|H]; auto. contradiction.
    + apply nodup_node. split; [|split; [exact NDc'|split; [exact NDr|split; [exact NDl|split; [|exact Hd2]]]]].
      * repeat split; try assumption. intros H. apply Hic. apply Hsub. exact H.
      * intros y Hy. apply Hd1. apply Hsub. exact Hy.
  - assert (Hpi : parent <> i).
    { intros ->. destruct Hin as [H|[H|H]]; contradiction. }
    assert (Hi' : nthN ds' i = Some e).
    { apply Hframe; [congruence| |exact He]. intros Hic'.
      pose proof (child_within _ _ HR0) as Hw.
      (* c lies in the subtree that holds the parent, which does not hold i *)
      destruct Hin as [H|[H|H]].
      - apply Hic. apply (child_within _ _ Hcc H). exact Hic'.
      - apply Hir. apply (child_within _ _ Hr H). exact Hic'.
      - apply Hil. apply (child_within _ _ Hl H). exact Hic'. }
    destruct Hin as [Hin|[Hin|Hin]].
    + pose proof (child_within _ _ Hcc Hin) as Hw.
      destruct (IHc _ Hcc NDc Hin) as (cc' & Hcc' & Hin' & ND').
      assert (Hccsub : forall y, In y (ids3 cc') -> In y (ids3 cc)).
      { intros y Hy. apply Hin' in Hy. destruct Hy as [[H _]|H]; [exact H|apply Hw; apply Hsub; exact H]. }
      exists (N3 l i cc' r). split; [|split].
      * cbn [Rep3]. split; [exact E|]. split; [exact Hine|]. exists e. split; [exact Hi'|].
        split; [|split; [exact Hcc'|]].
        -- apply replace_out; [exact Hl| |].
           ++ intros H. destruct (Hd1 _ Hin) as [_ B]. contradiction.
           ++ intros j Hj Hjc. destruct (Hd1 _ (Hw _ Hjc)) as [_ B]. contradiction.
        -- apply replace_out; [exact Hr| |].
           ++ intros H. destruct (Hd1 _ Hin) as [A _]. contradiction.
           ++ intros j Hj Hjc. destruct (Hd1 _ (Hw _ Hjc)) as [A _]. contradiction.
      * intros y. rewrite !in_node, Hin'. split.
        -- intros [->|[[[H Hn]|H]|[H|H]]].
           ++ left. split; [left; reflexivity|]. intros Hyc. apply Hic. apply Hw. exact Hyc.
           ++ left. split; [auto|exact Hn].
           ++ right. exact H.
           ++ left. split; [auto|]. intros Hyc. destruct (Hd1 _ (Hw _ Hyc)) as [A _]. contradiction.
           ++ left. split; [auto|]. intros Hyc. destruct (Hd1 _ (Hw _ Hyc)) as [_ B]. contradiction.
        -- tauto.
      * apply nodup_node. split; [|split; [exact ND'|split; [exact NDr|split; [exact NDl|split; [|exact Hd2]]]]].
        -- repeat split; try assumption. intros H. apply Hic. apply Hccsub. exact H.
        -- intros y Hy. apply Hd1. apply Hccsub. exact Hy.
    + pose proof (child_within _ _ Hr Hin) as Hw.
      destruct (IHr _ Hr NDr Hin) as (r' & Hr' & Hin' & ND').
      assert (Hrsub : forall y, In y (ids3 r') -> In y (ids3 r)).
      { intros y Hy. apply Hin' in Hy. destruct Hy as [[H _]|H]; [exact H|apply Hw; apply Hsub; exact H]. }
      exists (N3 l i cc r'). split; [|split].
      * cbn [Rep3]. split; [exact E|]. split; [exact Hine|]. exists e. split; [exact Hi'|].
        split; [|split; [|exact Hr']].
        -- apply replace_out; [exact Hl| |].
           ++ intros H. apply (Hd2 _ Hin). exact H.
           ++ intros j Hj Hjc. apply (Hd2 _ (Hw _ Hjc)). exact Hj.
        -- apply replace_out; [exact Hcc| |].
           ++ intros H. destruct (Hd1 _ H) as [A _]. contradiction.
           ++ intros j Hj Hjc. destruct (Hd1 _ Hj) as [A _]. apply A. apply Hw. exact Hjc.
      * intros y. rewrite !in_node, Hin'. split.
        -- intros [->|[H|[[[H Hn]|H]|H]]].
           ++ left. split; [left; reflexivity|]. intros Hyc. apply Hir. apply Hw. exact Hyc.
           ++ left. split; [auto|]. intros Hyc. destruct (Hd1 _ H) as [A _]. apply A. apply Hw. exact Hyc.
           ++ left. split; [auto|exact Hn].
           ++ right. exact H.
           ++ left. split; [auto|]. intros Hyc. apply (Hd2 _ (Hw _ Hyc)). exact H.
        -- tauto.
      * apply nodup_node. split; [|split; [exact NDc|split; [exact ND'|split; [exact NDl|split]]]].
        -- repeat split; try assumption. intros H. apply Hir. apply Hrsub. exact H.
        -- intros y Hy. destruct (Hd1 _ Hy) as [A B]. split; [|exact B]. intros H. apply A. apply Hrsub. exact H.
        -- intros y Hy. apply Hd2. apply Hrsub. exact Hy.
    + pose proof (child_within _ _ Hl Hin) as Hw.
      destruct (IHl _ Hl NDl Hin) as (l' & Hl' & Hin' & ND').
      assert (Hlsub : forall y, In y (ids3 l') -> In y (ids3 l)).
      { intros y Hy. apply Hin' in Hy. destruct Hy as [[H _]|H]; [exact H|apply Hw; apply Hsub; exact H]. }
      exists (N3 l' i cc r). split; [|split].
      * cbn [Rep3]. split; [exact E|]. split; [exact Hine|]. exists e. split; [exact Hi'|].
        split; [exact Hl'|split].
        -- apply replace_out; [exact Hcc| |].
           ++ intros H. destruct (Hd1 _ H) as [_ B]. contradiction.
           ++ intros j Hj Hjc. destruct (Hd1 _ Hj) as [_ B]. apply B. apply Hw. exact Hjc.
        -- apply replace_out; [exact Hr| |].
           ++ intros H. apply (Hd2 _ H). exact Hin.
           ++ intros j Hj Hjc. apply (Hd2 _ Hj). apply Hw. exact Hjc.
      * intros y. rewrite !in_node, Hin'. split.
        -- intros [->|[H|[H|[[H Hn]|H]]]].
           ++ left. split; [left; reflexivity|]. intros Hyc. apply Hil. apply Hw. exact Hyc.
           ++ left. split; [auto|]. intros Hyc. destruct (Hd1 _ H) as [_ B]. apply B. apply Hw. exact Hyc.
           ++ left. split; [auto|]. intros Hyc. apply (Hd2 _ H). apply Hw. exact Hyc.
           ++ left. split; [auto|exact Hn].
           ++ right. exact H.
        -- tauto.
      * apply nodup_node. split; [|split; [exact NDc|split; [exact NDr|split; [exact ND'|split]]]].
        -- repeat split; try assumption. intros H. apply Hil. apply Hlsub. exact H.
        -- intros y Hy. destruct (Hd1 _ Hy) as [A B]. split; [exact A|]. intros H. apply B. apply Hlsub. exact H.
        -- intros y Hy H. apply (Hd2 _ Hy). apply Hlsub. exact H.
Qed.
End Replace.

Lemma Good_sub_child ds parent lp c rp p : Good ds parent (N3 lp parent c rp) -> nthN ds parent = Some p ->
  Rep3 ds (d_child p) c /\ NoDup (ids3 c) /\ ~ In parent (ids3 c).
Proof.
  intros (HR & ND & _) Hp. cbn [Rep3] in HR. destruct HR as (_ & _ & e & He & _ & Hc & _).
  assert (e = p) by congruence. subst e. apply nodup_node in ND. destruct ND as ((A & _) & B & _). auto.
Qed.

Theorem remove_dirtree parent nm s s' u T p lp c rp x ex :
  remove_dir_entry parent nm s = (s', Ok u) ->
  Good (dirs s) ROOT_STREAM_ID T -> nthN (dirs s) parent = Some p ->
  Good (dirs s) parent (N3 lp parent c rp) -> incl (ids3 (N3 lp parent c rp)) (ids3 T) ->
  DirProofs.bst_find (dirs s) nm (sib3 c) = Some x -> nthN (dirs s) x = Some ex ->
  d_child ex = NO_STREAM ->
  DirTree (dirs s').
Proof.
  intros Hrem GT Hp Gp Hincl HF Hex Hchild.
  set (ds := dirs s) in *. set (ds' := dirs s').
  destruct (Good_sub_child _ _ _ _ _ _ Gp Hp) as (Hc & NDc & Hpc).
  set (b := sib3 c) in *.
  pose proof (sib3_rep ds c _ Hc) as Hb. fold b in Hb.
  pose proof (sib3_nodup c NDc) as NDb. fold b in NDb.
  assert (Hpb : ~ In parent (DirProofs.ids b)) by (intros H; apply Hpc; apply sib3_in; exact H).
  destruct (DirProofs.remove_core _ _ _ _ _ _ _ _ Hrem Hp Hb NDb HF)
    as (e & pp & pred & bl & br & He & Hce & Hxp & HK & KR & KND & KI & Hds & Hfp & Hnone & p' & Hp' & HR').
  fold ds in He, Hds, Hfp, KR, HK, Hnone. fold ds' in Hds, Hp', HR'.
  assert (e = ex) by congruence. subst e.
  pose proof KR as KR0. cbn [DirProofs.Rep] in KR. destruct KR as (_ & Hxne & e0 & He0 & Hbl & Hbr).
  assert (e0 = ex) by congruence. subst e0.
  assert (Hxb : In x (DirProofs.ids b)) by (eapply bst_find_in; eauto).
  set (sibo := lastN (DirProofs.anc ds nm b)) in *.
  (* F1: entries outside the sibling tree and the parent are untouched *)
  assert (Htouched : forall j, In j (DirProofs.remove_touched ds parent sibo x ex pp pred) ->
                     In j (DirProofs.ids b) \/ j = parent).
  { intros j [<-|[<-|Hj]].
    - left. exact Hxb.
    - destruct sibo as [sib|] eqn:Es; [left|right; reflexivity].
      eapply DirProofs.anc_in. eapply DirProofs.lastN_in. exact Es.
    - left. apply KI. apply DirProofs.in_node.
      assert (In j (DirProofs.ids bl ++ DirProofs.ids br)).
      { eapply DirProofs.splice_touched_in; [exact He|exact Hbl|exact Hbr| |exact Hj].
        intros A B. eexists. apply Hfp; assumption. }
      apply in_app_or in H. tauto. }
  assert (F1 : forall j, ~ In j (DirProofs.ids b) -> j <> parent -> nthN ds' j = nthN ds j).
  { intros j Hjb Hjp. rewrite Hds. apply DirProofs.remove_tbl_untouched. intros Hin.
    destruct (Htouched j Hin); contradiction. }
  assert (F2 : forall j ej, j <> x -> nthN ds j = Some ej ->
            exists e', nthN ds' j = Some e' /\ d_type e' = d_type ej /\ (j <> parent -> d_child e' = d_child ej)).
  { intros j ej Hjx Hej. rewrite Hds.
    destruct (DirProofs.remove_tbl_stable ds parent sibo x ex pp pred j ej Hjx Hej) as (e' & He' & HP & HC).
    exists e'. split; [exact He'|]. split; [apply HP|]. intros Hjp. apply HC. right. exact Hjp. }
  (* F3: the parent keeps its sibling links *)
  assert (F3 : d_left p' = d_left p /\ d_right p' = d_right p).
  { assert (Hps : ~ In parent (DirProofs.splice_touched ds x ex pp pred)).
    { intros Hin. apply Hpb. apply KI. apply DirProofs.in_node.
      assert (In parent (DirProofs.ids bl ++ DirProofs.ids br)).
      { eapply DirProofs.splice_touched_in; [exact He|exact Hbl|exact Hbr| |exact Hin].
        intros A B. eexists. apply Hfp; assumption. }
      apply in_app_or in H. tauto. }
    pose proof (DirProofs.splice_untouched ds x ex pp pred parent Hps) as Hsp.
    rewrite Hds in Hp'. unfold DirProofs.remove_tbl in Hp'.
    destruct (DirProofs.splice_tbl ds x ex pp pred) as [ds1 repl]. cbn [fst] in Hsp.
    rewrite DirProofs.nthN_updN_other in Hp' by congruence.
    unfold DirProofs.relink in Hp'. destruct sibo as [sib|] eqn:Es.
    - assert (sib <> parent).
      { intros ->. apply Hpb. eapply DirProofs.anc_in. eapply DirProofs.lastN_in. exact Es. }
      rewrite DirProofs.nthN_modN_other in Hp' by assumption.
      rewrite Hsp, Hp in Hp'. injection Hp' as <-. auto.
    - rewrite (DirProofs.nthN_modN_same ds1 parent _ p) in Hp' by (rewrite Hsp; exact Hp).
      injection Hp' as <-. auto. }
  (* the new child tree *)
  set (b' := DirProofs.bst_remove x b) in *.
  set (c' := rebuild b' (Kof c)).
  assert (Hinb' : forall i, In i (DirProofs.ids b') -> In i (DirProofs.ids b) /\ i <> x).
  { intros i Hi. apply DirProofs.in_bst_remove in Hi; [exact Hi|exact NDb]. }
  assert (Hc' : Rep3 ds' (d_child p') c').
  { apply rebuild_rep; [exact HR'|]. intros i Hi. destruct (Hinb' i Hi) as [Hib Hix].
    destruct (kid_Some c i Hib) as [k Hk].
    destruct (kid_rep ds c _ i k Hc Hk) as (_ & ei & Hei & Hrk & Hik).
    assert (Hip : i <> parent) by (intros ->; contradiction).
    destruct (F2 i ei Hix Hei) as (e' & He' & _ & Hch). exists e'. split; [exact He'|].
    rewrite (Hch Hip). unfold Kof. rewrite Hk.
    apply (Rep3_frame ds ds' k _ Hrk). intros y ey Hy Hey. exists ey. split; [|repeat split].
    rewrite F1; [exact Hey| |].
    - eapply kid_disjoint; eauto.
    - intros ->. apply Hpc. apply Hik. exact Hy. }
  assert (Ec : rebuild b (Kof c) = c) by (apply rebuild_id; exact NDb).
  assert (HKx : Kof c x = L3).
  { destruct (kid_Some c x Hxb) as [k Hk]. destruct (kid_rep ds c _ x k Hc Hk) as (_ & e1 & He1 & Hrk & _).
    assert (e1 = ex) by congruence. subst e1. rewrite Hchild in Hrk. apply Rep3_L3 in Hrk.
    unfold Kof. rewrite Hk. exact Hrk. }
  assert (Hperm : Permutation (ids3 c) (x :: ids3 c')).
  { rewrite <- Ec at 1. eapply Permutation_trans; [apply rebuild_perm|].
    eapply Permutation_trans; [apply (flat_map_remove_perm (Gk (Kof c)) x _ NDb Hxb)|].
    unfold Gk at 1. rewrite HKx. cbn [ids3 app]. constructor.
    apply Permutation_sym. unfold c', b'. rewrite <- (DirProofs.ids_bst_remove x b NDb).
    apply rebuild_perm. }
  assert (NDc' : NoDup (ids3 c') /\ ~ In x (ids3 c')).
  { pose proof (Permutation_NoDup Hperm NDc) as H. inversion H; subst. auto. }
  assert (Hsub : forall y, In y (ids3 c') -> In y (ids3 c)).
  { intros y Hy. apply (Permutation_in y (Permutation_sym Hperm)). right. exact Hy. }
  assert (Hxc : In x (ids3 c)) by (apply sib3_in; exact Hxb).
  (* the whole forest *)
  destruct GT as (HRT & NDT & TyT).
  assert (HparentT : In parent (ids3 T)) by (apply Hincl; left; reflexivity).
  destruct (replace_in ds ds' parent p p' c c' Hp Hp' F3 Hc Hc') with (t := T) (r := ROOT_STREAM_ID)
    as (T' & HRT' & HinT' & NDT'); try assumption.
  { intros j ej Hjp Hjc Hej. rewrite F1; [exact Hej| |exact Hjp]. intros Hjb. apply Hjc. apply sib3_in. exact Hjb. }
  { apply NDc'. }
  exists T'. split; [exact HRT'|]. split; [exact NDT'|].
  apply Forall_forall. intros y Hy. apply HinT' in Hy.
  assert (HyT : In y (ids3 T) /\ y <> x).
  { destruct Hy as [[H1 H2]|H].
    - split; [exact H1|]. intros ->. contradiction.
    - split; [apply Hincl; apply incl_node_c; apply Hsub; exact H|]. intros ->. apply NDc'. exact H. }
  destruct HyT as [HyT Hyx]. rewrite Forall_forall in TyT.
  apply (typed_frame ds); [apply TyT; exact HyT|]. intros ey Hey.
  destruct (F2 y ey Hyx Hey) as (e' & He' & Hty & _). exists e'. auto.
Qed.

(* ---- remove_dir_entry keeps the length of the table, in every outcome ---- *)
Definition lenpres {A} (m : M A) : Prop := forall s, lenN (dirs (fst (m s))) = lenN (dirs s).

Lemma lenpres_bind {A B} (m : M A) (f : A -> M B) :
  lenpres m -> (forall a, lenpres (f a)) -> lenpres (bind m f).
Proof.
  intros H1 H2 s. unfold bind. specialize (H1 s). destruct (m s) as [s1 r]. cbn [fst] in H1.
  destruct r; cbn [fst]; try exact H1. rewrite H2. exact H1.
Qed.
Lemma lenpres_frames {A} (m : M A) : DirProofs.frames m -> lenpres m.
Proof. intros H s. rewrite H. reflexivity. Qed.
Lemma lenpres_pure {A} (m : M A) : (forall s, fst (m s) = s) -> lenpres m.
Proof. intros H s. rewrite H. reflexivity. Qed.
Lemma lenpres_set_dir_entry id e : lenpres (set_dir_entry id e).
Proof.
  intros s. unfold set_dir_entry, bind, get, put, panic. cbv beta iota.
  destruct (nthN (dirs s) id); cbn [fst dirs w_dirs]; [apply lenN_updN|reflexivity].
Qed.

Ltac lp_step :=
  cbv beta iota zeta;
  match goal with
  | |- lenpres (bind _ _) => apply lenpres_bind; [|intros ?]
  | |- lenpres (ret _) => apply lenpres_pure; reflexivity
  | |- lenpres get => apply lenpres_pure; reflexivity
  | |- lenpres (fail _) => apply lenpres_pure; reflexivity
  | |- lenpres (panic _) => apply lenpres_pure; reflexivity
  | |- lenpres (lift _) => apply lenpres_pure; reflexivity
  | |- lenpres (dir_entry _) => apply lenpres_pure; apply dir_entry_state
  | |- lenpres (set_dir_entry _ _) => apply lenpres_set_dir_entry
  | |- lenpres (write_in_dir_entry _ _ _) => apply lenpres_frames; apply DirProofs.frames_write_in_dir_entry
  | |- lenpres (write_dir_entry _) => apply lenpres_frames; apply DirProofs.frames_write_dir_entry
  | |- lenpres (write_entries _) => apply lenpres_frames; apply DirProofs.frames_write_entries
  | |- lenpres (if ?c then _ else _) => destruct c
  | |- lenpres (match ?x with _ => _ end) => destruct x
  | |- lenpres (let '(_, _) := ?x in _) => destruct x
  end.

Lemma lenpres_remove parent nm : lenpres (remove_dir_entry_inner parent nm).
Proof. unfold remove_dir_entry_inner, free_dir_entry. repeat lp_step. Qed.

Lemma remove_dir_entry_inner_tot L parent nm x :
  tot (fun s => RemPre parent nm x s /\ lenN (dirs s) = L) (remove_dir_entry_inner parent nm)
      (fun _ => WL L) (WL L).
Proof.
  intros s [Hs HL]. destruct (remove_dir_entry_inner_fn parent nm x s Hs) as (A & B & C).
  pose proof (lenpres_remove parent nm s) as Hlen. rewrite HL in Hlen.
  split; [split; assumption|]. split; [|exact C]. intros a Ha. split; [eapply B; eauto|exact Hlen].
Qed.

(* the wrapper: when the removal does not succeed the table the call started with is put
   back, so the whole invariant (forest included) holds again; everything else is what the
   partial removal left *)
Lemma restore_Core DT DT' s s1 : Core DT s -> Core DT' s1 -> Core DT (w_dirs s1 (dirs s)).
Proof.
  intros [_ (HD & _)] [Ha (_ & HM & Hs)]. split; [exact Ha|]. split; [exact HD|split; [exact HM|exact Hs]].
Qed.

Lemma remove_dir_entry_tot L DT parent nm x s :
  Core DT s -> RemPre parent nm x s -> lenN (dirs s) = L ->
  (Bound (fst (remove_dir_entry parent nm s)) -> fineK (snd (remove_dir_entry parent nm s))) /\
  match snd (remove_dir_entry parent nm s) with
  | Ok _ => WL L (fst (remove_dir_entry parent nm s))
  | _ => Core DT (fst (remove_dir_entry parent nm s))
  end.
Proof.
  intros Hc Hs HL.
  destruct (remove_dir_entry_inner_tot L parent nm x s (conj Hs HL)) as (A & B & C).
  unfold remove_dir_entry. destruct (remove_dir_entry_inner parent nm s) as [s1 r1]. cbn [fst snd] in *.
  destruct r1 as [u| | |]; cbn [fst snd]; (split; [exact C|]);
    [exact A|eapply restore_Core; [exact Hc|apply A]..].
Qed.

(* ================================================================== *)
(* 12. stream handles (possibly stale)                                 *)
(* ================================================================== *)
Definition BufOk (b : sbuf) : Prop := b_pos b <= b_cap b /\ b_cap b <= lenN (b_data b).
(* the part of the handle invariant the store operations need: the id is an index of the
   directory table (whatever the entry there is now), and the buffer cursor is inside the
   buffer; the window inside total_len (CapOk, section 12b) is added in section 14 (HOk) *)
Definition HBuf (n : N) (h : handle) : Prop := h_id h < n /\ BufOk (h_buf h).

Lemma flush_as_bind h :
  flush_changes' h =
  (if h_dirty h then
     bind (write_data (h_id h) (h_off h) (buf_filled (h_buf h))) (fun _ =>
     bind (stream_len_of (h_id h)) (fun len => ret (mkHandle (h_id h) (N.max (h_total h) len) (h_buf h) (h_off h) false)))
   else ret h).
Proof. unfold flush_changes', flush_changes. destruct (h_dirty h); reflexivity. Qed.

Lemma stream_len_of_tot P id :
  tot (fun s => P s /\ id < lenN (dirs s)) (stream_len_of id) (fun _ => P) P.
Proof.
  unfold stream_len_of. eapply tot_bind; [apply (dir_entry_tot P id)|]. intros e. cbv beta.
  apply tot_ret. intros s [Hs _]. auto.
Qed.

Lemma stream_len_of_state id s : fst (stream_len_of id s) = s.
Proof.
  unfold stream_len_of, bind. pose proof (dir_entry_state id s) as E.
  destruct (dir_entry id s) as [s1 r]. cbn [fst] in E. subst s1. destruct r; reflexivity.
Qed.

Lemma MInvN_lt n s id : MInvN n s -> id < n -> id < lenN (dirs s).
Proof. intros H Hid. pose proof (MInvN_len _ _ H). lia. Qed.

Lemma flush_tot n h : HBuf n h ->
  tot (MInvN n) (flush_changes' h) (fun h' s => MInvN n s /\ HBuf n h') (MInvN n).
Proof.
  intros [Hid Hb]. rewrite flush_as_bind. destruct (h_dirty h).
  2:{ apply tot_ret. intros s Hs. split; [exact Hs|]. split; [exact Hs|]. split; assumption. }
  eapply tot_bind with (Q := fun _ => MInvN n).
  { eapply tot_pre; [apply (write_data_tot (DTn n) (h_id h) _ _ (shape_closed_DTn n))|].
    intros s Hs. split; [exact Hs|]. eapply MInvN_lt; eauto. }
  intros ?. eapply tot_bind with (Q := fun _ => MInvN n).
  { eapply tot_pre; [apply (stream_len_of_tot (MInvN n) (h_id h))|].
    intros s Hs. split; [exact Hs|]. eapply MInvN_lt; eauto. }
  intros len. apply tot_ret. intros s Hs. split; [exact Hs|]. split; [exact Hs|]. split; assumption.
Qed.

(* the judgement for handle operations: state invariant and handle invariant in every
   outcome, result fine *)
Definition htot (n : N) {A} (m : HM cstate A) (Qv : A -> handle -> Prop) : Prop :=
  forall s, MInvN n s ->
    MInvN n (fst (m s)) /\ HBuf n (fst (snd (m s))) /\
    (forall a, snd (snd (m s)) = Ok a -> Qv a (fst (snd (m s)))) /\
    (Bound (fst (m s)) -> fineK (snd (snd (m s)))).

Lemma lenN_buf_remaining_le b : lenN (buf_remaining b) <= b_cap b - b_pos b.
Proof. unfold buf_remaining. rewrite lenN_dropN, lenN_takeN. lia. Qed.

Lemma read_data_fst DT id off n s : Core DT s -> id < lenN (dirs s) -> fst (read_data id off n s) = s.
Proof.
  intros Hc Hid.
  destruct (read_data_tot (fun s' => s' = s) id off n) with (s := s) as (A & _).
  - intros s' ->. eapply Core_SafeR; eauto.
  - split; [reflexivity|exact Hid].
  - exact A.
Qed.

Lemma h_fill_buf_tot n h : HBuf n h ->
  htot n (h_fill_buf' h) (fun avail h' => lenN avail <= b_cap (h_buf h') - b_pos (h_buf h')).
Proof.
  intros Hh s Hs. unfold h_fill_buf', h_fill_buf.
  destruct (negb (b_pos (h_buf h) <? b_cap (h_buf h)) && (h_position h <? h_total h)).
  2:{ cbn [fst snd]. split; [exact Hs|]. split; [exact Hh|]. split; [|intros _; exact I].
      intros a [= <-]. apply lenN_buf_remaining_le. }
  change (flush_changes cstate write_data stream_len_of h s) with (flush_changes' h s).
  destruct (flush_tot n h Hh s Hs) as (F1 & F2 & F3).
  destruct (flush_changes' h s) as [s1 r1]. cbn [fst snd] in *.
  destruct r1 as [h1| | |].
  2,3,4: cbn [fst snd]; split; [exact F1|]; split; [exact Hh|]; split; [discriminate|exact F3].
  destruct (F2 h1 eq_refl) as [Hs1 Hh1]. clear F2 F3.
  set (off := h_off h1 + b_pos (h_buf h1)).
  set (b1 := buf_grow_for_read _ _).
  set (limit := N.min (h_total h1 - off) (lenN (b_data b1))).
  assert (Hid1 : h_id h1 < lenN (dirs s1)) by (eapply MInvN_lt; [exact Hs1|apply Hh1]).
  destruct (read_data_tot (MInvN n) (h_id h1) off limit) with (s := s1) as (R1 & R2 & R3).
  { intros s' H'. eapply Core_SafeR; eauto. }
  { split; assumption. }
  pose proof (read_data_fst _ (h_id h1) off limit s1 Hs1 Hid1) as Hfst.
  destruct (read_data (h_id h1) off limit s1) as [s2 r2]. cbn [fst snd] in *. subst s2.
  destruct r2 as [got| | |].
  - destruct (R2 got eq_refl) as [_ Hlen].
    destruct (N.ltb_spec limit (lenN got)) as [Hx|_]; [lia|].
    cbn [fst snd]. split; [exact Hs1|]. split.
    + split; [apply Hh1|]. cbn [h_buf]. unfold BufOk. cbn [b_pos b_cap b_data].
      rewrite lenN_app, lenN_dropN. lia.
    + split; [|intros _; exact I]. intros a [= <-]. cbn [h_buf]. apply lenN_buf_remaining_le.
  - cbn [fst snd]. split; [exact Hs1|]. split; [|split; [discriminate|exact R3]].
    split; [apply Hh1|]. cbn [h_buf buf_clear]. unfold BufOk. cbn. lia.
  - cbn [fst snd]. split; [exact Hs1|]. split; [|split; [discriminate|exact R3]].
    split; [apply Hh1|]. cbn [h_buf buf_clear]. unfold BufOk. cbn. lia.
  - cbn [fst snd]. split; [exact Hs1|]. split; [|split; [discriminate|exact R3]].
    split; [apply Hh1|]. cbn [h_buf buf_clear]. unfold BufOk. cbn. lia.
Qed.

Lemma h_consume_ok n h amt : HBuf n h -> amt <= b_cap (h_buf h) - b_pos (h_buf h) ->
  HBuf n (fst (h_consume h amt)) /\ fine (snd (h_consume h amt)).
Proof.
  intros [Hid [Hp Hc]] Ha. unfold h_consume.
  destruct (N.ltb_spec (b_cap (h_buf h)) (b_pos (h_buf h) + amt)) as [Hx|_]; [lia|].
  cbn [fst snd]. split; [|exact I]. split; [exact Hid|]. cbn [h_with_buf h_buf]. unfold BufOk. cbn. lia.
Qed.

Lemma h_read_tot n h k : HBuf n h -> htot n (h_read' h k) (fun _ _ => True).
Proof.
  intros Hh s Hs. unfold h_read', h_read.
  change (h_fill_buf cstate read_data write_data stream_len_of h s) with (h_fill_buf' h s).
  destruct (h_fill_buf_tot n h Hh s Hs) as (F1 & F2 & F3 & F4).
  destruct (h_fill_buf' h s) as [s1 [h1 r1]]. cbn [fst snd] in *.
  destruct r1 as [avail| | |].
  2,3,4: cbn [fst snd]; split; [exact F1|]; split; [exact F2|]; split; [auto|exact F4].
  specialize (F3 avail eq_refl).
  destruct (h_consume_ok n h1 (lenN (takeN k avail)) F2) as [C1 C2].
  { rewrite lenN_takeN. lia. }
  destruct (h_consume h1 (lenN (takeN k avail))) as [h2 c]. cbn [fst snd] in *.
  split; [exact F1|]. split; [exact C1|]. split; [auto|]. intros _.
  destruct c; try contradiction; exact I.
Qed.

(* debug_assert!(old_pos <= total_len) holds when the buffer window lies inside the length *)
Lemma seek_target_fineK h w z : b_pos (h_buf h) <= b_cap (h_buf h) -> h_off h + b_cap (h_buf h) <= h_total h ->
  fineK (seek_target h w z).
Proof.
  intros Hp Hc. unfold seek_target. destruct w.
  - destruct (_ <? _); exact I.
  - destruct (0 <? z)%Z; [exact I|]. destruct (_ <? _); exact I.
  - destruct (N.ltb_spec (h_total h) (h_position h)) as [Hlt|_]; [unfold h_position in Hlt; lia|].
    destruct (z <? 0)%Z; destruct (_ <? _); exact I.
Qed.

Lemma h_seek_tot n h w z : HBuf n h -> h_off h + b_cap (h_buf h) <= h_total h ->
  htot n (h_seek' h w z) (fun _ _ => True).
Proof.
  intros Hh Hcap s Hs. unfold h_seek', h_seek.
  pose proof (seek_target_fineK h w z (proj1 (proj2 Hh)) Hcap) as Hst.
  destruct (seek_target h w z) as [np| | |].
  2,3,4: cbn [fst snd]; split; [exact Hs|]; split; [exact Hh|]; split; [discriminate|intros _; exact Hst].
  destruct ((np <? h_off h) || (h_off h + b_cap (h_buf h) <? np)) eqn:Eout.
  - change (flush_changes cstate write_data stream_len_of h s) with (flush_changes' h s).
    destruct (flush_tot n h Hh s Hs) as (F1 & F2 & F3).
    destruct (flush_changes' h s) as [s1 r1]. cbn [fst snd] in *.
    destruct r1 as [h1| | |].
    2,3,4: cbn [fst snd]; split; [exact F1|]; split; [exact Hh|]; split; [discriminate|exact F3].
    destruct (F2 h1 eq_refl) as [Hs1 Hh1]. cbn [fst snd].
    split; [exact Hs1|]. split; [|split; [auto|intros _; exact I]].
    split; [apply Hh1|]. cbn [h_buf buf_clear]. unfold BufOk. cbn. lia.
  - apply orb_false_iff in Eout. destruct Eout as [E1 E2].
    apply N.ltb_ge in E1. apply N.ltb_ge in E2. destruct Hh as [Hid [Hp Hc]].
    destruct (N.ltb_spec (lenN (b_data (h_buf h))) (np - h_off h)) as [Hx|_]; [lia|].
    cbn [fst snd]. split; [exact Hs|]. split; [|split; [auto|intros _; exact I]].
    split; [exact Hid|]. cbn [h_with_buf h_buf]. unfold BufOk. cbn. lia.
Qed.

Lemma lenN_buf_resize' d k : lenN (buf_resize d k) = k.
Proof. unfold buf_resize. rewrite lenN_app, lenN_takeN, lenN_repeatN. lia. Qed.

Lemma buf_write_bytes_ok b inp : BufOk b ->
  match buf_write_bytes b inp with
  | Ok (Some (bf, _)) => BufOk bf
  | Ok None => True
  | _ => False
  end.
Proof.
  intros [Hp Hc]. unfold buf_write_bytes.
  destruct (N.ltb_spec (lenN (b_data b)) (b_pos b)) as [Hx|_]; [lia|].
  assert (Hgen : forall b0, BufOk b0 ->
     BufOk (mkBuf (takeN (b_pos b0) (b_data b0) ++ takeN (N.min (lenN inp) (lenN (b_data b0) - b_pos b0)) inp ++
                   dropN (b_pos b0 + N.min (lenN inp) (lenN (b_data b0) - b_pos b0)) (b_data b0))
                  (b_pos b0 + N.min (lenN inp) (lenN (b_data b0) - b_pos b0))
                  (N.max (b_cap b0) (b_pos b0 + N.min (lenN inp) (lenN (b_data b0) - b_pos b0))) (b_max b0))).
  { intros b0 [Hp0 Hc0]. unfold BufOk. cbn [b_pos b_cap b_data].
    rewrite !lenN_app, !lenN_takeN, lenN_dropN. lia. }
  destruct (N.leb_spec (lenN (b_data b)) (b_pos b)) as [Hfull|Hroom].
  - unfold buf_grow. destruct (N.leb_spec (b_max b) (lenN (b_data b))) as [|Hmax]; [exact I|].
    apply Hgen. unfold BufOk. cbn [b_pos b_cap b_data]. rewrite lenN_buf_resize'.
    unfold STREAM_BUFFER_GROWTH_FACTOR. lia.
  - apply Hgen. split; assumption.
Qed.

Lemma h_write_tot n h inp : HBuf n h -> htot n (h_write' h inp) (fun _ _ => True).
Proof.
  intros Hh s Hs. unfold h_write', h_write.
  pose proof (buf_write_bytes_ok (h_buf h) inp (proj2 Hh)) as Hw.
  destruct (buf_write_bytes (h_buf h) inp) as [[[bf k]|]| | |]; try contradiction.
  - (* written into the buffer *)
    destruct (0 <? k); cbn [fst snd]; (split; [exact Hs|]; split; [|split; [auto|intros _; exact I]]);
      (split; [apply Hh|exact Hw]).
  - change (flush_changes cstate write_data stream_len_of h s) with (flush_changes' h s).
    destruct (flush_tot n h Hh s Hs) as (F1 & F2 & F3).
    destruct (flush_changes' h s) as [s1 r1]. cbn [fst snd] in *.
    destruct r1 as [h1| | |].
    2,3,4: cbn [fst snd]; split; [exact F1|]; split; [exact Hh|]; split; [discriminate|exact F3].
    destruct (F2 h1 eq_refl) as [Hs1 Hh1]. cbv zeta.
    set (h2 := mkHandle (h_id h1) (h_total h1) (buf_clear (h_buf h1)) (h_off h1 + b_pos (h_buf h1)) (h_dirty h1)).
    assert (Hh2 : HBuf n h2).
    { split; [apply Hh1|]. unfold h2. cbn [h_buf buf_clear]. unfold BufOk. cbn. lia. }
    pose proof (buf_write_bytes_ok (h_buf h2) inp (proj2 Hh2)) as Hw2.
    destruct (buf_write_bytes (h_buf h2) inp) as [[[bf k]|]| | |]; try contradiction.
    + destruct (0 <? k); cbn [fst snd]; (split; [exact Hs1|]; split; [|split; [auto|intros _; exact I]]);
        (split; [apply Hh2|exact Hw2]).
    + cbn [N.ltb N.compare fst snd]. split; [exact Hs1|]. split; [|split; [auto|intros _; exact I]].
      cbn [h_with_buf]. exact Hh2.
Qed.

Lemma h_set_len_tot n h size : HBuf n h ->
  htot n (h_set_len' h size) (fun _ _ => True).
Proof.
  intros Hh s Hs. unfold h_set_len', h_set_len.
  destruct (size =? h_total h).
  { cbn [fst snd]. split; [exact Hs|]. split; [exact Hh|]. split; [auto|intros _; exact I]. }
  change (flush_changes cstate write_data stream_len_of h s) with (flush_changes' h s).
  destruct (flush_tot n h Hh s Hs) as (F1 & F2 & F3).
  destruct (flush_changes' h s) as [s1 r1]. cbn [fst snd] in *.
  destruct r1 as [h1| | |].
  2,3,4: cbn [fst snd]; split; [exact F1|]; split; [exact Hh|]; split; [discriminate|exact F3].
  destruct (F2 h1 eq_refl) as [Hs1 Hh1]. clear F2 F3.
  assert (Hid1 : h_id h1 < lenN (dirs s1)) by (eapply MInvN_lt; [exact Hs1|apply Hh1]).
  destruct (resize_tot (DTn n) (h_id h1) size (shape_closed_DTn n) s1 (conj Hs1 Hid1)) as (R1 & R2 & R3).
  destruct (resize (h_id h1) size s1) as [s2 r2]. cbn [fst snd] in *.
  assert (Hclr : forall t o d, HBuf n (mkHandle (h_id h1) t (buf_clear (h_buf h1)) o d)).
  { intros. split; [apply Hh1|]. cbn [h_buf buf_clear]. unfold BufOk. cbn. lia. }
  destruct r2 as [[]| | |].
  { cbn [fst snd]. split; [exact R1|]. split; [apply Hclr|]. split; [auto|intros _; exact I]. }
  all: assert (Hid2 : h_id h1 < lenN (dirs s2)) by (eapply MInvN_lt; [exact R1|apply Hh1]);
       destruct (stream_len_of_tot (MInvN n) (h_id h1) s2 (conj R1 Hid2)) as (L1 & L2 & L3);
       pose proof (stream_len_of_state (h_id h1) s2) as E3;
       destruct (stream_len_of (h_id h1) s2) as [s3 r3]; cbn [fst snd] in *; subst s3;
       destruct r3 as [len| | |]; cbn [fst snd];
       (split; [exact L1|]; split; [first [apply Hclr|exact Hh1]|]; split; [discriminate|]).
  all: intros HB; first [exact I | apply L3; exact HB | apply R3; exact HB].
Qed.


Lemma h_flush_tot n h : HBuf n h -> htot n (h_flush' h) (fun _ _ => True).
Proof.
  intros Hh s Hs. unfold h_flush', h_flush.
  change (flush_changes cstate write_data stream_len_of h s) with (flush_changes' h s).
  destruct (flush_tot n h Hh s Hs) as (F1 & F2 & F3).
  destruct (flush_changes' h s) as [s1 r1]. cbn [fst snd] in *.
  destruct r1 as [h1| | |]; cbn [fst snd].
  - destruct (F2 h1 eq_refl) as [Hs1 Hh1]. split; [exact Hs1|]. split; [exact Hh1|]. split; [auto|intros _; exact I].
  - split; [exact F1|]. split; [exact Hh|]. split; [discriminate|exact F3].
  - split; [exact F1|]. split; [exact Hh|]. split; [discriminate|exact F3].
  - split; [exact F1|]. split; [exact Hh|]. split; [discriminate|exact F3].
Qed.

(* ================================================================== *)
(* 12b. site 705 is unreachable: the buffer window stays inside total_len *)
(* ================================================================== *)
(* The assertion of seek(Current), old_pos <= total_len, holds as long as the buffer window
   lies inside the length the handle believes in (CapOk).  Over ANY store (Handle.v is written
   over abstract store operations) every handle operation keeps that.  The refill is the
   delicate one: it asks for at most `remaining` = total_len - position bytes and checks what
   it got against that limit.  (Before that repair a clean handle whose length was stale could
   read past total_len when another handle had grown the stream: the S705b scenario, replayed
   on the crate.) *)
Definition CapOk (h : handle) : Prop :=
  b_pos (h_buf h) <= b_cap (h_buf h) /\ h_off h + b_cap (h_buf h) <= h_total h.

Lemma seek_target_705 h w z : seek_target h w z = Panic 705 -> w = WCur /\ h_total h < h_position h.
Proof.
  unfold seek_target. destruct w.
  - destruct (_ <? _); discriminate.
  - destruct (0 <? z)%Z; [discriminate|]. destruct (_ <? _); discriminate.
  - destruct (N.ltb_spec (h_total h) (h_position h)) as [Hlt|_]; [auto|].
    destruct (z <? 0)%Z; destruct (_ <? _); discriminate.
Qed.

Lemma CapOk_no705 h w z : CapOk h -> seek_target h w z <> Panic 705.
Proof. intros [H1 H2] E. apply seek_target_705 in E. unfold h_position in E. lia. Qed.

Lemma consume_Cap h amt : CapOk h -> CapOk (fst (h_consume h amt)).
Proof.
  intros [H1 H2]. unfold h_consume. destruct (N.ltb_spec (b_cap (h_buf h)) (b_pos (h_buf h) + amt)); cbn [fst].
  - split; assumption.
  - unfold CapOk. cbn [h_with_buf h_buf h_off h_total b_pos b_cap]. lia.
Qed.

Section CapInv.
Variable St : Type.
Variable rd : N -> N -> N -> St -> St * res (list byte).
Variable wd : N -> N -> list byte -> St -> St * res unit.
Variable rs : N -> N -> St -> St * res unit.
Variable sl : N -> St -> St * res N.

Lemma flush_Cap h s : CapOk h ->
  match flush_changes St wd sl h s with
  | (_, Ok h1) => CapOk h1 /\ h_off h1 = h_off h /\ h_buf h1 = h_buf h /\ h_total h <= h_total h1
  | _ => True
  end.
Proof.
  intros [H1 H2]. unfold flush_changes. destruct (h_dirty h).
  2:{ repeat split; try assumption; lia. }
  destruct (wd _ _ _ s) as [s1 [[]| | |]]; try exact I.
  destruct (sl _ s1) as [s2 [len| | |]]; try exact I.
  unfold CapOk. cbn [h_off h_buf h_total]. repeat split; try assumption; lia.
Qed.

Lemma fill_Cap h s : CapOk h -> CapOk (fst (snd (h_fill_buf St rd wd sl h s))).
Proof.
  intros HC. unfold h_fill_buf. cbv zeta.
  destruct (negb _ && _) eqn:Hc; [|exact HC].
  pose proof (flush_Cap h s HC) as HF.
  destruct (flush_changes St wd sl h s) as [s1 [h1| | |]] eqn:Ef; cbn [fst snd]; try exact HC.
  destruct HF as ([F1 F2] & Fo & Fb & Ft).
  set (off := h_off h1 + b_pos (h_buf h1)).
  set (b1 := buf_grow_for_read _ _).
  set (limit := N.min (h_total h1 - off) (lenN (b_data b1))).
  destruct (rd (h_id h1) off limit s1) as [s2 [got| | |]] eqn:Er; cbn [fst snd].
  2,3,4: unfold CapOk; cbn [h_buf h_off h_total buf_clear b_pos b_cap]; unfold off; lia.
  destruct (N.ltb_spec limit (lenN got)); cbn [fst snd]; [split; assumption|].
  unfold CapOk. cbn [h_buf h_off h_total b_pos b_cap]. unfold limit, off in *. lia.
Qed.

Lemma read_Cap h n s : CapOk h -> CapOk (fst (snd (h_read St rd wd sl h n s))).
Proof.
  intros HC. unfold h_read. pose proof (fill_Cap h s HC) as H.
  destruct (h_fill_buf St rd wd sl h s) as [s1 [h1 [avail| | |]]]; cbn [fst snd] in *; try exact H.
  pose proof (consume_Cap h1 (lenN (takeN n avail)) H) as HC2.
  destruct (h_consume h1 (lenN (takeN n avail))) as [h2 c]. cbn [fst snd] in *. exact HC2.
Qed.

Lemma seek_Cap h w z s : CapOk h -> CapOk (fst (snd (h_seek St wd sl h w z s))).
Proof.
  intros HC. unfold h_seek.
  destruct (seek_target h w z) as [np| | |] eqn:Est; cbn [fst snd]; try exact HC.
  assert (Hnp : np <= h_total h).
  { revert Est. unfold seek_target. destruct w.
    - destruct (N.ltb_spec (h_total h) (Z.to_N z)); [discriminate|]. intros [= <-]. lia.
    - destruct (0 <? z)%Z; [discriminate|]. destruct (_ <? _); [discriminate|]. intros [= <-]. lia.
    - destruct (_ <? _); [discriminate|]. destruct (z <? 0)%Z.
      + destruct (_ <? _); [discriminate|]. intros [= <-]. destruct HC. unfold h_position. lia.
      + destruct (N.ltb_spec (h_total h - h_position h) (Z.to_N z)); [discriminate|]. intros [= <-].
        destruct HC. unfold h_position in *. lia. }
  destruct ((np <? h_off h) || (h_off h + b_cap (h_buf h) <? np)) eqn:Eout.
  - pose proof (flush_Cap h s HC) as HF.
    destruct (flush_changes St wd sl h s) as [s1 [h1| | |]]; cbn [fst snd]; try exact HC.
    destruct HF as (_ & _ & _ & Ft). unfold CapOk. cbn [h_buf h_off h_total buf_clear b_pos b_cap]. lia.
  - apply orb_false_iff in Eout. destruct Eout as [E1 E2]. apply N.ltb_ge in E1, E2.
    destruct (_ <? np - h_off h); cbn [fst snd]; [exact HC|].
    destruct HC as [H1 H2]. unfold CapOk. cbn [h_with_buf h_buf h_off h_total b_pos b_cap]. lia.
Qed.

Lemma buf_write_bytes_Cap b inp bf k : b_pos b <= b_cap b -> buf_write_bytes b inp = Ok (Some (bf, k)) ->
  b_pos bf <= b_cap bf /\ b_cap b <= b_cap bf /\ (k = 0 -> b_cap bf = b_cap b).
Proof.
  intros Hp. unfold buf_write_bytes. destruct (_ <? b_pos b); [discriminate|].
  assert (Hgen : forall b0, b_pos b0 = b_pos b -> b_cap b0 = b_cap b ->
     Ok (Some (mkBuf (takeN (b_pos b0) (b_data b0) ++ takeN (N.min (lenN inp) (lenN (b_data b0) - b_pos b0)) inp ++
                        dropN (b_pos b0 + N.min (lenN inp) (lenN (b_data b0) - b_pos b0)) (b_data b0))
                       (b_pos b0 + N.min (lenN inp) (lenN (b_data b0) - b_pos b0))
                       (N.max (b_cap b0) (b_pos b0 + N.min (lenN inp) (lenN (b_data b0) - b_pos b0))) (b_max b0),
                 N.min (lenN inp) (lenN (b_data b0) - b_pos b0))) = Ok (Some (bf, k)) ->
     b_pos bf <= b_cap bf /\ b_cap b <= b_cap bf /\ (k = 0 -> b_cap bf = b_cap b)).
  { intros b0 E1 E2 [= <- <-]. cbn [b_pos b_cap]. lia. }
  destruct (_ <=? b_pos b).
  - unfold buf_grow. destruct (_ <=? _); [discriminate|]. apply Hgen; reflexivity.
  - apply Hgen; reflexivity.
Qed.

Lemma write_Cap h inp s : CapOk h -> CapOk (fst (snd (h_write St wd sl h inp s))).
Proof.
  intros HC. unfold h_write. cbv zeta.
  assert (Hfin : forall (s' : St) h' bf k, h_off h' + b_cap (h_buf h') <= h_total h' ->
            b_pos bf <= b_cap bf -> (k = 0 -> b_cap bf = b_cap (h_buf h')) ->
            CapOk (fst (snd (if 0 <? k
              then (s', (mkHandle (h_id h') (N.max (h_total h') (h_off h' + b_cap bf)) bf (h_off h') true, Ok k))
              else (s', (h_with_buf h' bf, Ok k)))))).
  { intros s' h' bf k H2 Hb Hk. destruct (N.ltb_spec 0 k); cbn [fst snd]; unfold CapOk;
      cbn [h_with_buf h_buf h_off h_total]; [lia|]. rewrite Hk by lia. lia. }
  destruct (buf_write_bytes (h_buf h) inp) as [[[bf k]|]| | |] eqn:Ew; cbn [fst snd]; try exact HC.
  - destruct (buf_write_bytes_Cap _ _ _ _ (proj1 HC) Ew) as (A & B & C). apply Hfin; [apply HC|exact A|exact C].
  - pose proof (flush_Cap h s HC) as HF.
    destruct (flush_changes St wd sl h s) as [s1 [h1| | |]]; cbn [fst snd]; try exact HC.
    destruct HF as ([F1 F2] & Fo & Fb & Ft).
    set (h2 := mkHandle (h_id h1) (h_total h1) (buf_clear (h_buf h1)) (h_off h1 + b_pos (h_buf h1)) (h_dirty h1)).
    assert (HC2 : CapOk h2) by (unfold CapOk, h2; cbn [h_buf h_off h_total buf_clear b_pos b_cap]; lia).
    destruct (buf_write_bytes (h_buf h2) inp) as [[[bf k]|]| | |] eqn:Ew2; cbn [fst snd]; try exact HC2.
    destruct (buf_write_bytes_Cap _ _ _ _ (proj1 HC2) Ew2) as (A & B & C). apply Hfin; [apply HC2|exact A|exact C].
Qed.

Lemma set_len_Cap h size s : CapOk h -> CapOk (fst (snd (h_set_len St wd rs sl h size s))).
Proof.
  intros HC. unfold h_set_len. destruct (size =? h_total h); [exact HC|]. cbv zeta.
  pose proof (flush_Cap h s HC) as HF.
  destruct (flush_changes St wd sl h s) as [s1 [h1| | |]]; cbn [fst snd]; try exact HC.
  destruct HF as (HC1 & _).
  destruct (rs (h_id h1) size s1) as [s2 [[]| | |]]; cbn [fst snd].
  1: unfold CapOk; cbn [h_buf h_off h_total buf_clear b_pos b_cap]; lia.
  all: destruct (sl (h_id h1) s2) as [s3 [len| | |]]; cbn [fst snd]; try exact HC1;
       unfold CapOk; cbn [h_buf h_off h_total buf_clear b_pos b_cap]; lia.
Qed.

Lemma hflush_Cap h s : CapOk h -> CapOk (fst (snd (h_flush St wd sl h s))).
Proof.
  intros HC. unfold h_flush. pose proof (flush_Cap h s HC) as HF.
  destruct (flush_changes St wd sl h s) as [s1 [h1| | |]]; cbn [fst snd]; try exact HC. apply HF.
Qed.

Lemma handle_new_Cap id mb s h s1 : handle_new St sl id mb s = (s1, Ok h) -> CapOk h.
Proof.
  unfold handle_new. destruct (sl id s) as [s2 [len| | |]]; try discriminate. intros [= _ <-].
  unfold CapOk. cbn. lia.
Qed.
End CapInv.

(* ================================================================== *)
(* 13. the API operations                                              *)
(* ================================================================== *)
Lemma MInvN_tree n s : MInvN n s -> exists T, Good (dirs s) ROOT_STREAM_ID T.
Proof. intros [_ ((_ & _ & HD & _) & _)]. exact HD. Qed.

Lemma lookup_tot n names :
  tot (MInvN n) (lookup names)
      (fun r s => MInvN n s /\ lookup_chain (dirs s) names ROOT_STREAM_ID = Ok r) (MInvN n).
Proof.
  unfold lookup. apply tot_get_bind. intros s0 H0.
  destruct (MInvN_tree _ _ H0) as [T GT].
  destruct (lookup_inT (dirs s0) T names ROOT_STREAM_ID (InT_root _ _ GT)) as (r & E & _).
  rewrite E. apply tot_lift; [exact I|]. intros s ->. split; [exact H0|]. intros a [= <-]. auto.
Qed.

Lemma lookup_InT ds T names id : Good ds ROOT_STREAM_ID T ->
  lookup_chain ds names ROOT_STREAM_ID = Ok (Some id) -> InT ds T id.
Proof.
  intros GT H. destruct (lookup_inT ds T names ROOT_STREAM_ID (InT_root _ _ GT)) as (r & E & Hr).
  rewrite E in H. injection H as ->. apply Hr. reflexivity.
Qed.

Lemma lookup_chain_app ds : forall a b id,
  lookup_chain ds (a ++ b) id =
  rbind (lookup_chain ds a id) (fun r => match r with Some j => lookup_chain ds b j | None => Ok None end).
Proof.
  induction a as [|nm a IH]; intros b id; cbn [app lookup_chain rbind]; [reflexivity|].
  destruct (dir_entry_of ds id) as [e| | |]; cbn [rbind]; try reflexivity.
  destruct (find_in_siblings _ ds nm (d_child e)) as [[cid|]| | |]; cbn [rbind]; try reflexivity.
  apply IH.
Qed.

Lemma names_of_tot P p : tot P (names_of p) (fun _ => P) P.
Proof. unfold names_of. apply tot_lift; [apply name_chain_fine|]. intros s Hs. auto. Qed.

Lemma lastN_None_nil {A} (l : list A) : lastN l = None -> l = [].
Proof.
  unfold lastN. intros H. destruct (rev l) eqn:E; [|discriminate].
  rewrite <- (rev_involutive l), E. reflexivity.
Qed.

Lemma validate_name_len nm u : validate_name nm = Ok u -> lenN (utf16 nm) <= MAX_NAME_LEN.
Proof.
  unfold validate_name. destruct (N.ltb_spec MAX_NAME_LEN (lenN (utf16 nm))); [discriminate|].
  intros _. assumption.
Qed.

(* what a failed lookup of the last name tells about the parent's sibling tree *)
Lemma insert_pre n s names nm pid pe ty :
  MInvN n s -> lastN names = Some nm ->
  lookup_chain (dirs s) names ROOT_STREAM_ID = Ok None ->
  lookup_chain (dirs s) (pop_last names) ROOT_STREAM_ID = Ok (Some pid) ->
  nthN (dirs s) pid = Some pe -> d_type pe <> TStream ->
  lenN (utf16 nm) <= MAX_NAME_LEN -> (ty = TStorage \/ ty = TStream) ->
  InsPre n nm ty pid s.
Proof.
  intros Hm Hl Hnone Hpar Hpe Hty Hnm Hty'. split; [exact Hm|]. split; [exact Hnm|]. split; [exact Hty'|].
  destruct (MInvN_tree _ _ Hm) as [T GT]. set (ds := dirs s) in *.
  pose proof (lookup_InT ds T _ pid GT Hpar) as (Hne & t & G & Hi).
  destruct (Good_nonleaf _ _ _ G Hne) as (l & c & r & ->).
  exists T, pe, l, c, r. split; [exact GT|]. split; [exact Hpe|]. split; [exact Hty|].
  split; [exact G|]. split; [exact Hi|].
  pose proof G as G0. destruct G as (HR & _). cbn [Rep3] in HR. destruct HR as (_ & _ & e & He & _ & Hc & _).
  assert (e = pe) by congruence. subst e.
  rewrite (lastN_split _ _ Hl), lookup_chain_app in Hnone. rewrite Hpar in Hnone. cbn [rbind lookup_chain] in Hnone.
  unfold dir_entry_of in Hnone. fold ds in Hnone. rewrite Hpe in Hnone. cbn [rbind] in Hnone.
  eapply (fis_None_NoEq ds nm c _ (S (length ds)) Hc).
  destruct (find_in_siblings (S (length ds)) ds nm (d_child pe)) as [[cid|]| | |]; cbn [rbind] in Hnone;
    try discriminate Hnone. reflexivity.
Qed.

Lemma create_storage_names_tot n names now :
  tot (MInvN n) (create_storage_names names now) (fun _ => MInvN n) (MInvN n).
Proof.
  unfold create_storage_names.
  eapply tot_bind; [apply lookup_tot|]. intros [id|]; cbv beta.
  - (* exists already *)
    eapply tot_bind with (Q := fun _ => MInvN n); [|intros ?; apply tot_fail; auto].
    eapply tot_conseq; [apply (dir_entry_tot (MInvN n) id)| | |].
    + intros s [Hm Hl]. split; [exact Hm|]. destruct (MInvN_tree _ _ Hm) as [T GT].
      pose proof (lookup_InT _ T _ _ GT Hl) as HI. apply InT_GoodAt in HI. apply GoodAt_entry in HI.
      destruct HI as (e & He & _). eapply nthN_Some_lt; eauto.
    + intros e s [H _]; exact H.
    + intros s H; exact H.
  - destruct (lastN names) as [nm|] eqn:El.
    2:{ apply tot_absurd. intros s [_ H]. apply lastN_None_nil in El. subst names. discriminate H. }
    destruct (validate_name nm) as [u| | |] eqn:Ev.
    2,3,4: pose proof (validate_name_fine nm) as Hf; rewrite Ev in Hf;
           (eapply tot_bind with (Q := fun _ _ => False); [apply tot_lift; [exact Hf|intros s [H _]; split; [exact H|discriminate]]|intros ? ? []]).
    apply tot_bind_lift_ok.
    apply (tot_pre (fun s => lenN (utf16 nm) <= MAX_NAME_LEN /\
                             (MInvN n s /\ lookup_chain (dirs s) names ROOT_STREAM_ID = Ok None))).
    2:{ intros s H. split; [eapply validate_name_len; eauto|exact H]. }
    apply tot_pure_pre. intros Hnm.
    eapply tot_bind.
    { eapply tot_conseq; [apply (tot_and_spec _ (fun s => lookup_chain (dirs s) names ROOT_STREAM_ID = Ok None) _ _
                                   (fun _ s => lookup_chain (dirs s) names ROOT_STREAM_ID = Ok None) _ (fun _ => True)
                                   (lookup_tot n (pop_last names)))| | |].
      - apply spec_pure; [reflexivity|]. intros s H. split; [exact I|]. intros; exact H.
      - intros s H; exact H.
      - intros r s H; exact H.
      - intros s [H _]; exact H. }
    intros [pid|]; cbv beta; [|apply tot_fail; intros s [[H _] _]; exact H].
    eapply tot_bind.
    { eapply tot_conseq; [apply (dir_entry_tot
         (fun s => MInvN n s /\ lookup_chain (dirs s) (pop_last names) ROOT_STREAM_ID = Ok (Some pid) /\
                   lookup_chain (dirs s) names ROOT_STREAM_ID = Ok None) pid)| | |].
      - intros s [[Hm Hl] Hn]. split; [auto|]. destruct (MInvN_tree _ _ Hm) as [T GT].
        pose proof (lookup_InT _ T _ _ GT Hl) as HI. apply InT_GoodAt in HI. apply GoodAt_entry in HI.
        destruct HI as (e & He & _). eapply nthN_Some_lt; eauto.
      - intros e s H; exact H.
      - intros s [H _]; exact H. }
    intros pe. cbv beta.
    destruct (objtype_eqb (d_type pe) TStream) eqn:Et; [apply tot_fail; intros s [[H _] _]; exact H|].
    eapply tot_bind with (Q := fun _ => MInvN n); [|intros ?; apply tot_ret; auto].
    eapply tot_conseq; [apply (insert_dir_entry_tot n pid nm TStorage now)| | |].
    + intros s [(Hm & Hpar & Hnone) Hpe].
      eapply insert_pre; eauto.
      intros E. rewrite E in Et. discriminate Et.
    + intros id s [H _]; exact H.
    + intros s H; exact H.
Qed.

Lemma api_create_storage_tot n p now :
  tot (MInvN n) (api_create_storage p now) (fun _ => MInvN n) (MInvN n).
Proof.
  unfold api_create_storage. eapply tot_bind; [apply names_of_tot|]. intros names.
  apply create_storage_names_tot.
Qed.

Lemma lookup_id_lt n s names id : MInvN n s ->
  lookup_chain (dirs s) names ROOT_STREAM_ID = Ok (Some id) -> id < lenN (dirs s).
Proof.
  intros Hm Hl. destruct (MInvN_tree _ _ Hm) as [T GT].
  pose proof (lookup_InT _ T _ _ GT Hl) as HI. apply InT_GoodAt in HI. apply GoodAt_entry in HI.
  destruct HI as (e & He & _). eapply nthN_Some_lt; eauto.
Qed.

Lemma create_all_go_tot n now : forall prefixes,
  tot (MInvN n) (create_all_go prefixes now) (fun _ => MInvN n) (MInvN n).
Proof.
  induction prefixes as [|pre t IH]; cbn [create_all_go]; [apply tot_ret; auto|].
  eapply tot_bind; [apply lookup_tot|]. intros r. cbv beta.
  eapply tot_bind with (Q := fun _ => MInvN n).
  { destruct r as [id|].
    - eapply tot_bind with (Q := fun _ => MInvN n); [|intros e; apply tot_ret; auto].
      eapply tot_conseq; [apply (dir_entry_tot (MInvN n) id)| | |].
      + intros s [Hm Hl]. split; [exact Hm|]. eapply lookup_id_lt; eauto.
      + intros e s [H _]; exact H.
      + intros s H; exact H.
    - apply tot_ret. intros s [H _]. auto. }
  intros is_stg.
  eapply tot_bind with (Q := fun _ => MInvN n); [|intros ?; exact IH].
  destruct is_stg; [apply tot_ret; auto|apply create_storage_names_tot].
Qed.

Lemma validate_all_fine : forall names, fine (validate_all names).
Proof.
  induction names as [|nm t IH]; cbn [validate_all]; [exact I|].
  apply fine_rbind; [apply validate_name_fine|]. intros; exact IH.
Qed.

Lemma api_create_storage_all_tot n p now :
  tot (MInvN n) (api_create_storage_all p now) (fun _ => MInvN n) (MInvN n).
Proof.
  unfold api_create_storage_all. eapply tot_bind; [apply names_of_tot|]. intros names.
  eapply tot_bind with (Q := fun _ => MInvN n); [apply tot_lift; [apply validate_all_fine|auto]|].
  intros ?. apply create_all_go_tot.
Qed.

(* ---- metadata ---- *)
Lemma meta_update_tot n id f :
  (forall e, KeepShape e (f e) /\ d_name (f e) = d_name e /\ d_len (f e) = d_len e) ->
  tot (fun s => MInvN n s /\ id < lenN (dirs s)) (with_dir_entry_mut id f) (fun _ => MInvN n) (MInvN n).
Proof.
  intros Hf.
  set (X := fun s => Aux (DTn n) s /\ id < lenN (dirs s)).
  assert (HX : astable X) by (apply astable_and; [apply astable_Aux|apply (astable_dirs (fun d => id < lenN d))]).
  eapply tot_conseq; [apply (with_dir_entry_mut_tot X id f HX)| | |].
  - intros s [Ha Hid]. split; [exact Hid|]. apply Aux_dirs in Ha. apply Ha.
  - intros s e [Ha Hid] He. destruct (Hf e) as (Hk & Hn & Hl). split.
    + apply (Aux_upd (DTn n) s id e (f e) (shape_closed_DTn n) Ha He Hk Hn).
      intros ->. rewrite Hl. destruct Ha as (((r & Hr & _ & Hrl) & _) & _). assert (r = e) by congruence. subst r. exact Hrl.
    + cbn [dirs w_dirs]. rewrite lenN_updN. exact Hid.
  - intros s [[Ha Hx] Hid]. split; [exact Ha|]. split; assumption.
  - intros ? s [Ha [Hx _]]. split; assumption.
  - intros s [Ha [Hx _]]. split; assumption.
Qed.

Lemma set_entry_with_path_tot n p f :
  (forall e, KeepShape e (f e) /\ d_name (f e) = d_name e /\ d_len (f e) = d_len e) ->
  tot (MInvN n) (set_entry_with_path p f) (fun _ => MInvN n) (MInvN n).
Proof.
  intros Hf. unfold set_entry_with_path. eapply tot_bind; [apply names_of_tot|]. intros names.
  eapply tot_bind; [apply lookup_tot|]. intros [id|]; cbv beta; [|apply tot_fail; intros s [H _]; exact H].
  eapply tot_pre; [apply (meta_update_tot n id f Hf)|].
  intros s [Hm Hl]. split; [exact Hm|]. eapply lookup_id_lt; eauto.
Qed.

Lemma api_set_state_tot n p bits : tot (MInvN n) (api_set_state p bits) (fun _ => MInvN n) (MInvN n).
Proof. apply set_entry_with_path_tot. intros e. repeat split. Qed.

Lemma api_set_modified_tot n p b secs nanos :
  tot (MInvN n) (api_set_modified p b secs nanos) (fun _ => MInvN n) (MInvN n).
Proof.
  apply set_entry_with_path_tot. intros e. destruct (objtype_eqb (d_type e) TStream); repeat split.
Qed.

Lemma api_set_created_tot n p b secs nanos :
  tot (MInvN n) (api_set_created p b secs nanos) (fun _ => MInvN n) (MInvN n).
Proof.
  apply set_entry_with_path_tot. intros e. destruct (objtype_eqb (d_type e) TStream); repeat split.
Qed.

Lemma api_set_clsid_tot n p g : tot (MInvN n) (api_set_clsid p g) (fun _ => MInvN n) (MInvN n).
Proof.
  unfold api_set_clsid. eapply tot_bind; [apply names_of_tot|]. intros names.
  eapply tot_bind; [apply lookup_tot|]. intros [id|]; cbv beta; [|apply tot_fail; intros s [H _]; exact H].
  eapply tot_bind.
  { eapply tot_conseq; [apply (dir_entry_tot (fun s => MInvN n s /\ id < lenN (dirs s)) id)| | |].
    - intros s [Hm Hl]. assert (id < lenN (dirs s)) by (eapply lookup_id_lt; eauto). auto.
    - intros e s H; exact H.
    - intros s [H _]; exact H. }
  intros e. cbv beta. destruct (objtype_eqb (d_type e) TStream); [apply tot_fail; intros s [[H _] _]; exact H|].
  eapply tot_pre; [apply (meta_update_tot n id (fun e => set_clsid e g))|].
  - intros e0. repeat split.
  - intros s [H _]. exact H.
Qed.

(* ---- streams ---- *)
Lemma MInvN_mono n n' s : n <= n' -> MInvN n' s -> MInvN n s.
Proof. intros Hle H. apply (MInv_MInvN n s (MInvN_MInv _ _ H)). pose proof (MInvN_len _ _ H). lia. Qed.
Lemma MInvN_raise n n' s : MInvN n s -> n' <= lenN (dirs s) -> MInvN n' s.
Proof. intros H Hle. apply (MInv_MInvN n' s (MInvN_MInv _ _ H) Hle). Qed.

Lemma BufOk_new mb : BufOk (buf_new mb).
Proof. unfold BufOk, buf_new. cbn [b_pos b_cap b_data]. rewrite lenN_repeatN. unfold STREAM_BUFFER_MIN. lia. Qed.

Definition HNew (id : N) (h : handle) (s : cstate) : Prop :=
  h_id h = id /\ id < lenN (dirs s) /\ BufOk (h_buf h) /\ CapOk h.

Lemma handle_new_tot n id mb :
  tot (fun s => MInvN n s /\ id < lenN (dirs s)) (handle_new' id mb)
      (fun h s => MInvN n s /\ HNew id h s) (MInvN n).
Proof.
  intros s [Hm Hid]. unfold handle_new', handle_new.
  destruct (stream_len_of_tot (MInvN n) id s (conj Hm Hid)) as (L1 & L2 & L3).
  pose proof (stream_len_of_state id s) as E.
  destruct (stream_len_of id s) as [s1 r1]. cbn [fst snd] in *. subst s1.
  destruct r1 as [len| | |]; cbn [fst snd]; (split; [exact Hm|]; split; [|exact L3]); try discriminate.
  intros h [= <-]. split; [exact Hm|]. split; [reflexivity|]. split; [exact Hid|]. split; [apply BufOk_new|].
  unfold CapOk. cbn [h_buf h_off h_total buf_new b_pos b_cap]. lia.
Qed.

Lemma api_open_stream_tot n p mb :
  tot (MInvN n) (api_open_stream p mb) (fun h s => MInvN n s /\ exists id, HNew id h s) (MInvN n).
Proof.
  unfold api_open_stream. eapply tot_bind; [apply names_of_tot|]. intros names.
  eapply tot_bind; [apply lookup_tot|]. intros [id|]; cbv beta; [|apply tot_fail; intros s [H _]; exact H].
  eapply tot_bind.
  { eapply tot_conseq; [apply (dir_entry_tot (fun s => MInvN n s /\ id < lenN (dirs s)) id)| | |].
    - intros s [Hm Hl]. assert (id < lenN (dirs s)) by (eapply lookup_id_lt; eauto). auto.
    - intros e s H; exact H.
    - intros s [H _]; exact H. }
  intros e. cbv beta. destruct (negb _); [apply tot_fail; intros s [[H _] _]; exact H|].
  eapply tot_conseq; [apply (handle_new_tot n id mb)| | |].
  - intros s [H _]; exact H.
  - intros h s [Hm Hn]. split; [exact Hm|eauto].
  - intros s H; exact H.
Qed.

Lemma api_create_stream_tot n p ow mb now :
  tot (MInvN n) (api_create_stream p ow mb now) (fun h s => MInvN n s /\ exists id, HNew id h s) (MInvN n).
Proof.
  unfold api_create_stream. eapply tot_bind; [apply names_of_tot|]. intros names.
  eapply tot_bind; [apply lookup_tot|]. intros [id|]; cbv beta.
  - (* the name exists *)
    eapply tot_bind.
    { eapply tot_conseq; [apply (dir_entry_tot (fun s => MInvN n s /\ id < lenN (dirs s)) id)| | |].
      - intros s [Hm Hl]. assert (id < lenN (dirs s)) by (eapply lookup_id_lt; eauto). auto.
      - intros e s H; exact H.
      - intros s [H _]; exact H. }
    intros e. cbv beta. destruct (negb _); [apply tot_fail; intros s [[H _] _]; exact H|].
    destruct (negb ow); [apply tot_fail; intros s [[H _] _]; exact H|].
    eapply tot_bind.
    { eapply tot_pre; [apply (handle_new_tot n id mb)|]. intros s [H _]; exact H. }
    intros h. cbv beta.
    intros s [Hm (Hhid & Hid & Hbuf & Hcap)].
    set (n' := N.max n (id + 1)).
    assert (Hm' : MInvN n' s) by (apply (MInvN_raise n); [exact Hm|pose proof (MInvN_len _ _ Hm); lia]).
    assert (Hh : HBuf n' h) by (split; [rewrite Hhid; lia|exact Hbuf]).
    destruct (h_set_len_tot n' h 0 Hh s Hm') as (S1 & S2 & _ & S4).
    pose proof (set_len_Cap cstate read_data write_data resize stream_len_of h 0 s Hcap) as S5.
    change (h_set_len cstate write_data resize stream_len_of h 0 s) with (h_set_len' h 0 s) in S5.
    destruct (h_set_len' h 0 s) as [s1 [h1 r1]]. cbn [fst snd] in *.
    assert (S1' : MInvN n s1) by (apply (MInvN_mono n n'); [lia|exact S1]).
    destruct r1 as [[]| | |]; cbn [fst snd]; (split; [exact S1'|]; split; [|exact S4]); try discriminate.
    intros a [= <-]. split; [exact S1'|]. exists (h_id h1). split; [reflexivity|].
    split; [pose proof (MInvN_len _ _ S1); destruct S2; lia|]. split; [apply S2|exact S5].
  - destruct (lastN names) as [nm|] eqn:El.
    2:{ apply tot_absurd. intros s [_ H]. apply lastN_None_nil in El. subst names. discriminate H. }
    destruct (validate_name nm) as [u| | |] eqn:Ev.
    2,3,4: pose proof (validate_name_fine nm) as Hf; rewrite Ev in Hf;
           (eapply tot_bind with (Q := fun _ _ => False); [apply tot_lift; [exact Hf|intros s [H _]; split; [exact H|discriminate]]|intros ? ? []]).
    apply tot_bind_lift_ok.
    apply (tot_pre (fun s => lenN (utf16 nm) <= MAX_NAME_LEN /\
                             (MInvN n s /\ lookup_chain (dirs s) names ROOT_STREAM_ID = Ok None))).
    2:{ intros s H. split; [eapply validate_name_len; eauto|exact H]. }
    apply tot_pure_pre. intros Hnm.
    eapply tot_bind.
    { eapply tot_conseq; [apply (tot_and_spec _ (fun s => lookup_chain (dirs s) names ROOT_STREAM_ID = Ok None) _ _
                                   (fun _ s => lookup_chain (dirs s) names ROOT_STREAM_ID = Ok None) _ (fun _ => True)
                                   (lookup_tot n (pop_last names)))| | |].
      - apply spec_pure; [reflexivity|]. intros s H. split; [exact I|]. intros; exact H.
      - intros s H; exact H.
      - intros r s H; exact H.
      - intros s [H _]; exact H. }
    intros [pid|]; cbv beta; [|apply tot_fail; intros s [[H _] _]; exact H].
    eapply tot_bind.
    { eapply tot_conseq; [apply (dir_entry_tot
         (fun s => MInvN n s /\ lookup_chain (dirs s) (pop_last names) ROOT_STREAM_ID = Ok (Some pid) /\
                   lookup_chain (dirs s) names ROOT_STREAM_ID = Ok None) pid)| | |].
      - intros s [[Hm Hl] Hn]. split; [auto|]. eapply lookup_id_lt; eauto.
      - intros e s H; exact H.
      - intros s [H _]; exact H. }
    intros pe. cbv beta.
    destruct (objtype_eqb (d_type pe) TStream) eqn:Et; [apply tot_fail; intros s [[H _] _]; exact H|].
    eapply tot_bind.
    { eapply tot_pre; [apply (insert_dir_entry_tot n pid nm TStream now)|].
      intros s [(Hm & Hpar & Hnone) Hpe]. eapply insert_pre; eauto.
      intros E. rewrite E in Et. discriminate Et. }
    intros id. cbv beta.
    eapply tot_conseq; [apply (handle_new_tot n id mb)| | |].
    + intros s H; exact H.
    + intros h s [Hm Hn]. split; [exact Hm|eauto].
    + intros s H; exact H.
Qed.

(* ---- removal ---- *)
Definition NSame (ds0 ds : list dirent) : Prop :=
  lenN ds = lenN ds0 /\
  forall j e, nthN ds0 j = Some e -> exists e', nthN ds j = Some e' /\ KeepShape e e' /\ d_name e' = d_name e.

Lemma NSame_refl ds : NSame ds ds.
Proof. split; [reflexivity|]. intros j e H. exists e. split; [exact H|]. split; [apply KeepShape_refl|reflexivity]. Qed.

Lemma shape_closed_NSame ds0 : shape_closed (NSame ds0).
Proof.
  intros ds id e e' [Hl H] He Hk Hn. split; [rewrite lenN_updN; exact Hl|].
  intros j e0 Hj. destruct (H j e0 Hj) as (e1 & He1 & Hk1 & Hn1).
  destruct (N.eq_dec j id) as [->|Hne].
  - assert (e1 = e) by congruence. subst e1. exists e'.
    split; [apply nthN_updN_eq; eapply nthN_Some_lt; eauto|]. split; [|congruence].
    destruct Hk1 as (a1&a2&a3&a4), Hk as (b1&b2&b3&b4). repeat split; congruence.
  - exists e1. split; [rewrite nthN_updN_ne; assumption|]. split; assumption.
Qed.

Lemma NSame_None ds0 ds j : NSame ds0 ds -> nthN ds0 j = None -> nthN ds j = None.
Proof. intros [Hl _] H. apply nthN_None_ge in H. apply nthN_ge_None. lia. Qed.

Lemma fis_ext ds0 ds nm : NSame ds0 ds -> forall f r,
  find_in_siblings f ds nm r = find_in_siblings f ds0 nm r.
Proof.
  intros HS. induction f as [|f IH]; intros r; cbn [find_in_siblings]; [reflexivity|].
  destruct (r =? NO_STREAM); [reflexivity|]. unfold dir_entry_of.
  destruct (nthN ds0 r) as [e|] eqn:E.
  - destruct (proj2 HS r e E) as (e' & He' & (Hl & Hr & _) & Hn). rewrite He'. cbn [rbind].
    rewrite Hn, Hl, Hr. destruct (cmp_names nm (d_name e)); auto.
  - rewrite (NSame_None _ _ _ HS E). reflexivity.
Qed.

Lemma lookup_chain_ext ds0 ds : NSame ds0 ds -> forall names id,
  lookup_chain ds names id = lookup_chain ds0 names id.
Proof.
  intros HS. induction names as [|nm t IH]; intros id; cbn [lookup_chain]; [reflexivity|].
  unfold dir_entry_of. destruct (nthN ds0 id) as [e|] eqn:E.
  - destruct (proj2 HS id e E) as (e' & He' & (_ & _ & Hc & _) & _). rewrite He'. cbn [rbind].
    rewrite Hc, (fis_ext ds0 ds nm HS).
    assert (El : length ds = length ds0).
    { destruct HS as [Hl _]. rewrite !lenN_length in Hl. lia. }
    rewrite El. destruct (find_in_siblings _ ds0 nm (d_child e)) as [[cid|]| | |]; cbn [rbind]; auto.
  - rewrite (NSame_None _ _ _ HS E). reflexivity.
Qed.


(* removing the entry found under the name [nm] below the storage [pid] *)
Lemma remove_entry_tot n names nm pid id :
  tot (fun s => MInvN n s /\ lastN names = Some nm /\
                lookup_chain (dirs s) names ROOT_STREAM_ID = Ok (Some id) /\
                lookup_chain (dirs s) (pop_last names) ROOT_STREAM_ID = Ok (Some pid) /\
                exists ex, nthN (dirs s) id = Some ex /\ d_child ex = NO_STREAM /\ d_type ex <> TRoot)
      (remove_dir_entry pid nm) (fun _ => MInvN n) (MInvN n).
Proof.
  intros s (Hm & Hl & Hlk & Hpar & ex & Hex & Hchild & Hxty).
  destruct (MInvN_tree _ _ Hm) as [T GT]. set (ds := dirs s) in *.
  pose proof (lookup_InT ds T _ pid GT Hpar) as (Hne & t & G & Hi).
  destruct (Good_nonleaf _ _ _ G Hne) as (l & c & r & ->).
  pose proof G as G0. destruct G0 as (HR & NDp & _). cbn [Rep3] in HR. destruct HR as (_ & _ & pe & Hpe & _ & Hc & _).
  destruct (Good_sub_child _ _ _ _ _ _ G Hpe) as (_ & NDc & Hpc).
  (* the lookup of the full chain goes through pid *)
  assert (Hfis : find_in_siblings (S (length ds)) ds nm (d_child pe) = Ok (Some id)).
  { rewrite (lastN_split _ _ Hl), lookup_chain_app, Hpar in Hlk. cbn [rbind lookup_chain] in Hlk.
    unfold dir_entry_of in Hlk. rewrite Hpe in Hlk. cbn [rbind] in Hlk.
    destruct (find_in_siblings (S (length ds)) ds nm (d_child pe)) as [[cid|]| | |]; cbn [rbind] in Hlk;
      try discriminate Hlk. exact Hlk. }
  set (b := sib3 c).
  pose proof (sib3_rep ds c _ Hc) as Hb. pose proof (sib3_nodup c NDc) as NDb. fold b in Hb, NDb.
  assert (HF : DirProofs.bst_find ds nm b = Some id).
  { rewrite (DirProofs.find_in_siblings_spec ds nm b (d_child pe) (S (length ds)) Hb) in Hfis.
    - injection Hfis as E. exact E.
    - pose proof (DirProofs.rep_length _ _ _ Hb NDb). lia. }
  assert (Hpre : RemPre pid nm id s).
  { split; [apply MInv_CoreW; eapply MInvN_MInv; eauto|].
    exists pe, b, ex. repeat split; try assumption. intros H. apply Hpc. apply sib3_in. exact H. }
  destruct (remove_dir_entry_tot (lenN ds) (DTn n) pid nm id s Hm Hpre eq_refl) as (R3 & R1).
  pose proof (MInvN_len _ _ Hm) as Hn. fold ds in Hn.
  destruct (remove_dir_entry pid nm s) as [s' r'] eqn:Erem. cbn [fst snd] in *.
  (* either the call succeeded (forest re-established) or the table was restored *)
  destruct r' as [u| | |]; (split; [|split; [|exact R3]]); try exact R1; try discriminate.
  - destruct R1 as [Hcw Hlen]. apply (MInv_MInvN n); [|lia]. apply CoreW_MInv; [exact Hcw|].
    eapply (remove_dirtree pid nm s s' u T pe l c r id ex Erem GT Hpe G Hi HF Hex Hchild).
  - intros a _. destruct R1 as [Hcw Hlen]. apply (MInv_MInvN n); [|lia]. apply CoreW_MInv; [exact Hcw|].
    eapply (remove_dirtree pid nm s s' u T pe l c r id ex Erem GT Hpe G Hi HF Hex Hchild).
Qed.

Lemma lookup_parent ds names nm id : lastN names = Some nm ->
  lookup_chain ds names ROOT_STREAM_ID = Ok (Some id) ->
  exists pid, lookup_chain ds (pop_last names) ROOT_STREAM_ID = Ok (Some pid).
Proof.
  intros Hl H. rewrite (lastN_split _ _ Hl), lookup_chain_app in H.
  destruct (lookup_chain ds (pop_last names) ROOT_STREAM_ID) as [[pid|]| | |]; cbn [rbind] in H; try discriminate H.
  eauto.
Qed.

Lemma lookup_entry n s names id : MInvN n s ->
  lookup_chain (dirs s) names ROOT_STREAM_ID = Ok (Some id) ->
  exists e, nthN (dirs s) id = Some e /\ (d_type e = TRoot \/ d_type e = TStorage \/ d_type e = TStream) /\
            (names = [] -> id = ROOT_STREAM_ID).
Proof.
  intros Hm Hl. destruct (MInvN_tree _ _ Hm) as [T GT].
  pose proof (lookup_InT _ T _ _ GT Hl) as HI. apply InT_GoodAt in HI. apply GoodAt_entry in HI.
  destruct HI as (e & He & Ht). exists e. split; [exact He|]. split; [exact Ht|].
  intros ->. cbn in Hl. congruence.
Qed.

Lemma MInvN_root n s e : MInvN n s -> nthN (dirs s) ROOT_STREAM_ID = Some e -> d_type e = TRoot.
Proof. intros [_ (((r & Hr & Ht & _) & _) & _)] He. congruence. Qed.

Lemma tot_failW n {A} P k (Q : A -> cstate -> Prop) : (forall s, P s -> MInvN n s) -> tot P (fail k) Q (MInvN n).
Proof. intros H. apply tot_fail. intros s Hs. auto. Qed.

Lemma dir_entry_W n names id :
  tot (fun s => MInvN n s /\ lookup_chain (dirs s) names ROOT_STREAM_ID = Ok (Some id)) (dir_entry id)
      (fun e s => (MInvN n s /\ lookup_chain (dirs s) names ROOT_STREAM_ID = Ok (Some id)) /\ nthN (dirs s) id = Some e)
      (MInvN n).
Proof.
  eapply tot_conseq; [apply (dir_entry_tot (fun s => MInvN n s /\ lookup_chain (dirs s) names ROOT_STREAM_ID = Ok (Some id)) id)| | |].
  - intros s [Hm Hl]. split; [auto|]. eapply lookup_id_lt; eauto.
  - intros e s H; exact H.
  - intros s [H _]. exact H.
Qed.

Lemma lookup_parent_W n names id (e : dirent) :
  tot (fun s => (MInvN n s /\ lookup_chain (dirs s) names ROOT_STREAM_ID = Ok (Some id)) /\ nthN (dirs s) id = Some e)
      (lookup (pop_last names))
      (fun r s => (MInvN n s /\ lookup_chain (dirs s) (pop_last names) ROOT_STREAM_ID = Ok r) /\
                  (lookup_chain (dirs s) names ROOT_STREAM_ID = Ok (Some id) /\ nthN (dirs s) id = Some e))
      (MInvN n).
Proof.
  eapply tot_conseq; [apply (tot_and_spec _ (fun s => lookup_chain (dirs s) names ROOT_STREAM_ID = Ok (Some id) /\ nthN (dirs s) id = Some e) _ _
                               (fun _ s => lookup_chain (dirs s) names ROOT_STREAM_ID = Ok (Some id) /\ nthN (dirs s) id = Some e) _ (fun _ => True)
                               (lookup_tot n (pop_last names)))| | |].
  - apply spec_pure; [reflexivity|]. intros s H. split; [exact I|]. intros; exact H.
  - intros s [[Hm Hl] He]. auto.
  - intros r s H; exact H.
  - intros s [H _]. exact H.
Qed.

Lemma remove_storage_names_tot n names :
  tot (MInvN n) (remove_storage_names names) (fun _ => MInvN n) (MInvN n).
Proof.
  unfold remove_storage_names.
  eapply tot_bind; [apply lookup_tot|].
  intros [id|]; cbv beta; [|apply (tot_failW n); intros s [H _]; exact H].
  eapply tot_bind; [apply dir_entry_W|]. intros e. cbv beta.
  destruct (d_type e) eqn:Ety; cbn [objtype_eqb negb].
  1:{ apply tot_absurd. intros s [[Hm Hl] He]. destruct (lookup_entry _ _ _ _ Hm Hl) as (e' & He' & Ht & _).
      assert (e' = e) by congruence. subst e'. destruct Ht as [H|[H|H]]; congruence. }
  2,3: apply (tot_failW n); intros s [[H _] _]; exact H.
  destruct (N.eqb_spec (d_child e) NO_STREAM) as [Hch|Hch]; cbn [negb]; [|apply (tot_failW n); intros s [[H _] _]; exact H].
  destruct (lastN names) as [nm|] eqn:El.
  2:{ apply tot_absurd. intros s [[Hm Hl] He]. apply lastN_None_nil in El.
      destruct (lookup_entry _ _ _ _ Hm Hl) as (e' & He' & _ & Hroot). specialize (Hroot El). subst id.
      pose proof (MInvN_root _ _ _ Hm He). congruence. }
  eapply tot_bind; [apply lookup_parent_W|].
  intros [pid|]; cbv beta.
  2:{ apply tot_absurd. intros s [[_ Hp] [Hl _]]. destruct (lookup_parent _ _ _ _ El Hl) as [pid Hpid]. congruence. }
  eapply tot_pre; [apply (remove_entry_tot n names nm pid id)|].
  intros s [[Hm Hp] [Hl He]]. split; [exact Hm|]. split; [exact El|]. split; [exact Hl|]. split; [exact Hp|].
  exists e. split; [exact He|]. split; [exact Hch|congruence].
Qed.

Lemma api_remove_storage_tot n p :
  tot (MInvN n) (api_remove_storage p) (fun _ => MInvN n) (MInvN n).
Proof.
  unfold api_remove_storage.
  eapply tot_bind; [apply names_of_tot|]. intros names.
  apply remove_storage_names_tot.
Qed.

Lemma MInvN_EntOk n s id e : MInvN n s -> nthN (dirs s) id = Some e -> EntOk e.
Proof. intros [_ ((_ & HE & _) & _)] He. eapply Forall_nthN; eauto. Qed.

Lemma remove_stream_names_tot n names :
  tot (MInvN n) (remove_stream_names names) (fun _ => MInvN n) (MInvN n).
Proof.
  unfold remove_stream_names.
  eapply tot_bind; [apply lookup_tot|].
  intros [id|]; cbv beta; [|apply (tot_failW n); intros s [H _]; exact H].
  eapply tot_bind; [apply dir_entry_W|]. intros e. cbv beta.
  destruct (objtype_eqb (d_type e) TStream) eqn:Ety; cbn [negb]; [|apply (tot_failW n); intros s [[H _] _]; exact H].
  apply objtype_eqb_eq in Ety.
  destruct (N.eqb_spec (d_child e) NO_STREAM) as [Hch|Hch]; cbn [negb].
  2:{ apply tot_absurd. intros s [[Hm _] He]. apply Hch. apply (MInvN_EntOk _ _ _ _ Hm He). exact Ety. }
  (* free the chain; the directory only changes in the root's start/length *)
  apply (tot_fix dirs). intros ds0.
  apply (tot_pre (fun s => (lookup_chain ds0 names ROOT_STREAM_ID = Ok (Some id) /\ nthN ds0 id = Some e) /\
                           (MInvN n s /\ dirs s = ds0))).
  2:{ intros s [[[Hm Hl] He] Hd]. rewrite Hd in *. auto. }
  apply tot_pure_pre. intros [Hl0 He0].
  set (DT' := fun ds => DTn n ds /\ NSame ds0 ds).
  assert (Hsc : shape_closed DT') by (apply shape_closed_and; [apply shape_closed_DTn|apply shape_closed_NSame]).
  assert (Hw : forall s, Core DT' s -> MInvN n s /\ NSame ds0 (dirs s)) by (intros s H; apply Core_weaken in H; exact H).
  eapply tot_bind with
    (Q := fun _ s => (MInvN n s /\ lookup_chain (dirs s) names ROOT_STREAM_ID = Ok (Some id)) /\
                     exists e1, nthN (dirs s) id = Some e1 /\ d_child e1 = NO_STREAM /\ d_type e1 = TStream).
  { eapply tot_conseq with (P := Core DT') (Q := fun _ => Core DT') (J := Core DT').
    - destruct (_ <? MINI_STREAM_CUTOFF); [apply free_mini_chain_tot; exact Hsc|apply free_chain_core].
    - intros s [Hm Hd]. apply Core_strengthen; [exact Hm|]. rewrite Hd. apply NSame_refl.
    - intros ? s H. destruct (Hw s H) as [Hm HS].
      split; [split; [exact Hm|rewrite (lookup_chain_ext ds0 _ HS); exact Hl0]|].
      destruct (proj2 HS id e He0) as (e1 & He1 & (_ & _ & Hc1 & Ht1) & _).
      exists e1. split; [exact He1|]. split; congruence.
    - intros s H. apply Hw. exact H. }
  intros ?.
  destruct (lastN names) as [nm|] eqn:El.
  2:{ apply tot_absurd. intros s [[Hm Hl] (e1 & He1 & _ & Ht1)]. apply lastN_None_nil in El.
      destruct (lookup_entry _ _ _ _ Hm Hl) as (e' & He' & _ & Hroot). specialize (Hroot El). subst id.
      pose proof (MInvN_root _ _ _ Hm He1). congruence. }
  eapply tot_bind.
  { eapply tot_conseq; [apply (tot_and_spec _
        (fun s => lookup_chain (dirs s) names ROOT_STREAM_ID = Ok (Some id) /\
                  exists e1, nthN (dirs s) id = Some e1 /\ d_child e1 = NO_STREAM /\ d_type e1 = TStream) _ _
        (fun _ s => lookup_chain (dirs s) names ROOT_STREAM_ID = Ok (Some id) /\
                  exists e1, nthN (dirs s) id = Some e1 /\ d_child e1 = NO_STREAM /\ d_type e1 = TStream) _ (fun _ => True)
        (lookup_tot n (pop_last names)))| | |].
    - apply spec_pure; [reflexivity|]. intros s H. split; [exact I|]. intros; exact H.
    - intros s [[Hm Hl] He]. auto.
    - intros r s H; exact H.
    - intros s [H _]. exact H. }
  intros [pid|]; cbv beta.
  2:{ apply tot_absurd. intros s [[_ Hp] [Hl _]]. destruct (lookup_parent _ _ _ _ El Hl) as [pid Hpid]. congruence. }
  eapply tot_pre; [apply (remove_entry_tot n names nm pid id)|].
  intros s [[Hm Hp] [Hl (e1 & He1 & Hc1 & Ht1)]]. split; [exact Hm|]. split; [exact El|]. split; [exact Hl|]. split; [exact Hp|].
  exists e1. split; [exact He1|]. split; [exact Hc1|congruence].
Qed.

Lemma api_remove_stream_tot n p :
  tot (MInvN n) (api_remove_stream p) (fun _ => MInvN n) (MInvN n).
Proof.
  unfold api_remove_stream.
  eapply tot_bind; [apply names_of_tot|]. intros names.
  apply remove_stream_names_tot.
Qed.

Lemma remove_all_go_tot n : forall es,
  tot (MInvN n) (remove_all_go es) (fun _ => MInvN n) (MInvN n).
Proof.
  induction es as [|e t IH]; cbn [remove_all_go]; [apply tot_ret; intros s H; split; exact H|].
  eapply tot_bind with (Q := fun _ => MInvN n); [|intros ?; exact IH].
  destruct (objtype_eqb (e_type e) TStream); [apply api_remove_stream_tot|].
  destruct (negb _); [apply api_remove_storage_tot|].
  apply tot_ret. intros s H. split; exact H.
Qed.

Lemma api_remove_storage_all_tot n p :
  tot (MInvN n) (api_remove_storage_all p) (fun _ => MInvN n) (MInvN n).
Proof.
  unfold api_remove_storage_all.
  eapply tot_bind with (Q := fun _ => MInvN n); [|intros es; apply remove_all_go_tot].
  eapply tot_conseq; [apply (tot_of_ro (MInvN n) (api_walk_storage p) (fun _ => True))| | |].
  - intros s H. apply ro_api_walk_storage. destruct H as [_ ((_ & _ & HD & _) & _)]. exact HD.
  - intros s H; exact H.
  - intros es s [H _]; exact H.
  - intros s H; exact H.
Qed.

(* ================================================================== *)
(* 13b. read_to_end through a fresh handle (api_cat)                   *)
(* ================================================================== *)
(* The loop of cat_go stops when a refill delivers nothing.  Fineness of every round comes
   from h_fill_buf_tot; what is left is that the fuel suffices: every round that delivers
   something delivers at least STREAM_BUFFER_MIN bytes or the rest of the stream, and the
   bytes delivered so far lie in pairwise different places of the image (the chain of a
   stream visits no sector twice; a sector that was read exists in the image), so their
   number is bounded by the image size as well as by the recorded length. *)

(* state-preserving computations with a postcondition on success (no claim on errors) *)
Definition rk {A} (m : M A) (s : cstate) (P : A -> Prop) : Prop :=
  exists r, m s = (s, r) /\ forall a, r = Ok a -> P a.

Lemma rk_bind {A B} (m : M A) (f : A -> M B) s (P : A -> Prop) (Q : B -> Prop) :
  rk m s P -> (forall a, P a -> rk (f a) s Q) -> rk (bind m f) s Q.
Proof.
  intros (r & E & HP) Hk. unfold rk, bind. rewrite E.
  destruct r as [a|k|p|]; try (eexists; split; [reflexivity|discriminate]).
  apply Hk. apply HP. reflexivity.
Qed.
Lemma rk_ret {A} (a : A) s (P : A -> Prop) : P a -> rk (ret a) s P.
Proof. intros H. exists (Ok a). split; [reflexivity|]. intros ? [= <-]. exact H. Qed.
Lemma rk_fail {A} k s (P : A -> Prop) : rk (fail k) s P.
Proof. exists (Err k). split; [reflexivity|discriminate]. Qed.
Lemma rk_panic {A} k s (P : A -> Prop) : rk (panic k) s P.
Proof. exists (Panic k). split; [reflexivity|discriminate]. Qed.
Lemma rk_oof {A} s (P : A -> Prop) : rk out_of_fuel s P.
Proof. exists OutOfFuel. split; [reflexivity|discriminate]. Qed.
Lemma rk_lift {A} (r : res A) s (P : A -> Prop) : (forall a, r = Ok a -> P a) -> rk (lift r) s P.
Proof. intros HP. exists r. split; [reflexivity|exact HP]. Qed.
Lemma rk_weaken {A} (m : M A) s (P Q : A -> Prop) : rk m s P -> (forall a, P a -> Q a) -> rk m s Q.
Proof. intros (r & E & HP) H. exists r. split; [exact E|]. intros a Ha. auto. Qed.
Lemma rk_get_bind {B} (f : cstate -> M B) s (Q : B -> Prop) : rk (f s) s Q -> rk (bind get f) s Q.
Proof. intros H. unfold rk, bind, get. exact H. Qed.
Lemma rk_of_ro {A} (m : M A) s (P : A -> Prop) : ro m s P -> rk m s P.
Proof. intros (r & E & _ & HP). exists r. split; assumption. Qed.
Lemma rk_dir_entry id s : rk (dir_entry id) s (fun e => nthN (dirs s) id = Some e).
Proof.
  unfold dir_entry. apply rk_get_bind. destruct (nthN (dirs s) id) as [e|]; [apply rk_ret; reflexivity|apply rk_panic].
Qed.

Section CatReads.
Variable s : cstate.

Definition InImg (sid : N) : Prop := sid + 1 < lenN (img s).

Lemma sector_read_exact_rk sid off k :
  rk (sector_read_exact sid off k) s (fun bs => lenN bs = k /\ (0 < k -> InImg sid)).
Proof.
  unfold sector_read_exact. eapply rk_bind with (P := fun _ => True).
  { unfold seek_sector. apply rk_get_bind. destruct (_ <? off); [apply rk_panic|].
    destruct (_ <=? sid); [apply rk_fail|apply rk_ret; exact I]. }
  intros _ _. apply rk_get_bind. cbv zeta.
  destruct (N.ltb_spec (lenN (img_read (img s) (sid + 1) off k)) k) as [|Hge]; [apply rk_fail|].
  apply rk_ret. unfold img_read in *. destruct (nthN (img s) (sid + 1)) as [sec|] eqn:E.
  - rewrite lenN_takeN in *. split; [lia|]. intros _. unfold InImg. eapply nthN_Some_lt; eauto.
  - cbn [lenN] in *. split; [lia|lia].
Qed.

(* ---- regular chains ---- *)
Lemma chain_read_go_rk : forall f c n acc,
  c_off c <= chain_len (slen s) c ->
  rk (chain_read_go f c n acc) s (fun r =>
    lenN (snd r) = lenN acc + n /\ c_off c + n <= chain_len (slen s) c /\
    forall b sid, c_off c <= b -> b < c_off c + n -> nthN (c_ids c) (b / slen s) = Some sid -> InImg sid).
Proof.
  induction f as [|f IH]; intros c n acc Hoff; [apply rk_oof|].
  cbn [chain_read_go]. destruct (N.eqb_spec n 0) as [->|Hn].
  { apply rk_ret. cbn [snd]. split; [lia|]. split; [lia|]. intros; lia. }
  apply rk_get_bind. cbv zeta. unfold chain_len in *.
  set (sl := slen s) in *. assert (Hsl : 0 < sl) by apply slen_pos.
  set (L := lenN (c_ids c)) in *. set (off := c_off c) in *.
  destruct (N.ltb_spec (sl * L) off); [apply rk_panic|].
  destruct (N.eqb_spec (N.min n (sl * L - off)) 0) as [|Hm]; [apply rk_fail|].
  destruct (nthN (c_ids c) (off / sl)) as [sid|] eqn:Hnth; [|apply rk_panic].
  set (ow := off mod sl) in *.
  assert (How : ow < sl) by (apply N.mod_lt; lia).
  assert (Hdm : off = sl * (off / sl) + ow) by (apply N.div_mod'; lia).
  set (m := N.min n (sl * L - off)) in *.
  set (k := N.min m (sl - ow)).
  assert (Hk : k <= m /\ k <= sl - ow /\ 0 < k) by lia.
  eapply rk_bind; [apply sector_read_exact_rk|]. intros bs [Hbs Him]. specialize (Him (proj2 (proj2 Hk))).
  eapply rk_weaken.
  - apply IH. cbn [c_off c_ids]. fold L off. lia.
  - intros [c' bs'] (H1 & H2 & H3). cbn [snd c_off c_ids] in *. fold L in H2. fold off in H2, H3.
    rewrite lenN_app, Hbs in H1.
    split; [lia|]. split; [lia|].
    intros b sid' Hb1 Hb2 Hb.
    destruct (N.lt_ge_cases b (off + k)) as [Hlt|Hge].
    + assert (b / sl = off / sl).
      { symmetry. apply N.div_unique with (b - sl * (off / sl)); lia. }
      assert (sid' = sid) by congruence. subst sid'. exact Him.
    + apply (H3 b sid'); [lia|lia|exact Hb].
Qed.

Lemma chain_read_exact_rk c n : c_off c <= chain_len (slen s) c ->
  rk (chain_read_exact c n) s (fun r =>
    lenN (snd r) = n /\ c_off c + n <= chain_len (slen s) c /\
    forall b sid, c_off c <= b -> b < c_off c + n -> nthN (c_ids c) (b / slen s) = Some sid -> InImg sid).
Proof.
  intros Hoff. unfold chain_read_exact. apply rk_get_bind.
  eapply rk_weaken; [apply chain_read_go_rk; exact Hoff|].
  intros [c' bs] H. cbn [snd lenN] in *. exact H.
Qed.

(* ---- mini chains ---- *)
(* the mini sector lies in a sector of the root entry's chain that exists in the image *)
Definition mloc (ms : N) : Prop :=
  exists r rids sid, nthN (dirs s) ROOT_STREAM_ID = Some r /\ chain_ids_of (fat s) (d_start r) = Ok rids /\
    nthN rids (ms / (slen s / 64)) = Some sid /\ InImg sid.

Lemma mini_locate_rk ms off :
  rk (mini_locate ms off) s (fun p => exists r rids, nthN (dirs s) ROOT_STREAM_ID = Some r /\
     chain_ids_of (fat s) (d_start r) = Ok rids /\ nthN rids (ms / (slen s / 64)) = Some (fst p)).
Proof.
  unfold mini_locate. change MINI_SECTOR_LEN with 64.
  destruct (64 <=? off); [apply rk_panic|].
  eapply rk_bind; [apply rk_dir_entry|]. intros r Hr.
  eapply rk_bind with (P := fun c => chain_ids_of (fat s) (d_start r) = Ok (c_ids c)).
  { unfold chain_new. apply rk_get_bind. eapply rk_bind; [apply rk_lift; intros a Ha; exact Ha|].
    intros ids Hids. apply rk_ret. exact Hids. }
  intros c Hc. apply rk_get_bind. cbv zeta.
  destruct (nthN (c_ids c) (ms / (slen s / 64))) as [sid|] eqn:Hn; [|apply rk_fail].
  eapply rk_bind with (P := fun _ => True).
  { unfold seek_sector. apply rk_get_bind. destruct (_ <? _); [apply rk_panic|].
    destruct (_ <=? sid); [apply rk_fail|apply rk_ret; exact I]. }
  intros _ _. apply rk_ret. cbn [fst]. exists r, (c_ids c). auto.
Qed.

Lemma mchain_read_go_rk : forall f c n acc,
  mc_off c <= mchain_len c ->
  rk (mchain_read_go f c n acc) s (fun r =>
    lenN (snd r) = lenN acc + n /\ mc_off c + n <= mchain_len c /\
    forall b ms, mc_off c <= b -> b < mc_off c + n -> nthN (mc_ids c) (b / 64) = Some ms -> mloc ms).
Proof.
  induction f as [|f IH]; intros c n acc Hoff; [apply rk_oof|].
  cbn [mchain_read_go]. destruct (N.eqb_spec n 0) as [->|Hn].
  { apply rk_ret. cbn [snd]. split; [lia|]. split; [lia|]. intros; lia. }
  cbv zeta. change MINI_SECTOR_LEN with 64 in *.
  unfold mchain_len in *. change MINI_SECTOR_LEN with 64 in *.
  set (L := lenN (mc_ids c)) in *. set (off := mc_off c) in *.
  destruct (N.ltb_spec (64 * L) off); [apply rk_panic|].
  destruct (N.eqb_spec (N.min n (64 * L - off)) 0) as [|Hm]; [apply rk_fail|].
  destruct (nthN (mc_ids c) (off / 64)) as [ms|] eqn:Hnth; [|apply rk_panic].
  set (ow := off mod 64) in *.
  assert (How : ow < 64) by (apply N.mod_lt; lia).
  assert (Hdm : off = 64 * (off / 64) + ow) by (apply N.div_mod'; lia).
  set (m := N.min n (64 * L - off)) in *.
  set (k := N.min m (64 - ow)).
  assert (Hk : k <= m /\ k <= 64 - ow /\ 0 < k) by lia.
  eapply rk_bind; [apply mini_locate_rk|]. intros [sid o] (r & rids & Hr & Hrids & Hsid). cbn [fst] in Hsid.
  eapply rk_bind; [apply sector_read_exact_rk|]. intros bs [Hbs Him]. specialize (Him (proj2 (proj2 Hk))).
  assert (Hloc : mloc ms) by (exists r, rids, sid; auto).
  eapply rk_weaken.
  - apply IH. cbn [mc_off mc_ids]. fold L off. lia.
  - intros [c' bs'] (H1 & H2 & H3). cbn [snd mc_off mc_ids] in *. fold L in H2. fold off in H2, H3.
    rewrite lenN_app, Hbs in H1.
    split; [lia|]. split; [lia|].
    intros b ms' Hb1 Hb2 Hb.
    destruct (N.lt_ge_cases b (off + k)) as [Hlt|Hge].
    + assert (b / 64 = off / 64).
      { symmetry. apply N.div_unique with (b - 64 * (off / 64)); lia. }
      assert (ms' = ms) by congruence. subst ms'. exact Hloc.
    + apply (H3 b ms'); [lia|lia|exact Hb].
Qed.

Lemma mchain_read_exact_rk c n : mc_off c <= mchain_len c ->
  rk (mchain_read_exact c n) s (fun r =>
    lenN (snd r) = n /\ mc_off c + n <= mchain_len c /\
    forall b ms, mc_off c <= b -> b < mc_off c + n -> nthN (mc_ids c) (b / 64) = Some ms -> mloc ms).
Proof.
  intros Hoff. unfold mchain_read_exact.
  eapply rk_weaken; [apply mchain_read_go_rk; exact Hoff|].
  intros [c' bs] H. cbn [snd lenN] in *. exact H.
Qed.

(* ---- read_data ---- *)
(* "the first D bytes of the stream lie in sectors that exist in the image" *)
Definition CBacked (e : dirent) (D : N) : Prop :=
  D = 0 \/
  if d_len e <? MINI_STREAM_CUTOFF then
    exists mids, chain_ids_of (minifat s) (d_start e) = Ok mids /\ D <= 64 * lenN mids /\
      forall b ms, b < D -> nthN mids (b / 64) = Some ms -> mloc ms
  else
    exists ids, chain_ids_of (fat s) (d_start e) = Ok ids /\ D <= slen s * lenN ids /\
      forall b sid, b < D -> nthN ids (b / slen s) = Some sid -> InImg sid.

Lemma read_data_rk id off n e :
  nthN (dirs s) id = Some e -> d_type e = TStream ->
  rk (read_data id off n) s (fun bs =>
    lenN bs = (if d_len e <=? off then 0 else N.min (d_len e - off) n) /\
    (lenN bs <> 0 -> CBacked e off -> CBacked e (off + lenN bs))).
Proof.
  intros He Ht. unfold read_data.
  eapply rk_bind with (P := fun p => p = (d_start e, d_len e)).
  { unfold stream_entry. eapply rk_bind; [apply rk_dir_entry|].
    intros e' He'. assert (e' = e) by congruence. subst e'. rewrite Ht. cbn [objtype_eqb negb].
    apply rk_ret. reflexivity. }
  intros p ->. cbv beta iota zeta.
  set (n0 := if d_len e <=? off then 0 else N.min (d_len e - off) n).
  destruct (N.eqb_spec n0 0) as [E0|Hn0].
  { apply rk_ret. cbn [lenN]. split; [lia|]. intros; contradiction. }
  unfold CBacked.
  destruct (d_len e <? MINI_STREAM_CUTOFF).
  - eapply rk_bind with (P := fun c => mc_off c = 0 /\ chain_ids_of (minifat s) (d_start e) = Ok (mc_ids c)).
    { unfold mchain_new. apply rk_get_bind. eapply rk_bind; [apply rk_lift; intros a Ha; exact Ha|].
      intros ids Hids. apply rk_ret. auto. }
    intros c [Hc0 Hcids].
    eapply rk_bind; [apply rk_of_ro, ro_mchain_seek|]. intros c1 (Hi1 & Ho1 & Hp1).
    eapply rk_bind.
    { apply mchain_read_exact_rk. unfold mchain_len in *. rewrite Hi1, Ho1. exact Hp1. }
    intros [c2 bs] (Hl & Hend & Hloc). cbn [snd] in Hl.
    apply rk_ret. split; [exact Hl|]. intros _ HB. right.
    exists (mc_ids c). split; [exact Hcids|].
    unfold mchain_len in Hend. change MINI_SECTOR_LEN with 64 in Hend.
    rewrite Hi1, Ho1, Hl in *. split; [exact Hend|].
    intros b ms Hlt Hn. destruct (N.lt_ge_cases b off) as [Hbo|Hbo]; [|eapply Hloc; eauto].
    destruct HB as [->|(mids & Hm & HD & Hb)]; [lia|].
    rewrite Hcids in Hm. injection Hm as <-. eapply Hb; eauto.
  - eapply rk_bind with (P := fun c => c_off c = 0 /\ chain_ids_of (fat s) (d_start e) = Ok (c_ids c)).
    { unfold chain_new. apply rk_get_bind. eapply rk_bind; [apply rk_lift; intros a Ha; exact Ha|].
      intros ids Hids. apply rk_ret. auto. }
    intros c [Hc0 Hcids].
    eapply rk_bind; [apply rk_of_ro, ro_chain_seek|]. intros c1 (Hi1 & Ho1 & Hp1).
    eapply rk_bind.
    { apply chain_read_exact_rk. unfold chain_len in *. rewrite Hi1, Ho1. exact Hp1. }
    intros [c2 bs] (Hl & Hend & Hloc). cbn [snd] in Hl.
    apply rk_ret. split; [exact Hl|]. intros _ HB. right.
    exists (c_ids c). split; [exact Hcids|].
    unfold chain_len in Hend. rewrite Hi1, Ho1, Hl in *. split; [exact Hend|].
    intros b sid Hlt Hn. destruct (N.lt_ge_cases b off) as [Hbo|Hbo]; [|eapply Hloc; eauto].
    destruct HB as [->|(ids & Hm & HD & Hb)]; [lia|].
    rewrite Hcids in Hm. injection Hm as <-. eapply Hb; eauto.
Qed.

(* ---- the image bounds what is backed ---- *)
Lemma path_fun fat : forall c l1 l2, path fat c l1 -> path fat c l2 -> l1 = l2.
Proof.
  intros c l1 l2 H. revert l2. induction H as [|cur nx l Hne Hnx _ IH]; intros l2 H2.
  - inversion H2; subst; [reflexivity|congruence].
  - inversion H2 as [|? nx2 l2' Hne2 Hnx2 Hp2]; subst; [congruence|].
    assert (nx2 = nx) by congruence. subst nx2. f_equal. auto.
Qed.

Lemma path_suffix fat : forall c l x, path fat c l -> In x l ->
  exists l', path fat x l' /\ (length l' <= length l)%nat /\ (x <> c -> (length l' < length l)%nat).
Proof.
  intros c l x H. induction H as [|cur nx l Hne Hnx Hp IH]; intros Hin; [destruct Hin|].
  destruct (N.eq_dec x cur) as [->|Hxc].
  - exists (cur :: l). split; [econstructor; eauto|]. split; [lia|]. intros; congruence.
  - destruct Hin as [->|Hin]; [congruence|]. destruct (IH Hin) as (l' & Hp' & Hle & _).
    exists l'. split; [exact Hp'|]. cbn [length]. split; [lia|]. intros _. lia.
Qed.

Lemma path_nodup fat c l : path fat c l -> NoDup l.
Proof.
  induction 1 as [|cur nx l Hne Hnx Hp IH]; [constructor|]. constructor; [|exact IH].
  intros Hin. destruct (path_suffix fat nx l cur Hp Hin) as (l' & Hp' & Hle & _).
  assert (Hp2 : path fat cur (cur :: l)) by (econstructor; eauto).
  pose proof (path_fun fat cur _ _ Hp' Hp2) as E. subst l'. cbn [length] in Hle. lia.
Qed.

Lemma chain_ids_of_nodup fat start ids : chain_ids_of fat start = Ok ids -> NoDup ids.
Proof. intros H. eapply path_nodup. eapply chain_ids_path. exact H. Qed.

Lemma NoDup_nthN_inj (l : list N) i j x : NoDup l -> nthN l i = Some x -> nthN l j = Some x -> i = j.
Proof.
  intros ND Hi Hj. pose proof (nthN_Some_lt _ _ _ Hi) as Hlt. rewrite lenN_length in Hlt.
  rewrite nthN_nth_error in Hi, Hj. rewrite NoDup_nth_error in ND.
  assert (N.to_nat i = N.to_nat j) by (apply ND; [lia|congruence]). lia.
Qed.

Lemma NoDup_map_local {A B} (g : A -> B) : forall l : list A, NoDup l ->
  (forall x y, In x l -> In y l -> g x = g y -> x = y) -> NoDup (map g l).
Proof.
  induction l as [|a t IH]; intros ND Hinj; [constructor|]. inversion ND as [|? ? Ha Ht]; subst.
  cbn [map]. constructor.
  - intros Hin. apply in_map_iff in Hin. destruct Hin as (y & Hy & Hyt).
    assert (y = a) by (apply Hinj; [right; exact Hyt|left; reflexivity|exact Hy]). subst y. contradiction.
  - apply IH; [exact Ht|]. intros x y Hx Hy. apply Hinj; right; assumption.
Qed.

(* a NoDup list whose first J elements map injectively below B has J <= B *)
Lemma prefix_bound_inj (g : N -> N) (l : list N) (J B : N) :
  NoDup l -> J <= lenN l ->
  (forall j x, j < J -> nthN l j = Some x -> g x < B) ->
  (forall j1 j2 x1 x2, j1 < J -> j2 < J -> nthN l j1 = Some x1 -> nthN l j2 = Some x2 -> g x1 = g x2 -> x1 = x2) ->
  J <= B.
Proof.
  intros ND HJ Hb Hinj. set (p := firstn (N.to_nat J) l).
  assert (NDp : NoDup p).
  { apply (nodup_app_l p (skipn (N.to_nat J) l)). unfold p. rewrite firstn_skipn. exact ND. }
  assert (Hin : forall x, In x p -> exists j, j < J /\ nthN l j = Some x).
  { intros x Hx. apply In_nth_error in Hx. destruct Hx as [k Hk].
    apply nth_error_firstn_some in Hk. destruct Hk as [Hk Hlt].
    exists (N.of_nat k). split; [lia|]. rewrite nthN_nth_error, Nat2N.id. exact Hk. }
  assert (NDg : NoDup (map g p)).
  { apply NoDup_map_local; [exact NDp|]. intros x y Hx Hy E.
    destruct (Hin x Hx) as (j1 & Hj1 & E1). destruct (Hin y Hy) as (j2 & Hj2 & E2).
    exact (Hinj j1 j2 x y Hj1 Hj2 E1 E2 E). }
  assert (Fg : Forall (fun x => x < B) (map g p)).
  { apply Forall_forall. intros y Hy. apply in_map_iff in Hy. destruct Hy as (x & <- & Hx).
    destruct (Hin x Hx) as (j & Hj & E). exact (Hb j x Hj E). }
  pose proof (bounded_nodup_length _ _ NDg Fg) as H. rewrite map_length in H. unfold p in H.
  rewrite lenN_length in HJ. rewrite firstn_length_le in H by lia. lia.
Qed.

Lemma ceil_div_lt D q j : 0 < q -> j < (D + (q - 1)) / q -> q * j < D.
Proof.
  intros Hq Hj.
  assert ((D + (q - 1)) / q * q <= D + (q - 1)) by (rewrite N.mul_comm; apply N.mul_div_le; lia). nia.
Qed.

Lemma ceil_div_ge D q : 0 < q -> D <= q * ((D + (q - 1)) / q).
Proof.
  intros Hq. pose proof (N.div_mod' (D + (q - 1)) q). pose proof (N.mod_lt (D + (q - 1)) q). lia.
Qed.

Lemma CBacked_bound e D : CBacked e D -> D <= slen s * lenN (img s).
Proof.
  intros [->|H]; [lia|]. assert (Hsl : 0 < slen s) by apply slen_pos.
  destruct (d_len e <? MINI_STREAM_CUTOFF).
  - destruct H as (mids & Hc & HD & Hb).
    destruct (N.eq_dec D 0) as [->|HD0]; [lia|].
    pose proof (chain_ids_of_nodup _ _ _ Hc) as ND.
    set (per := slen s / 64) in *.
    assert (Hper : 0 < per /\ slen s = 64 * per).
    { unfold per. destruct (slen_cases s) as [E|E]; rewrite E; split; reflexivity. }
    destruct Hper as [Hper Hslp].
    (* the root chain, from the first mini sector *)
    assert (H0 : exists ms0, nthN mids (0 / 64) = Some ms0).
    { change (0 / 64) with 0. apply nthN_lt_Some. lia. }
    destruct H0 as [ms0 Hms0].
    destruct (Hb 0 ms0 ltac:(lia) Hms0) as (r & rids & sid0 & Hr & Hrids & _).
    pose proof (chain_ids_of_nodup _ _ _ Hrids) as NDr.
    set (g := fun ms => match nthN rids (ms / per) with Some sid => sid | None => 0 end * per + ms mod per).
    assert (HJ : (D + 63) / 64 <= per * lenN (img s)).
    { apply (prefix_bound_inj g mids); [exact ND| | |].
      - assert ((D + 63) / 64 < lenN mids + 1) by (apply N.div_lt_upper_bound; lia). lia.
      - intros j x Hj Hx.
        assert (Hj' : 64 * j < D) by (apply (ceil_div_lt D 64 j); [lia|exact Hj]).
        assert (Hx' : nthN mids (64 * j / 64) = Some x) by (rewrite N.mul_comm, N.div_mul by lia; exact Hx).
        destruct (Hb _ _ Hj' Hx') as (r' & rids' & sid & Hr' & Hrids' & Hsid & Him).
        assert (r' = r) by congruence. subst r'. assert (rids' = rids) by congruence. subst rids'.
        unfold g. fold per in Hsid. rewrite Hsid. unfold InImg in Him.
        pose proof (N.mod_lt x per). nia.
      - intros j1 j2 x1 x2 Hj1 Hj2 Hx1 Hx2 Eg.
        assert (Hl : forall j x, j < (D + 63) / 64 -> nthN mids j = Some x ->
                  exists sid, nthN rids (x / per) = Some sid).
        { intros j x Hj Hx.
          assert (Hj' : 64 * j < D) by (apply (ceil_div_lt D 64 j); [lia|exact Hj]).
          assert (Hx' : nthN mids (64 * j / 64) = Some x) by (rewrite N.mul_comm, N.div_mul by lia; exact Hx).
          destruct (Hb _ _ Hj' Hx') as (r' & rids' & sid & Hr' & Hrids' & Hsid & Him).
          assert (r' = r) by congruence. subst r'. assert (rids' = rids) by congruence. subst rids'.
          exists sid. exact Hsid. }
        destruct (Hl _ _ Hj1 Hx1) as [s1 Hs1]. destruct (Hl _ _ Hj2 Hx2) as [s2 Hs2].
        unfold g in Eg. rewrite Hs1, Hs2 in Eg.
        pose proof (N.mod_lt x1 per ltac:(lia)) as M1. pose proof (N.mod_lt x2 per ltac:(lia)) as M2.
        assert (Es : s1 = s2 /\ x1 mod per = x2 mod per).
        { assert (s1 = (s1 * per + x1 mod per) / per) by (apply N.div_unique with (x1 mod per); lia).
          assert (s2 = (s2 * per + x2 mod per) / per) by (apply N.div_unique with (x2 mod per); lia).
          split; [congruence|]. assert (s1 = s2) by congruence. subst s2. lia. }
        destruct Es as [-> Em].
        assert (Ed : x1 / per = x2 / per) by (eapply NoDup_nthN_inj; eauto).
        rewrite (N.div_mod' x1 per), (N.div_mod' x2 per). congruence. }
    pose proof (ceil_div_ge D 64 ltac:(lia)) as HD2. change (64 - 1) with 63 in HD2.
    rewrite Hslp. nia.
  - destruct H as (ids & Hc & HD & Hb).
    pose proof (chain_ids_of_nodup _ _ _ Hc) as ND.
    set (q := slen s) in *.
    assert (HJ : (D + (q - 1)) / q <= lenN (img s)).
    { apply (prefix_bound ids); [exact ND| |].
      - assert ((D + (q - 1)) / q < lenN ids + 1) by (apply N.div_lt_upper_bound; lia). lia.
      - intros j x Hj Hx.
        assert (Hj' : q * j < D) by (apply ceil_div_lt; [lia|exact Hj]).
        assert (Hx' : nthN ids (q * j / q) = Some x) by (rewrite N.mul_comm, N.div_mul by lia; exact Hx).
        specialize (Hb _ _ Hj' Hx'). unfold InImg in Hb. lia. }
    pose proof (ceil_div_ge D q Hsl). nia.
Qed.

End CatReads.

(* ---- the handle: what a refill does ---- *)
Definition crefilled (s : cstate) (e : dirent) (h h' : handle) : Prop :=
  h_id h' = h_id h /\ h_total h' = h_total h /\
  h_off h' = h_off h + b_pos (h_buf h) /\ b_pos (h_buf h') = 0 /\
  h_off h' < h_total h /\
  (exists buflen, STREAM_BUFFER_MIN <= buflen /\
     b_cap (h_buf h') = N.min (h_total h - h_off h') buflen) /\
  (CBacked s e (h_off h') -> CBacked s e (h_off h' + b_cap (h_buf h'))).

(* a clean handle on a stream whose entry records the handle's length (ReadonlyTotal.HandleOk):
   the state is not changed, and a successful refill is as described *)
Lemma cfill_buf_spec s h e : HandleOk s h -> nthN (dirs s) (h_id h) = Some e ->
  exists h' r, h_fill_buf' h s = (s, (h', r)) /\ HandleOk s h' /\
    h_id h' = h_id h /\
    forall avail, r = Ok avail ->
      lenN avail = b_cap (h_buf h') - b_pos (h_buf h') /\
      (h' = h \/ crefilled s e h h').
Proof.
  intros (e' & He' & Ht & Htot & Hd & Hpc & Hcl & Hmin & Hmax & Hoc) He.
  assert (e' = e) by congruence. subst e'.
  unfold h_fill_buf', h_fill_buf. cbv zeta.
  destruct (negb (b_pos (h_buf h) <? b_cap (h_buf h)) && (h_position h <? h_total h)) eqn:Hc.
  2:{ exists h, (Ok (buf_remaining (h_buf h))). split; [reflexivity|].
      split; [exists e; repeat split; assumption|]. split; [reflexivity|].
      intros avail [= <-]. split; [apply lenN_buf_remaining; exact Hcl|left; reflexivity]. }
  apply andb_true_iff in Hc. destruct Hc as [Hc1 Hc2].
  apply negb_true_iff, N.ltb_ge in Hc1. apply N.ltb_lt in Hc2. unfold h_position in Hc2.
  unfold flush_changes. rewrite Hd.
  set (off := h_off h + b_pos (h_buf h)) in *.
  set (b0 := mkBuf (b_data (h_buf h)) 0 (b_cap (h_buf h)) (b_max (h_buf h))).
  set (b1 := buf_grow_for_read b0 (h_total h - off)).
  destruct (grow_for_read_props b0 (h_total h - off) Hmin) as [Hmin1 Hmax1]. fold b1 in Hmin1, Hmax1.
  cbn [b_max b0] in Hmax1.
  set (limit := N.min (h_total h - off) (lenN (b_data b1))).
  destruct (read_data_rk s (h_id h) off limit e He Ht) as (r & E & Hr).
  rewrite E.
  assert (Herr : forall r' : res (list byte),
     exists (h' : handle) (r0 : res (list byte)),
       (s, (mkHandle (h_id h) (h_total h) (buf_clear b1) off (h_dirty h), r')) = (s, (h', r0)) /\
       HandleOk s h' /\ h_id h' = h_id h /\
       ((forall a, r' <> Ok a) -> forall avail, r0 = Ok avail ->
          lenN avail = b_cap (h_buf h') - b_pos (h_buf h') /\ (h' = h \/ crefilled s e h h'))).
  { intros r'. eexists _, _. split; [reflexivity|].
    split; [|split; [reflexivity|intros Hn avail Ha; destruct (Hn avail Ha)]].
    exists e. cbn [h_id h_total h_dirty h_buf h_off buf_clear b_pos b_cap b_data b_max].
    repeat split; try assumption; lia. }
  destruct r as [got|k|pn|].
  - destruct (Hr got eq_refl) as [Hlen HB]. clear Hr.
    assert (Hlen' : lenN got = N.min (h_total h - off) (lenN (b_data b1))).
    { rewrite Hlen. unfold limit. destruct (N.leb_spec (d_len e) off); lia. }
    clear Hlen.
    destruct (N.ltb_spec limit (lenN got)); [unfold limit in *; lia|].
    eexists _, _. split; [reflexivity|].
    cbn [h_id h_buf b_cap b_pos].
    split; [|split; [reflexivity|]].
    + exists e. cbn [h_id h_total h_dirty h_buf h_off b_pos b_cap b_data b_max].
      unfold byte in *. rewrite lenN_app, lenN_dropN.
      repeat split; try assumption; lia.
    + intros avail [= <-]. split.
      * rewrite lenN_buf_remaining; cbn [b_cap b_pos b_data]; [reflexivity|].
        unfold byte in *. rewrite lenN_app, lenN_dropN. lia.
      * right. unfold crefilled. cbn [h_id h_total h_off h_buf b_pos b_cap].
        repeat split; try reflexivity; try assumption.
        -- exists (lenN (b_data b1)). split; [exact Hmin1|exact Hlen'].
        -- intros HB0. apply HB; [|exact HB0]. unfold STREAM_BUFFER_MIN in *. lia.
  - destruct (Herr (Err k)) as (h' & r0 & E0 & A & B & C). exists h', r0. split; [exact E0|].
    split; [exact A|]. split; [exact B|]. apply C. discriminate.
  - destruct (Herr (Panic pn)) as (h' & r0 & E0 & A & B & C). exists h', r0. split; [exact E0|].
    split; [exact A|]. split; [exact B|]. apply C. discriminate.
  - destruct (Herr OutOfFuel) as (h' & r0 & E0 & A & B & C). exists h', r0. split; [exact E0|].
    split; [exact A|]. split; [exact B|]. apply C. discriminate.
Qed.

(* ---- read to end ---- *)
Lemma cat_go_fn n s e : MInvN n s -> forall fuel h acc,
  HBuf n h -> HandleOk s h -> nthN (dirs s) (h_id h) = Some e ->
  b_pos (h_buf h) = b_cap (h_buf h) ->
  CBacked s e (h_off h + b_cap (h_buf h)) ->
  (1 <= fuel)%nat ->
  (h_off h + b_cap (h_buf h) < h_total h ->
   (2 + N.to_nat (N.min (h_total h - (h_off h + b_cap (h_buf h)))
                        (slen s * lenN (img s) - (h_off h + b_cap (h_buf h))) / STREAM_BUFFER_MIN)
    <= fuel)%nat) ->
  fst (cat_go fuel h acc s) = s /\ (Bound s -> fineK (snd (cat_go fuel h acc s))).
Proof.
  intros Hs. induction fuel as [|f IH]; intros h acc Hh HO He Hpc HB Hf1 Hf2; [lia|].
  cbn [cat_go].
  destruct (cfill_buf_spec s h e HO He) as (h1 & r & E & HO1 & Hid1 & Hr).
  destruct (h_fill_buf_tot n h Hh s Hs) as (_ & Hh1 & _ & F4).
  rewrite E in *. cbn [fst snd] in *.
  destruct r as [avail|k|pn|]; cbn [fst snd]; try (split; [reflexivity|exact F4]).
  destruct (Hr avail eq_refl) as [Hl Hcase]. clear Hr.
  destruct avail as [|a0 avail'].
  { cbn [fst snd]. split; [reflexivity|intros _; exact I]. }
  set (avail := a0 :: avail') in *.
  assert (Hnz : lenN avail <> 0) by (unfold avail; cbn [lenN]; lia).
  destruct Hcase as [->|RF]; [lia|].
  destruct RF as (Rid & Rtot & Roff & Rpos & Rlt & (buflen & Hbl & Rcap) & RB).
  destruct (consume_spec s h1 (lenN avail) HO1) as (h2 & Ec & HO2 & Cid & Ctot & Coff & Ccap & Cpos); [lia|].
  assert (Hh2 : HBuf n h2).
  { destruct (h_consume_ok n h1 (lenN avail) Hh1) as [C1 _]; [lia|]. rewrite Ec in C1. exact C1. }
  rewrite Ec.
  rewrite Hpc in Roff.
  assert (HB1 : CBacked s e (h_off h1 + b_cap (h_buf h1))) by (apply RB; rewrite Roff; exact HB).
  pose proof (CBacked_bound s e _ HB1) as Hbound.
  pose proof (CBacked_bound s e _ HB) as Hbound0.
  apply IH.
  - exact Hh2.
  - exact HO2.
  - rewrite Cid, Rid. exact He.
  - rewrite Cpos, Ccap, Rpos, Hl. lia.
  - rewrite Coff, Ccap. exact HB1.
  - assert (Hlt0 : h_off h + b_cap (h_buf h) < h_total h) by lia.
    specialize (Hf2 Hlt0). set (q := N.to_nat _) in Hf2. clearbody q. lia.
  - rewrite Ctot, Coff, Ccap, Rtot. intros Hlt.
    assert (Hlt0 : h_off h + b_cap (h_buf h) < h_total h) by lia.
    specialize (Hf2 Hlt0).
    set (D := h_off h + b_cap (h_buf h)) in *.
    set (C := slen s * lenN (img s)) in *.
    set (T := h_total h) in *.
    set (nn := b_cap (h_buf h1)) in *.
    assert (En : nn = buflen) by lia.
    assert (Hn : STREAM_BUFFER_MIN <= nn) by lia.
    rewrite Roff in *.
    assert (Ex : N.min (T - (D + nn)) (C - (D + nn)) = N.min (T - D) (C - D) - nn) by lia.
    rewrite Ex.
    set (x := N.min (T - D) (C - D)) in *.
    assert (Hx : nn <= x) by lia.
    unfold STREAM_BUFFER_MIN in *.
    assert (Hd : (x - nn) / 1024 + 1 <= x / 1024).
    { replace ((x - nn) / 1024 + 1) with ((x - nn + 1 * 1024) / 1024) by (apply N.div_add; lia).
      apply N.div_le_mono; lia. }
    lia.
Qed.

(* api_open_stream leaves the state alone and returns a handle as cat_go wants it *)
Lemma open_stream_rk p mb s :
  rk (api_open_stream p mb) s (fun h => HandleOk s h /\ h_off h = 0 /\
        b_pos (h_buf h) = 0 /\ b_cap (h_buf h) = 0).
Proof.
  unfold api_open_stream. eapply rk_bind with (P := fun _ => True).
  { unfold names_of. apply rk_lift. auto. }
  intros names _.
  eapply rk_bind with (P := fun _ => True).
  { unfold lookup. apply rk_get_bind. apply rk_lift. auto. }
  intros [id|] _; [|apply rk_fail].
  eapply rk_bind; [apply rk_dir_entry|]. intros e He.
  destruct (objtype_eqb (d_type e) TStream) eqn:Ety; cbn [negb]; [|apply rk_fail].
  assert (Ht : d_type e = TStream) by (destruct (d_type e); cbn in Ety; congruence).
  unfold handle_new', handle_new, stream_len_of, rk.
  unfold dir_entry. unfold bind, get. cbv beta iota. rewrite He. unfold ret. cbv beta iota.
  eexists. split; [reflexivity|]. intros h [= <-].
  cbn [h_off h_buf b_pos b_cap buf_new]. split; [|auto].
  exists e. cbn [h_id h_total h_dirty h_buf h_off buf_new b_pos b_cap b_data b_max].
  rewrite lenN_repeatN. unfold STREAM_BUFFER_MIN. repeat split; try assumption; lia.
Qed.

Lemma api_cat_tot n p mb : tot (MInvN n) (api_cat p mb) (fun _ => MInvN n) (MInvN n).
Proof.
  unfold api_cat.
  eapply tot_bind with (Q := fun h s => (MInvN n s /\ exists id, HNew id h s) /\
      (HandleOk s h /\ h_off h = 0 /\ b_pos (h_buf h) = 0 /\ b_cap (h_buf h) = 0)).
  { eapply tot_conseq; [apply (tot_and_spec (MInvN n) (fun _ => True) _ _
        (fun h s => HandleOk s h /\ h_off h = 0 /\ b_pos (h_buf h) = 0 /\ b_cap (h_buf h) = 0) _ (fun _ => True)
        (api_open_stream_tot n p mb))| | |].
    - intros s _. destruct (open_stream_rk p mb s) as (r & E & Hr). rewrite E. cbn [fst snd].
      split; [exact I|]. intros a ->. apply Hr. reflexivity.
    - intros s H. split; [exact H|exact I].
    - intros h s H. exact H.
    - intros s [H _]. exact H. }
  intros h. apply tot_get_bind. intros s0 ((Hm & id & Hhid & Hid & Hbuf & _) & HO & Hoff & Hpos & Hcap).
  cbv zeta. intros s ->.
  set (n' := N.max n (id + 1)).
  assert (Hm' : MInvN n' s0) by (apply (MInvN_raise n); [exact Hm|pose proof (MInvN_len _ _ Hm); lia]).
  assert (Hh : HBuf n' h) by (split; [rewrite Hhid; lia|exact Hbuf]).
  pose proof HO as (e & He & _).
  set (fuel := S (S (S (N.to_nat (N.min (h_total h) (lenN (img s0) * slen s0) / STREAM_BUFFER_MIN))))).
  destruct (cat_go_fn n' s0 e Hm' fuel h []) as [Hst Hfn]; try assumption.
  - congruence.
  - left. lia.
  - unfold fuel. lia.
  - intros _. rewrite Hoff, Hcap. unfold fuel.
    rewrite (N.mul_comm (slen s0)). rewrite !N.add_0_r, !N.sub_0_r. lia.
  - rewrite Hst. split; [exact Hm|]. split; [intros; exact Hm|]. exact Hfn.
Qed.

(* ================================================================== *)
(* 15. what open establishes                                           *)
(* ================================================================== *)
Lemma root_name_len : lenN (utf16 ROOT_DIR_NAME) <= MAX_NAME_LEN.
Proof. vm_compute. discriminate. Qed.

Lemma decode_EntOk v strict bs e : dirent_decode v strict bs = Ok e -> EntOk e.
Proof.
  unfold dirent_decode.
  destruct (_ <? DIR_ENTRY_LEN); [intros H; exfalso; exact (StrictProofs.dirent_decode_short_not_ok _ _ _ H)|]. cbv zeta.
  destruct (64 <? _); [discriminate|].
  destruct (negb (_ mod 2 =? 0)); [discriminate|].
  destruct (nthN _ _) as [term|]; [|discriminate].
  destruct (strict && negb (term =? 0)); [discriminate|].
  destruct (from_utf16 _) as [nm0|]; [|discriminate].
  destruct (nthN bs 66) as [tb|]; [|discriminate].
  destruct (objtype_of_byte tb) as [ty|]; [|discriminate].
  intros H. apply rbind_Ok in H. destruct H as (nm & Hnm & H).
  assert (Hlen : lenN (utf16 nm) <= MAX_NAME_LEN).
  { destruct (objtype_eqb ty TRoot).
    - destruct (list_eqb N.eqb nm0 ROOT_DIR_NAME) eqn:El.
      + injection Hnm as <-.
        assert (nm0 = ROOT_DIR_NAME).
        { clear - El. revert El. generalize ROOT_DIR_NAME. induction nm0 as [|a t IH]; intros [|b u] H; cbn in H; try discriminate; [reflexivity|].
          apply andb_true_iff in H. destruct H as [H1 H2]. apply N.eqb_eq in H1. subst. f_equal. auto. }
        subst nm0. exact root_name_len.
      + destruct strict; [discriminate|]. injection Hnm as <-. exact root_name_len.
    - apply rbind_Ok in Hnm. destruct Hnm as (u & Hv & [= <-]). eapply validate_name_len; eauto. }
  destruct (nthN bs 67) as [cb|]; [|discriminate].
  destruct (color_of_byte cb) as [col|]; [|discriminate].
  destruct (negb _ && _); [discriminate|].
  destruct (negb _ && _); [discriminate|].
  destruct (negb (le_val (takeN 4 (dropN 76 bs)) =? NO_STREAM) && (objtype_eqb ty TStream || _)) eqn:Ech; [discriminate|].
  repeat match type of H with (if ?c then _ else _) = _ => destruct c; [discriminate|] end.
  injection H as <-. split; [exact Hlen|]. cbn [d_type d_child]. intros ->. cbn [objtype_eqb orb] in Ech.
  rewrite andb_true_r in Ech. apply negb_false_iff in Ech. apply N.eqb_eq in Ech. exact Ech.
Qed.

Lemma read_dirents_EntOk v strict : forall k bs es, read_dirents v strict k bs = Ok es -> Forall EntOk es.
Proof.
  induction k as [|k IH]; intros bs es H; cbn [read_dirents] in H; [injection H as <-; constructor|].
  apply rbind_Ok in H. destruct H as (e & He & H). apply rbind_Ok in H. destruct H as (r & Hr & [= <-]).
  constructor; [eapply decode_EntOk; eauto|eapply IH; eauto].
Qed.

Lemma dir_loop_EntOk strict v nd im ns fat : forall f cur count seen acc ds,
  dir_loop f strict v nd im ns fat cur count seen acc = Ok ds -> Forall EntOk acc -> Forall EntOk ds.
Proof.
  induction f as [|f IH]; intros cur count seen acc ds H Hacc; [discriminate|]. cbn [dir_loop] in H.
  destruct (cur =? END_OF_CHAIN); [injection H as <-; exact Hacc|].
  destruct (_ && _); [discriminate|]. destruct (_ <? cur); [discriminate|]. destruct (ns <=? cur); [discriminate|].
  destruct (memN cur seen); [discriminate|]. cbv zeta in H.
  apply rbind_Ok in H. destruct H as (es & Hes & H). apply rbind_Ok in H. destruct H as (nx & _ & H).
  eapply IH; [exact H|]. apply Forall_app. split; [exact Hacc|eapply read_dirents_EntOk; eauto].
Qed.

Lemma dir_loop_start strict v nd im ns fat f count seen ds :
  dir_loop f strict v nd im ns fat END_OF_CHAIN count seen [] = Ok ds -> ds = [].
Proof. destruct f; [discriminate|]. cbn [dir_loop]. rewrite N.eqb_refl. intros [= <-]. reflexivity. Qed.

Lemma mini_validate_mfree strict rl mf mf' fr :
  mini_validate strict rl mf = Ok (mf', fr) -> Forall (fun i => i < lenN mf') fr /\ (mf = [] -> mf' = []).
Proof.
  unfold mini_validate. cbv zeta. intros H. apply rbind_Ok in H. destruct H as (mf1 & H1 & H).
  destruct (check_pointees true mf1 (lenN mf1) []) as [[]| | |] eqn:E; try discriminate.
  cbn [rbind] in H. injection H as <- <-. split.
  - apply Forall_forall. intros x Hx. apply free_indices_In in Hx. destruct Hx as [_ Hx].
    rewrite N.sub_0_r in Hx. eapply nthN_Some_lt; eauto.
  - intros ->. destruct (_ <? lenN []); [destruct strict; [discriminate|]|]; injection H1 as <-; reflexivity.
Qed.

Lemma strip_last_while_nil pz m : strip_last_while pz m [] = [].
Proof. reflexivity. Qed.

Theorem open_MInv strict bytes s : open_model strict bytes = Ok s -> MInv s.
Proof.
  intros Hopen. pose proof (open_allsafe _ _ _ Hopen) as Hsafe.
  pose proof (open_dirtree _ _ _ Hopen) as Htree.
  pose proof (open_dir_validate _ _ _ Hopen) as Hdv.
  split; [exact Hsafe|].
  (* the root entry *)
  assert (HR : RootOk (dirs s)).
  { unfold dir_validate in Hdv. destruct (dirs s) as [|root tl] eqn:Eds; [discriminate|].
    destruct (N.eqb_spec (d_len root mod MINI_SECTOR_LEN) 0) as [Hl|Hl]; cbn [negb] in Hdv; [|discriminate].
    exists root. split; [reflexivity|]. split; [|exact Hl].
    destruct Htree as (T & HRT & _ & Ty). destruct T as [|l i c r]; cbn [Rep3] in HRT; [discriminate HRT|].
    destruct HRT as (<- & _). inversion Ty as [|? ? (e & He & Ht) _]; subst. cbn [nthN] in He.
    change (ROOT_STREAM_ID =? 0) with true in He. injection He as <-. exact Ht. }
  revert Hopen. unfold open_model. cbv zeta.
  destruct (_ <? HEADER_LEN); [discriminate|].
  intros H. apply rbind_Ok in H. destruct H as (h & _ & H).
  destruct (_ <? lenN bytes); [discriminate|].
  destruct (lenN bytes <? _); [discriminate|].
  apply rbind_Ok in H. destruct H as ([ids difat0] & _ & H). cbv beta iota in H.
  destruct (_ && _); [discriminate|].
  destruct (strict && negb _); [discriminate|].
  apply rbind_Ok in H. destruct H as (fat0 & _ & H).
  apply rbind_Ok in H. destruct H as ([fat4 fr] & _ & H). cbv beta iota in H.
  apply rbind_Ok in H. destruct H as (ds & Hds & H).
  apply rbind_Ok in H. destruct H as ([] & _ & H).
  apply rbind_Ok in H. destruct H as ([c s1] & Hc & H). cbv beta iota in H.
  destruct (_ && _); [discriminate|].
  apply rbind_Ok in H. destruct H as ([[c2 mbytes] s2] & Hrd & H). cbv beta iota in H.
  destruct ds as [|root t] eqn:Eds; [discriminate|].
  apply rbind_Ok in H. destruct H as ([mf mfr] & Hmv & [= <-]).
  cbn [dirs minifat mfree minifat_start dir_start] in *.
  split; [split; [exact HR|split; [|exact Htree]]|split; [split|]].
  - rewrite <- Eds in Hds |- *. eapply dir_loop_EntOk; [exact Hds|constructor].
  - apply (mini_validate_mfree _ _ _ _ _ Hmv).
  - intros Hms. cbn [minifat_start minifat] in *. apply (mini_validate_mfree _ _ _ _ _ Hmv).
    apply run_Ok in Hc. unfold chain_new, bind, get, lift, ret in Hc. cbv beta iota in Hc. cbn [fat] in Hc.
    rewrite Hms in Hc. unfold chain_ids_of in Hc. cbn [chain_ids_go] in Hc. rewrite N.eqb_refl in Hc.
    cbn [rev] in Hc. injection Hc as _ <-.
    unfold chain_len in Hrd. cbn [c_ids lenN] in Hrd. rewrite N.mul_0_r in Hrd.
    change (0 / 4) with 0 in Hrd. change (4 * 0) with 0 in Hrd.
    apply run_Ok in Hrd. unfold chain_read_exact, bind, get in Hrd. cbv beta iota in Hrd.
    cbn [chain_read_go] in Hrd. cbn [N.eqb] in Hrd. unfold ret in Hrd. injection Hrd as _ _ <-. reflexivity.
  - cbn [dir_start]. intros E. rewrite E in Hds. apply dir_loop_start in Hds. discriminate Hds.
Qed.

(* ================================================================== *)
(* 14. the step function                                               *)
(* ================================================================== *)
(* the handle invariant: the id is an index of the directory table (whatever the entry there
   is now), the cursor is inside the buffer, and the buffer window is inside total_len *)
Definition HOk (n : N) (h : handle) : Prop := HBuf n h /\ CapOk h.

Definition HsOk (n : N) (hs : list (option handle)) : Prop :=
  forall i h, nthN hs i = Some (Some h) -> HOk n h.

Definition FOk (f : fstate) : Prop := MInv (cs f) /\ HsOk (lenN (dirs (cs f))) (hs f).

(* the contract of the caller *)
Definition OpOk (f : fstate) (o : op) : Prop :=
  match o with
  | OHConsume i k =>
    match nthN (hs f) i with
    | Some (Some h) => k <= b_cap (h_buf h) - b_pos (h_buf h)       (* BufRead::consume *)
    | _ => True
    end
  | _ => True
  end.

Lemma HOk_mono n n' h : n <= n' -> HOk n h -> HOk n' h.
Proof. intros Hle [[H1 H2] H3]. split; [split; [lia|exact H2]|exact H3]. Qed.
Lemma HsOk_mono n n' hs : n <= n' -> HsOk n hs -> HsOk n' hs.
Proof. intros Hle H i h Hi. eapply HOk_mono; eauto. Qed.
Lemma HsOk_upd n hs i oh : HsOk n hs -> (forall h, oh = Some h -> HOk n h) -> HsOk n (updN hs i oh).
Proof.
  intros H Hh j h Hj. rewrite nthN_updN in Hj.
  destruct ((j =? i) && (i <? lenN hs)); [injection Hj as ->; auto|eapply H; eauto].
Qed.

Lemma FOk_MInvN f : FOk f -> MInvN (lenN (dirs (cs f))) (cs f).
Proof. intros [H _]. apply MInv_MInvN; [exact H|lia]. Qed.

(* the three shapes of a step *)
Lemma with_cs_step {A} f (m : M A) (k : A -> value) :
  FOk f -> (forall n, tot (MInvN n) m (fun _ => MInvN n) (MInvN n)) ->
  FOk (fst (with_cs f m k)) /\ (Bound (cs (fst (with_cs f m k))) -> fineK (snd (with_cs f m k))).
Proof.
  intros HF Hm. set (n := lenN (dirs (cs f))).
  destruct (Hm n (cs f) (FOk_MInvN f HF)) as (A1 & _ & A3).
  unfold with_cs. destruct (m (cs f)) as [s' r]. cbn [fst snd cs hs] in *.
  split.
  - split; [eapply MInvN_MInv; eauto|]. eapply HsOk_mono; [|apply HF]. apply (MInvN_len _ _ A1).
  - intros HB. specialize (A3 HB). destruct r; cbn; auto.
Qed.

Lemma with_new_handle_step f i (m : M handle) :
  FOk f ->
  (forall n, tot (MInvN n) m (fun h s => MInvN n s /\ exists id, HNew id h s) (MInvN n)) ->
  FOk (fst (with_new_handle f i m)) /\
  (Bound (cs (fst (with_new_handle f i m))) -> fineK (snd (with_new_handle f i m))).
Proof.
  intros HF Hm. set (n := lenN (dirs (cs f))).
  destruct (Hm n (cs f) (FOk_MInvN f HF)) as (A1 & A2 & A3).
  unfold with_new_handle. destruct (m (cs f)) as [s' r]. cbn [fst snd] in *.
  assert (Hold : HsOk (lenN (dirs s')) (hs f)).
  { eapply HsOk_mono; [|apply HF]. apply (MInvN_len _ _ A1). }
  destruct r as [h| | |]; cbn [fst snd cs hs]; (split; [split; [eapply MInvN_MInv; eauto|]|]); auto.
  apply HsOk_upd; [exact Hold|]. intros h' [= <-].
  destruct (A2 h eq_refl) as [_ (id & Hid & Hlt & Hb & Hc)]. split; [split; [rewrite Hid; exact Hlt|exact Hb]|exact Hc].
Qed.

Lemma with_handle_step {A} f i (m : handle -> HM cstate A) (k : A -> value) Qv :
  FOk f -> (forall n h, HOk n h -> htot n (m h) Qv) ->
  (forall h s, CapOk h -> CapOk (fst (snd (m h s)))) ->
  FOk (fst (with_handle f i m k)) /\
  (Bound (cs (fst (with_handle f i m k))) -> fineK (snd (with_handle f i m k))).
Proof.
  intros HF Hm Hcap. unfold with_handle.
  destruct (nthN (hs f) i) as [[h|]|] eqn:Eh; try (split; [exact HF|intros _; exact I]).
  set (n := lenN (dirs (cs f))).
  assert (Hh : HOk n h) by (apply (proj2 HF i h Eh)).
  destruct (Hm n h Hh (cs f) (FOk_MInvN f HF)) as (A1 & A2 & _ & A4).
  pose proof (Hcap h (cs f) (proj2 Hh)) as A5.
  destruct (m h (cs f)) as [s' [h' r]]. cbn [fst snd cs hs] in *.
  assert (Hn : n <= lenN (dirs s')) by apply (MInvN_len _ _ A1).
  split.
  - split; [eapply MInvN_MInv; eauto|]. apply HsOk_upd; [eapply HsOk_mono; [exact Hn|apply HF]|].
    intros h0 [= <-]. eapply HOk_mono; [exact Hn|]. split; assumption.
  - intros HB. specialize (A4 HB). destruct r; cbn; auto.
Qed.

Lemma ro_tot {A} n (m : M A) (P : A -> Prop) :
  (forall s, DirTree (dirs s) -> ro m s P) -> tot (MInvN n) m (fun _ => MInvN n) (MInvN n).
Proof.
  intros H. eapply tot_conseq; [apply (tot_of_ro (MInvN n) m P)| | |].
  - intros s Hs. apply H. destruct Hs as [_ ((_ & _ & HD & _) & _)]. exact HD.
  - intros s Hs; exact Hs.
  - intros a s [Hs _]; exact Hs.
  - intros s Hs; exact Hs.
Qed.

Lemma drop_handle_ok f i : FOk f -> FOk (drop_handle f i).
Proof.
  intros HF. unfold drop_handle. destruct (nthN (hs f) i) as [[h|]|] eqn:Eh; try exact HF.
  set (n := lenN (dirs (cs f))).
  assert (Hh : HBuf n h) by (apply (proj1 (proj2 HF i h Eh))).
  destruct (flush_tot n h Hh (cs f) (FOk_MInvN f HF)) as (A1 & _ & _).
  destruct (flush_changes' h (cs f)) as [s' r]. cbn [fst snd cs hs] in *.
  split; [eapply MInvN_MInv; eauto|]. apply HsOk_upd; [|intros ? [=]].
  eapply HsOk_mono; [apply (MInvN_len _ _ A1)|apply HF].
Qed.

(* a panic inside the final flush of a dropped handle unwinds out of drop *)
Lemma drop_result_fineK f i : FOk f -> Bound (cs (drop_handle f i)) -> fineK (drop_result f i).
Proof.
  intros HF. unfold drop_handle, drop_result. destruct (nthN (hs f) i) as [[h|]|] eqn:Eh; try (intros _; exact I).
  set (n := lenN (dirs (cs f))).
  assert (Hh : HBuf n h) by (apply (proj1 (proj2 HF i h Eh))).
  destruct (flush_tot n h Hh (cs f) (FOk_MInvN f HF)) as (_ & _ & A3).
  destruct (flush_changes' h (cs f)) as [s' r]. cbn [fst snd cs] in *.
  intros HB. specialize (A3 HB). destruct r; cbn in *; auto.
Qed.

Definition NoneBelow (i : N) (hs : list (option handle)) : Prop :=
  forall j h, j < i -> nthN hs j <> Some (Some h).

Lemma drop_handle_hs f i :
  lenN (hs (drop_handle f i)) = lenN (hs f) /\
  (forall j, j <> i -> nthN (hs (drop_handle f i)) j = nthN (hs f) j) /\
  (forall h, nthN (hs (drop_handle f i)) i <> Some (Some h)).
Proof.
  unfold drop_handle. destruct (nthN (hs f) i) as [[h|]|] eqn:Eh.
  - destruct (flush_changes' h (cs f)) as [s' r]. cbn [hs]. split; [apply lenN_updN|]. split.
    + intros j Hj. apply nthN_updN_ne. exact Hj.
    + intros h'. rewrite nthN_updN_eq; [discriminate|eapply nthN_Some_lt; eauto].
  - split; [reflexivity|]. split; [reflexivity|]. intros h'. rewrite Eh. discriminate.
  - split; [reflexivity|]. split; [reflexivity|]. intros h'. rewrite Eh. discriminate.
Qed.

Lemma drop_all_ok : forall k f i, FOk f -> NoneBelow i (hs f) ->
  FOk (drop_all k f i) /\ NoneBelow (i + N.of_nat k) (hs (drop_all k f i)) /\
  lenN (hs (drop_all k f i)) = lenN (hs f).
Proof.
  induction k as [|k IH]; intros f i HF HN; cbn [drop_all].
  - split; [exact HF|]. split; [|reflexivity]. intros j h Hj. apply HN. lia.
  - destruct (drop_handle_hs f i) as (Hl & Ho & Hi).
    destruct (IH (drop_handle f i) (i + 1)) as (A & B & C).
    + apply drop_handle_ok. exact HF.
    + intros j h Hj. destruct (N.eq_dec j i) as [->|Hne]; [apply Hi|]. rewrite Ho by exact Hne. apply HN. lia.
    + split; [exact A|]. split; [|rewrite C; exact Hl]. intros j h Hj. apply B. lia.
Qed.

Theorem step_total f now o : FOk f -> OpOk f o ->
  FOk (fst (step f now o)) /\
  (Bound (cs (fst (step f now o))) -> fineK (snd (step f now o))).
Proof.
  intros HF Hop.
  assert (Hgen : forall (f' : fstate) (r : res value),
            FOk f' /\ (Bound (cs f') -> fineK r) -> FOk f' /\ (Bound (cs f') -> fineK r)) by (intros f' r H; exact H).
  destruct o; cbn [step OpOk] in *; try contradiction.
  - apply Hgen. apply with_cs_step; [exact HF|]. intros n. apply api_create_storage_tot.
  - apply Hgen. apply with_cs_step; [exact HF|]. intros n. apply api_create_storage_all_tot.
  - apply Hgen. apply with_cs_step; [exact HF|]. intros n. apply api_remove_storage_tot.
  - apply Hgen. apply with_cs_step; [exact HF|]. intros n. apply api_remove_storage_all_tot.
  - (* create_stream (overwrite) *)
    pose proof (with_new_handle_step (mkF (cs f) (hs f) (maxbuf f)) h (api_create_stream p true (maxbuf f) now)) as H.
    destruct (with_new_handle (mkF (cs f) (hs f) (maxbuf f)) h (api_create_stream p true (maxbuf f) now)) as [f1 r1].
    cbn [fst snd] in *. apply Hgen. apply H; [exact HF|]. intros n. apply api_create_stream_tot.
  - apply Hgen. apply with_new_handle_step; [exact HF|]. intros n. apply api_create_stream_tot.
  - apply Hgen. apply with_new_handle_step; [exact HF|]. intros n. apply api_open_stream_tot.
  - apply Hgen. apply with_cs_step; [exact HF|]. intros n. apply api_remove_stream_tot.
  - apply Hgen. apply with_cs_step; [exact HF|]. intros n. apply api_set_clsid_tot.
  - apply Hgen. apply with_cs_step; [exact HF|]. intros n. apply api_set_state_tot.
  - apply Hgen. apply with_cs_step; [exact HF|]. intros n. apply api_set_created_tot.
  - apply Hgen. apply with_cs_step; [exact HF|]. intros n. apply api_set_modified_tot.
  - apply Hgen. apply with_cs_step; [exact HF|]. intros n. eapply ro_tot. intros s HD. apply ro_api_exists; exact HD.
  - apply Hgen. apply with_cs_step; [exact HF|]. intros n. eapply ro_tot. intros s HD. apply ro_api_is_stream; exact HD.
  - apply Hgen. apply with_cs_step; [exact HF|]. intros n. eapply ro_tot. intros s HD. apply ro_api_is_storage; exact HD.
  - apply Hgen. apply with_cs_step; [exact HF|]. intros n. eapply ro_tot. intros s HD. apply ro_api_entry; exact HD.
  - apply Hgen. apply with_cs_step; [exact HF|]. intros n. eapply ro_tot. intros s HD. apply ro_api_root_entry; exact HD.
  - apply Hgen. apply with_cs_step; [exact HF|]. intros n. eapply ro_tot. intros s HD. apply ro_api_read_storage; exact HD.
  - apply Hgen. apply with_cs_step; [exact HF|]. intros n. eapply ro_tot. intros s HD. apply ro_api_read_root; exact HD.
  - apply Hgen. apply with_cs_step; [exact HF|]. intros n. eapply ro_tot. intros s HD. apply ro_api_walk; exact HD.
  - apply Hgen. apply with_cs_step; [exact HF|]. intros n. eapply ro_tot. intros s HD. apply ro_api_walk_storage; exact HD.
  - apply Hgen. cbn [fst snd]. split; [exact HF|intros _; exact I].
  - apply Hgen. cbn [fst snd]. split; [exact HF|intros _; exact I].
  - apply Hgen. eapply with_handle_step; [exact HF| |].
    + intros n0 h0 Hh0. apply h_read_tot. apply Hh0.
    + intros h0 s. apply read_Cap; first [exact read_data | exact resize].
  - apply Hgen. eapply with_handle_step; [exact HF| |].
    + intros n0 h0 Hh0. apply h_fill_buf_tot. apply Hh0.
    + intros h0 s. apply fill_Cap; first [exact read_data | exact resize].
  - (* consume *)
    apply Hgen. unfold with_handle. destruct (nthN (hs f) h) as [[h0|]|] eqn:Eh; try (split; [exact HF|intros _; exact I]).
    set (n0 := lenN (dirs (cs f))).
    assert (Hh0 : HOk n0 h0) by (apply (proj2 HF h h0 Eh)).
    destruct (h_consume_ok n0 h0 k (proj1 Hh0) Hop) as [C1 C2].
    pose proof (consume_Cap h0 k (proj2 Hh0)) as C3.
    destruct (h_consume h0 k) as [h1 c]. cbn [fst snd cs hs] in *.
    split.
    + split; [apply HF|]. apply HsOk_upd; [apply HF|]. intros ? [= <-]. split; assumption.
    + intros _. destruct c; try contradiction; exact I.
  - apply Hgen. eapply with_handle_step; [exact HF| |].
    + intros n0 h0 Hh0. apply h_write_tot. apply Hh0.
    + intros h0 s. apply write_Cap; first [exact read_data | exact resize].
  - (* seek: debug_assert!(old_pos <= total_len) holds by CapOk *)
    apply Hgen. eapply with_handle_step; [exact HF| |].
    + intros n0 h0 Hh0. apply h_seek_tot; [apply Hh0|apply Hh0].
    + intros h0 s. apply seek_Cap; first [exact read_data | exact resize].
  - apply Hgen. eapply with_handle_step; [exact HF| |].
    + intros n0 h0 Hh0. apply h_set_len_tot. apply Hh0.
    + intros h0 s. apply set_len_Cap; first [exact read_data | exact resize].
  - apply Hgen. eapply with_handle_step; [exact HF| |].
    + intros n0 h0 Hh0. apply h_flush_tot. apply Hh0.
    + intros h0 s. apply hflush_Cap; first [exact read_data | exact resize].
  - apply Hgen. eapply (with_handle_step f h _ _ (fun _ _ => True)); [exact HF| |].
    + intros n0 h0 Hh0 s Hs. cbn [fst snd]. split; [exact Hs|]. split; [apply Hh0|]. split; [auto|intros _; exact I].
    + intros h0 s Hc. exact Hc.
  - apply Hgen. eapply (with_handle_step f h _ _ (fun _ _ => True)); [exact HF| |].
    + intros n0 h0 Hh0 s Hs. cbn [fst snd]. split; [exact Hs|]. split; [apply Hh0|]. split; [auto|intros _; exact I].
    + intros h0 s Hc. exact Hc.
  - apply Hgen. cbn [fst snd]. split; [apply drop_handle_ok; exact HF|apply drop_result_fineK; exact HF].
  - (* read_to_end *) apply Hgen. apply with_cs_step; [exact HF|]. intros n. apply api_cat_tot.
  - (* reopen: all handles are dropped first *)
    apply Hgen.
    destruct (drop_all_ok (length (hs f)) f 0 HF) as (A & B & C); [intros j h Hj; lia|].
    set (f1 := drop_all (length (hs f)) f 0) in *.
    pose proof (open_fine strict (concat_img (img (cs f1)))) as Hfine.
    destruct (open_model strict (concat_img (img (cs f1)))) as [s'| | |] eqn:Eo; cbn [fst snd]; try contradiction.
    + split; [|intros _; exact I]. split; [cbn [cs]; eapply open_MInv; eauto|]. cbn [cs hs].
      intros j h Hj. exfalso. pose proof (nthN_Some_lt _ _ _ Hj) as Hlt.
      apply (B j h); [|exact Hj]. rewrite C, lenN_length in Hlt. lia.
    + split; [exact A|intros _; exact I].
Qed.

(* ================================================================== *)
(* 16. sequences of calls                                              *)
(* ================================================================== *)
(* The side condition on a run, checked along the run:
   - OpOk: the caller's contract of BufRead::consume (at most what the buffer holds);
   - Bound: the FAT and MiniFAT stay below 2^32 - 5 entries (no u32 wrap).
   Nothing is asked of a removal that fails: the in-memory table is put back
   (remove_dir_entry), so the forest is there in every outcome. *)
Fixpoint RunOk (f : fstate) (l : list (N * op)) : Prop :=
  match l with
  | [] => True
  | (now, o) :: t =>
    OpOk f o /\
    let f1 := fst (step f now o) in
    Bound (cs f1) /\
    RunOk f1 t
  end.

Theorem run_total : forall l f, FOk f -> RunOk f l -> Forall fineK (snd (run_ops f l)).
Proof.
  induction l as [|[now o] t IH]; intros f HF HR; cbn [run_ops]; [constructor|].
  cbn [RunOk] in HR. destruct HR as (Hop & HB & HR).
  destruct (step_total f now o HF Hop) as (HF1 & S2).
  destruct (step f now o) as [f1 r] eqn:Es. cbn [fst snd] in *.
  specialize (IH f1 HF1 HR). destruct (run_ops f1 t) as [f2 rs]. cbn [snd] in *.
  constructor; [apply S2; exact HB|exact IH].
Qed.

Lemma HsOk_none n k : HsOk n (repeatN None k).
Proof.
  intros i h H. exfalso. revert i H. induction k as [|k IH] using N.peano_ind; intros i H.
  - discriminate H.
  - unfold repeatN in *. rewrite N.iter_succ in H. cbn [nthN] in H.
    destruct (i =? 0); [discriminate|]. eapply IH; eauto.
Qed.

(* The main theorem: after a successful strict or permissive open, every sequence of
   calls returns Ok, Err, or panics at the one site of Ksites. *)
Theorem mutating_total_partial : forall strict bytes s, open_model strict bytes = Ok s ->
  forall mb nh (l : list (N * op)),
  RunOk (mkF s (repeatN None nh) mb) l ->
  Forall fineK (snd (run_ops (mkF s (repeatN None nh) mb) l)).
Proof.
  intros strict bytes s Hopen mb nh l HR. apply run_total; [|exact HR].
  split; [cbn [cs]; eapply open_MInv; eauto|cbn [cs hs]; apply HsOk_none].
Qed.

(* If, in addition, none of the results is a panic at a site of Ksites, all results are fine. *)
Definition NoKnownPanic (r : res value) : Prop :=
  match r with Panic n => ~ In n Ksites | _ => True end.

Lemma fineK_fine {A} (r : res A) : fineK r -> match r with Panic n => ~ In n Ksites | _ => True end -> fine r.
Proof. destruct r; cbn; auto. Qed.

Theorem mutating_total : forall strict bytes s, open_model strict bytes = Ok s ->
  forall mb nh (l : list (N * op)),
  RunOk (mkF s (repeatN None nh) mb) l ->
  Forall NoKnownPanic (snd (run_ops (mkF s (repeatN None nh) mb) l)) ->
  Forall fine (snd (run_ops (mkF s (repeatN None nh) mb) l)).
Proof.
  intros strict bytes s Hopen mb nh l HR HK.
  pose proof (mutating_total_partial strict bytes s Hopen mb nh l HR) as H.
  induction H as [|r rs Hr _ IH]; [constructor|].
  inversion HK; subst. constructor; [apply fineK_fine; assumption|auto].
Qed.

(* the same for a freshly created file *)
Theorem create_MInv v : MInv (create_state v).
Proof.
  split; [apply create_allsafe|].
  assert (Hroot : nthN (dirs (create_state v)) ROOT_STREAM_ID = Some dirent_empty_root) by reflexivity.
  split; [split; [|split]|split; [split|]].
  - exists dirent_empty_root. split; [exact Hroot|]. split; reflexivity.
  - cbn [dirs create_state]. constructor; [|constructor]. split; [exact root_name_len|discriminate].
  - exists (N3 L3 ROOT_STREAM_ID L3 L3). split; [|split].
    + cbn [Rep3]. split; [reflexivity|]. split; [discriminate|]. exists dirent_empty_root.
      split; [exact Hroot|]. repeat split; reflexivity.
    + cbn [ids3 app]. constructor; [intros []|constructor].
    + cbn [ids3 app]. constructor; [|constructor]. exists dirent_empty_root. split; [exact Hroot|]. reflexivity.
  - constructor.
  - reflexivity.
  - cbn [dir_start create_state]. discriminate.
Qed.

(* ================================================================== *)
(* 17. the reachable panic sites, and the earlier findings after the   *)
(*     repairs: scenarios confirmed by evaluation                       *)
(* ================================================================== *)
Module Scenarios.
Definition code (r : res value) : N :=
  match r with Ok _ => 0 | Err _ => 1 | Panic n => 1000 + n | OutOfFuel => 999 end.
Definition runl (f : fstate) (l : list op) := run_ops f (map (fun o => (1000, o)) l).
Definition codes (f : fstate) (l : list op) : list N := map code (snd (runl f l)).

(* overwrite one directory entry in memory, write it through, and reopen the bytes *)
Definition tamper (f : fstate) (id : N) (g : dirent -> dirent) : cstate :=
  match nthN (dirs (cs f)) id with
  | Some e => fst (write_dir_entry id (w_dirs (cs f) (updN (dirs (cs f)) id (g e))))
  | None => cs f
  end.
Definition reopened (strict : bool) (s : cstate) (mb : N) : option fstate :=
  match open_model strict (concat_img (img s)) with
  | Ok s' => Some (mkF s' (repeatN None 4) mb)
  | _ => None
  end.
Definition codes_after (o : option fstate) (l : list op) : list N :=
  match o with Some f => codes f l | None => [] end.

Definition f0 := init_fstate V3 1024 4.
Definition w1k := OHWrite 0 (repeatN 7 1024).
Definition p_s := [47; 115].   (* "/s" *)
Definition p_z := [47; 122].   (* "/z" *)
Definition p_a := [47; 97].  Definition p_b := [47; 98].
Definition p_c := [47; 99].  Definition p_d := [47; 100].

Definition nums (f : fstate) (l : list op) : list (option N) :=
  map (fun r => match r with Ok (VNum n) => Some n | _ => None end) (snd (runl f l)).

(* S-705, the first route to site 705 (a flush that SHRANK total_len below the position):
   repaired, flush_changes only ever adopts a larger length. *)
Example S705 :
  codes f0 [OCreateStream 0 p_s; w1k; w1k; w1k; OHFlush 0; OOpenStream 1 p_s; OHSetLen 1 10;
            OHSeek 0 WStart 0%Z; OHWrite 0 [1;2;3]; OHSeek 0 WStart 2000%Z; OHSeek 0 WCur 0%Z]
  = [0; 0; 0; 0; 0; 0; 0; 0; 0; 0; 0].
Proof. vm_compute. reflexivity. Qed.

(* S-705b, the second route to site 705 (found by the previous version of this file and
   replayed on the crate): handle 1 is opened while the stream holds 10 bytes (total_len = 10)
   and stays clean; handle 0 grows the stream to 100 bytes and flushes.  A read of 50 bytes
   through handle 1 used to refill the buffer with 50 bytes (read_data_from_stream was bounded
   by the entry's current length and the buffer size only), leaving the position at
   50 > total_len = 10, and seek(SeekFrom::Current(0)) hit debug_assert!(old_pos <= total_len).
   Repaired: the refill asks for at most total_len - position bytes.  The read now returns the
   10 bytes the handle knows about, and the seek is Ok. *)
Definition l705b := [OCreateStream 0 p_s; OHWrite 0 (repeatN 7 10); OHFlush 0; OOpenStream 1 p_s;
                     OHWrite 0 (repeatN 7 100); OHFlush 0; OHRead 1 50; OHPos 1; OHLen 1; OHSeek 1 WCur 0%Z].
Example S705b : codes f0 l705b = [0; 0; 0; 0; 0; 0; 0; 0; 0; 0].
Proof. vm_compute. reflexivity. Qed.
(* position 10, length 10 before the seek, which returns 10 *)
Example S705b_pos_len : nums f0 l705b = [None; Some 10; None; None; Some 100; None; None; Some 10; Some 10; Some 10].
Proof. vm_compute. reflexivity. Qed.

(* read_to_end sees what another handle wrote, and stops *)
Example SCAT :
  codes f0 [OCreateStream 0 p_s; w1k; w1k; w1k; w1k; w1k; OHFlush 0; OCat p_s; OHSetLen 0 100; OCat p_s; OCat p_z]
  = [0; 0; 0; 0; 0; 0; 0; 0; 0; 0; 1].
Proof. vm_compute. reflexivity. Qed.

(* S-305 (pristine file): set_len(u64::MAX) is refused by the bound check of resize_stream *)
Example S305 : codes f0 [OCreateStream 0 p_s; OHSetLen 0 18446744073709551615] = [0; 1].
Proof. vm_compute. reflexivity. Qed.

(* S-REMOVE: a stream whose start sector is the first directory sector (accepted by STRICT open).
   remove_stream frees the directory chain; from then on write_dir_entry fails; the two failing
   remove_storage calls used to leave a self-loop in the in-memory table (the next lookup of a
   larger name ran out of fuel).  Now every failed removal puts the table back: the lookups
   terminate and every entry is still there. *)
Definition fR := fst (runl f0 [OCreateStorage p_b; OCreateStorage p_a; OCreateStorage p_c;
                               OCreateStream 0 p_z; w1k; w1k; w1k; w1k; w1k; OHFlush 0; OHDrop 0]).
Definition sR := tamper fR 4 (fun e => set_start_len e (dir_start (cs fR)) (d_len e)).
Example SREMOVE :
  codes_after (reopened true sR 1024) [ORemoveStream p_z; ORemoveStorage p_b; ORemoveStorage p_b; OExists p_d]
  = [1; 1; 1; 0].
Proof. vm_compute. reflexivity. Qed.
Definition bools (o : option fstate) (l : list op) : list (option bool) :=
  match o with
  | Some f => map (fun r => match r with Ok (VBool b) => Some b | _ => None end) (snd (runl f l))
  | None => []
  end.
Example SREMOVE_kept :
  bools (reopened true sR 1024) [ORemoveStream p_z; ORemoveStorage p_b; ORemoveStorage p_b;
                                 OExists p_d; OExists p_a; OExists p_b; OExists p_c; OExists p_z]
  = [None; None; None; Some false; Some true; Some true; Some true; Some true].
Proof. vm_compute. reflexivity. Qed.

(* S-503: a stream whose start sector is the first MiniFAT sector (accepted by STRICT open), V4.
   set_len(4096) truncates the MiniFAT chain to one sector; freeing a mini sector >= 1024 then
   used to hit debug_assert!(chain.len() >= offset + 4) in set_minifat; now InvalidData. *)
Fixpoint mkstreams (k : nat) (i : N) : list op :=
  match k with
  | O => []
  | S k' => [OCreateStream 0 [47; 115; 65 + i]; OHWrite 0 (repeatN 7 1024); OHWrite 0 (repeatN 7 2976);
             OHFlush 0; OHDrop 0] ++ mkstreams k' (i + 1)
  end.
Definition g0 := init_fstate V4 4096 4.
Definition g1 := fst (runl g0 (mkstreams 17 0 ++
  [OCreateStream 0 p_z; OHWrite 0 (repeatN 9 1024); OHWrite 0 (repeatN 9 3072); OHWrite 0 (repeatN 9 4096);
   OHFlush 0; OHDrop 0])).
Definition s503 := tamper g1 18 (fun e => set_start_len e (minifat_start (cs g1)) (d_len e)).
Example S503 :
  codes_after (reopened true s503 4096) [OOpenStream 1 p_z; OHSetLen 1 4096; ORemoveStream [47; 115; 81]]
  = [0; 0; 1].
Proof. vm_compute. reflexivity. Qed.

(* S-403: a stream whose start sector is the first directory sector, 11 directory sectors (V3).
   set_len(4096) truncates the directory chain to 8 sectors (the call itself reports Err);
   touching entry 39/40 then used to hit debug_assert_ne!(directory_sector, END_OF_CHAIN); now
   InvalidData. *)
Fixpoint mkstg (k : nat) (i : N) : list op :=
  match k with
  | O => []
  | S k' => OCreateStorage [47; 97 + i / 26; 97 + i mod 26] :: mkstg k' (i + 1)
  end.
Definition k1 := fst (runl f0 (mkstg 40 0 ++ [OCreateStream 0 p_z; w1k; w1k; w1k; w1k; w1k; OHFlush 0; OHDrop 0])).
Definition s403 := tamper k1 41 (fun e => set_start_len e (dir_start (cs k1)) (d_len e)).
Example S403 :
  codes_after (reopened true s403 1024) [OOpenStream 1 p_z; OHSetLen 1 4096; ORemoveStorage [47; 98; 110]]
  = [0; 1; 1].
Proof. vm_compute. reflexivity. Qed.

(* S-303: append_fat_sector pushes the new FAT sector on the DIFAT before the fallible set_fat;
   every failed call leaves the DIFAT one entry longer.  On a table shaped like a 30208-sector V3
   file whose 109 FAT sectors do not cover the file, the 128th failing allocation indexes
   difat_sector_ids out of range. *)
Definition s303 : cstate :=
  mkState V3 [repeatN 0 512] 30208 [] (repeatN 7 109) (repeatN END_OF_CHAIN 30208) []
          [dirent_empty_root] 1 [] END_OF_CHAIN [].
Fixpoint iter_alloc (k : nat) (s : cstate) (acc : list N) : list N * N :=
  match k with
  | O => (rev acc, lenN (difat s))
  | S k' => let '(s', r) := allocate_sector IZero s in
            iter_alloc k' s' (match r with Ok _ => 0 | Err _ => 1 | Panic n => 1000 + n | OutOfFuel => 999 end :: acc)
  end.
Example S303 : iter_alloc 128 s303 [] = (repeat 1 127 ++ [1303], 237).
Proof. vm_compute. reflexivity. Qed.
End Scenarios.

(* the same for a freshly created file *)
Theorem mutating_total_created : forall v mb nh (l : list (N * op)),
  RunOk (init_fstate v mb nh) l -> Forall fineK (snd (run_ops (init_fstate v mb nh) l)).
Proof.
  intros v mb nh l HR. apply run_total; [|exact HR].
  split; [cbn [cs init_fstate]; apply create_MInv|cbn [cs hs init_fstate]; apply HsOk_none].
Qed.

Print Assumptions read_data_tot.
Print Assumptions write_data_tot.
Print Assumptions resize_tot.
Print Assumptions insert_dir_entry_tot.
Print Assumptions remove_dir_entry_tot.
Print Assumptions remove_dirtree.
Print Assumptions api_cat_tot.
Print Assumptions fill_Cap.
Print Assumptions read_Cap.
Print Assumptions step_total.
Print Assumptions open_MInv.
Print Assumptions mutating_total_partial.
Print Assumptions mutating_total.
Print Assumptions mutating_total_created.
